(* Proofs/SrcJsonFacts.v — the source tie of json_writer.py: the translations in Gen/Src_json.v
   (py_to_json, py_get_tree_info, py_get_attributes_info, py_get_constraints_info, py_get_ctc_info)
   are equal to the hand-written writer of Format/Json.v (json_write, json_tree, json_attributes,
   json_constraints, json_ctc), error cases included, for every fuel that covers the model. *)
From Coq Require Import List Bool Ascii String ZArith Lia.
From FM Require Import Base.Result Base.Str Base.AstOp Model.Ast Model.FM Model.PFM Model.Queries
     Gen.Tables_json Format.Json Model.PyRt Model.Loc Gen.Src_fm Gen.Src_json.
Import ListNotations.
Local Open Scope list_scope.

Definition fuel_ctcs (cs : list ctc) : nat := list_sum (map (fun c => fuel_node (c_ast c)) cs).
Definition fuel_fm (m : fm) : nat := fuel_tree (root m) + fuel_ctcs (ctcs m).

(* ------------------------------------------------------------------ general helpers *)

(* a loop whose body appends one computed element is a map *)
Lemma foldM_snoc_map : forall {A B} (F : list B -> A -> result (list B)) (h : A -> B) (l : list A),
  (forall acc x, In x l -> F acc x = Ok (acc ++ [h x])) ->
  forall acc, foldM F l acc = Ok (acc ++ map h l).
Proof.
  intros A B F h l. induction l as [|x xs IH]; intros HF acc.
  - cbn. now rewrite app_nil_r.
  - cbn [foldM map]. rewrite (HF acc x (or_introl eq_refl)).
    change (foldM F xs (acc ++ [h x]) = Ok (acc ++ h x :: map h xs)).
    rewrite IH.
    + now rewrite <- app_assoc.
    + intros acc' y Hy. apply HF. now right.
Qed.

(* a loop whose body appends one element that may fail is a mapM *)
Lemma foldM_snoc_mapM : forall {A B} (F : list B -> A -> result (list B)) (g : A -> result B)
  (l : list A),
  (forall acc x, In x l ->
     F acc x = match g x with Ok v => Ok (acc ++ [v]) | Err e => Err e end) ->
  forall acc, foldM F l acc = match mapM g l with Ok vs => Ok (acc ++ vs) | Err e => Err e end.
Proof.
  intros A B F g l. induction l as [|x xs IH]; intros HF acc.
  - cbn. now rewrite app_nil_r.
  - cbn [foldM mapM]. rewrite (HF acc x (or_introl eq_refl)).
    destruct (g x) as [v|e]; [|reflexivity].
    change (foldM F xs (acc ++ [v]) =
            match match mapM g xs with Err e => Err e | Ok ys => Ok (v :: ys) end with
            | Ok vs => Ok (acc ++ vs) | Err e => Err e end).
    rewrite IH.
    + destruct (mapM g xs) as [ys|e]; [|reflexivity]. now rewrite <- app_assoc.
    + intros acc' y Hy. apply HF. now right.
Qed.

Lemma in_list_sum_le : forall {A} (f : A -> nat) (l : list A) (x : A),
  In x l -> (f x <= list_sum (map f l))%nat.
Proof.
  intros A f l x. induction l as [|y ys IH]; intros Hin; [destruct Hin|].
  cbn [map]. change (list_sum (f y :: map f ys)) with (f y + list_sum (map f ys))%nat. destruct Hin as [->|Hin]; [lia|]. specialize (IH Hin). lia.
Qed.

Lemma fsize_child_lt : forall i rs r c,
  In r rs -> In c (r_children r) -> (fsize c < fsize (Feature i rs))%nat.
Proof.
  intros i rs r c Hr Hc.
  pose proof (in_list_sum_le fsize (r_children r) c Hc) as H1.
  pose proof (in_list_sum_le
                (fun r => match r with Relation _ _ cs => list_sum (map fsize cs) end) rs r Hr) as H2.
  cbn beta in H2.
  change (fsize (Feature i rs))
    with (S (list_sum (map (fun r => match r with
                                     | Relation _ _ cs => list_sum (map fsize cs)
                                     end) rs))).
  destruct r as [a b cs]. cbn [r_children] in H1. lia.
Qed.

Lemma nsize_node : forall d l r,
  nsize (Node d l r) = S ((match l with Some a => nsize a | None => 0 end)
                          + (match r with Some b => nsize b | None => 0 end)).
Proof. reflexivity. Qed.

(* ------------------------------------------------------------------ Relation.is_X *)
Lemma py_len_lr_children : forall r o, py_len (lr_children (r, o)) = nchildren r.
Proof. intros r o. unfold py_len, lr_children, nchildren. cbn [fst]. now rewrite map_length. Qed.

Lemma src_rel_is_mandatory : forall r o, py_Relation_is_mandatory (r, o) = rel_is_mandatory r.
Proof.
  intros r o. unfold py_Relation_is_mandatory, rel_is_mandatory.
  rewrite py_len_lr_children. cbn [fst]. now rewrite andb_assoc.
Qed.
Lemma src_rel_is_optional : forall r o, py_Relation_is_optional (r, o) = rel_is_optional r.
Proof.
  intros r o. unfold py_Relation_is_optional, rel_is_optional.
  rewrite py_len_lr_children. cbn [fst]. now rewrite andb_assoc.
Qed.
Lemma src_rel_is_or : forall r o, py_Relation_is_or (r, o) = rel_is_or r.
Proof.
  intros r o. unfold py_Relation_is_or, rel_is_or.
  rewrite py_len_lr_children. cbn [fst]. now rewrite andb_assoc.
Qed.
Lemma src_rel_is_alternative : forall r o, py_Relation_is_alternative (r, o) = rel_is_alternative r.
Proof.
  intros r o. unfold py_Relation_is_alternative, rel_is_alternative.
  rewrite py_len_lr_children. cbn [fst]. now rewrite andb_assoc.
Qed.
Lemma src_rel_is_mutex : forall r o, py_Relation_is_mutex (r, o) = rel_is_mutex r.
Proof.
  intros r o. unfold py_Relation_is_mutex, rel_is_mutex.
  rewrite py_len_lr_children. cbn [fst]. now rewrite andb_assoc.
Qed.
Lemma src_rel_is_cardinal : forall r o, py_Relation_is_cardinal (r, o) = rel_is_cardinal r.
Proof.
  intros r o. unfold py_Relation_is_cardinal, rel_is_cardinal.
  rewrite src_rel_is_mandatory, src_rel_is_optional, src_rel_is_alternative, src_rel_is_or,
    src_rel_is_mutex.
  destruct (rel_is_mandatory r), (rel_is_optional r), (rel_is_alternative r), (rel_is_or r);
    reflexivity.
Qed.

(* ------------------------------------------------------------------ get_ctc_info *)
Lemma src_get_ctc_info : forall n fuel, (fuel_node n <= fuel)%nat -> py_get_ctc_info fuel n = json_ctc n.
Proof.
  intros n fuel; revert n. induction fuel as [|fuel IH]; intros n Hfuel.
  - unfold fuel_node in Hfuel. lia.
  - destruct n as [d l r]. unfold fuel_node in Hfuel. rewrite nsize_node in Hfuel.
    cbn [py_get_ctc_info json_ctc].
    destruct (is_term (Node d l r)) eqn:Eterm.
    + reflexivity.
    + destruct d as [o|s|z|q|b]; try (cbv in Eterm; discriminate Eterm).
      cbn [n_data n_left n_right bind py_need data_label].
      destruct l as [a|]; [|reflexivity].
      cbn [bind py_need].
      rewrite (IH a) by (unfold fuel_node; lia).
      destruct (json_ctc a) as [ja|e]; [|reflexivity].
      cbn [bind].
      destruct r as [b|]; [|reflexivity].
      rewrite (IH b) by (unfold fuel_node; lia).
      destruct (json_ctc b) as [jb|e]; reflexivity.
Qed.

(* ------------------------------------------------------------------ get_attributes_info *)
Lemma src_get_attributes_info : forall l, py_get_attributes_info l = Ok (json_attributes l).
Proof.
  intros l. unfold py_get_attributes_info, json_attributes. cbv zeta.
  rewrite foldM_snoc_map with
    (h := fun a => VMap (("name"%string, VStr (a_name a))
                         :: match a_default a with VNone => [] | v => [("value"%string, v)] end)).
  - reflexivity.
  - intros acc a _. destruct (a_default a); reflexivity.
Qed.

(* ------------------------------------------------------------------ get_tree_info *)
Definition json_relation (r : relation) : aval :=
  match r with
  | Relation a b cs =>
      VMap [("type"%string, VStr (json_relation_type r));
            ("card_min"%string, VInt a); ("card_max"%string, VInt b);
            ("children"%string, VList (map json_tree cs))]
  end.

Lemma json_tree_eq : forall i rs,
  json_tree (Feature i rs) =
  VMap ([("name"%string, VStr (f_name i)); ("abstract"%string, f_abstract i);
         ("relations"%string, VList (map json_relation rs))]
        ++ match f_attrs i with
           | [] => []
           | at_ => [("attributes"%string, VList (json_attributes at_))]
           end).
Proof. reflexivity. Qed.

Lemma src_get_tree_info : forall f anc fuel, (fsize f <= fuel)%nat -> py_get_tree_info fuel (f, anc) = Ok (json_tree f).
Proof.
  intros f anc fuel; revert f anc. induction fuel as [|fuel IH]; intros f anc Hfuel.
  - destruct f as [i rs]. cbn [fsize] in Hfuel. lia.
  - destruct f as [i rs].
    assert (Hch : forall r c anc', In r rs -> In c (r_children r) ->
                    py_get_tree_info fuel (c, anc') = Ok (json_tree c)).
    { intros r c anc' Hr Hc. apply IH.
      pose proof (fsize_child_lt i rs r c Hr Hc) as Hlt. lia. }
    clear IH Hfuel.
    rewrite json_tree_eq.
    cbn [py_get_tree_info].
    unfold py_Feature_get_relations, py_Feature_get_attributes, lf_relations.
    cbn [fst snd info rels name].
    rewrite foldM_snoc_map with (h := fun x : lrel => json_relation (fst x)).
    + cbn [bind app]. rewrite map_map. cbn [fst].
      rewrite src_get_attributes_info. cbn [bind].
      unfold json_attributes.
      destruct (f_attrs i) as [|a0 at_]; reflexivity.
    + intros acc x Hx. apply in_map_iff in Hx. destruct Hx as [r [<- Hr]].
      rewrite src_rel_is_alternative, src_rel_is_or, src_rel_is_mutex, src_rel_is_cardinal,
        src_rel_is_mandatory, src_rel_is_optional.
      cbv zeta.
      repeat match goal with
             | |- context [foldM ?F (lr_children ?x) ?a0] =>
                 rewrite (foldM_snoc_map F (fun y : lfeat => json_tree (fst y)) (lr_children x))
                   by (intros acc1 y Hy; unfold lr_children in Hy; cbn [fst snd] in Hy;
                       apply in_map_iff in Hy; destruct Hy as [c [<- Hc]];
                       cbv beta; rewrite (Hch r c _ Hr Hc); reflexivity)
             end.
      unfold lr_children. cbn [fst snd]. rewrite !map_map. cbn [fst].
      cbn [fst bind app].
      unfold json_relation, json_relation_type.
      destruct r as [a b cs]. cbn [r_min r_max r_children].
      destruct (rel_is_alternative (Relation a b cs)); [reflexivity|].
      destruct (rel_is_or (Relation a b cs)); [reflexivity|].
      destruct (rel_is_mutex (Relation a b cs)); [reflexivity|].
      destruct (rel_is_cardinal (Relation a b cs)); [reflexivity|].
      destruct (rel_is_mandatory (Relation a b cs)); [reflexivity|].
      destruct (rel_is_optional (Relation a b cs)); reflexivity.
Qed.

(* ------------------------------------------------------------------ get_constraints_info *)
Lemma src_get_constraints_info : forall cs fuel, (fuel_ctcs cs <= fuel)%nat ->
  py_get_constraints_info fuel cs = json_constraints cs.
Proof.
  intros cs fuel Hfuel. unfold py_get_constraints_info, json_constraints. cbv zeta.
  rewrite foldM_snoc_mapM with
    (g := fun c =>
            match pretty_str (c_ast c) with Err e => Err e | Ok expr =>
            match json_ctc (c_ast c) with Err e => Err e | Ok j =>
              Ok (VMap [("name"%string, VStr (c_name c)); ("expr"%string, VStr expr);
                        ("ast"%string, j)])
            end end).
  - match goal with |- context [mapM ?g cs] => destruct (mapM g cs) as [vs|e] end; reflexivity.
  - intros acc c Hc.
    rewrite src_get_ctc_info.
    + destruct (pretty_str (c_ast c)) as [expr|e]; [|reflexivity].
      destruct (json_ctc (c_ast c)) as [j|e]; reflexivity.
    + pose proof (in_list_sum_le (fun c => fuel_node (c_ast c)) cs c Hc) as Hle.
      cbn beta in Hle. unfold fuel_ctcs in Hfuel. lia.
Qed.

(* ------------------------------------------------------------------ to_json *)
Theorem src_to_json : forall m fuel, (fuel_fm m <= fuel)%nat -> py_to_json fuel m = json_write m.
Proof.
  intros m fuel Hfuel. unfold fuel_fm, fuel_tree in Hfuel.
  unfold py_to_json, json_write, fm_root_l, py_FeatureModel_get_constraints. cbv zeta.
  rewrite src_get_tree_info by lia.
  rewrite src_get_constraints_info by lia.
  cbn [bind].
  destruct (json_constraints (ctcs m)) as [cs|e]; reflexivity.
Qed.

Print Assumptions src_get_ctc_info.
Print Assumptions src_get_attributes_info.
Print Assumptions src_get_tree_info.
Print Assumptions src_get_constraints_info.
Print Assumptions src_to_json.
