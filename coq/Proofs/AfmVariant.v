(* Proofs/AfmVariant.v — AFM: parentheses in constraint expressions are invisible to the reader,
   at the level of whole documents. *)
From Coq Require Import List Bool String ZArith.
From FM Require Import Base.Result Base.AstOp Model.Ast Model.FM Model.PFM Format.Afm Proofs.C09Facts.
Import ListNotations.
Local Open Scope string_scope.
Local Open Scope list_scope.

(* apply [f] to every expression of every constraint; relationships and attributes are kept *)
Definition afm_map_ctc (f : aexpr -> aexpr) (c : actc) : actc :=
  match c with
  | CSimple e t => CSimple (f e) t
  | CBrackets w l => CBrackets w (map (fun et => (f (fst et), snd et)) l)
  end.

Definition afm_map_exprs (f : aexpr -> aexpr) (d : adoc) : adoc :=
  {| ad_rels := ad_rels d; ad_attrs := ad_attrs d;
     ad_ctcs := match ad_ctcs d with Some l => Some (map (afm_map_ctc f) l) | None => None end |}.

(* the constraint part of [afm_read_cst] *)
Definition afm_read_ctc (c : actc) : result (list ctc) :=
  match c with
  | CSimple e t =>
      match afm_read_expr "" e with
      | Err x => Err x
      | Ok n => Ok [{| c_name := t; c_ast := n |}]
      end
  | CBrackets w l =>
      mapM (fun et => match afm_read_expr (w ++ ".")%string (fst et) with
                      | Err x => Err x
                      | Ok n => Ok {| c_name := snd et; c_ast := n |}
                      end) l
  end.

Lemma mapM_map_ext {A B C} (g : A -> B) (f : B -> result C) (h : A -> result C) :
  (forall x, f (g x) = h x) -> forall l, mapM f (map g l) = mapM h l.
Proof.
  intros H. induction l as [|x l IH]; [reflexivity|].
  cbn [map mapM]. cbn [mapM] in IH. rewrite H, IH. reflexivity.
Qed.

Lemma afm_read_ctc_strip c : afm_read_ctc (afm_map_ctc strip_parens c) = afm_read_ctc c.
Proof.
  destruct c as [e t|w l]; cbn [afm_map_ctc afm_read_ctc].
  - rewrite afm_read_strip_parens. reflexivity.
  - apply mapM_map_ext. intros [e t]. cbn [fst snd]. rewrite afm_read_strip_parens. reflexivity.
Qed.

Theorem afm_read_doc_parens : forall d, afm_read_cst (afm_map_exprs strip_parens d) = afm_read_cst d.
Proof.
  intros [rels ats cs]. unfold afm_read_cst, afm_map_exprs. cbn [ad_rels ad_attrs ad_ctcs].
  destruct rels as [|first others]; [reflexivity|].
  destruct cs as [l|]; [|reflexivity].
  match goal with
  | |- context [mapM ?F (map (afm_map_ctc strip_parens) l)] =>
      rewrite (mapM_map_ext (afm_map_ctc strip_parens) F F afm_read_ctc_strip l)
  end.
  reflexivity.
Qed.

(* non-vacuity: a document whose constraints carry parentheses at several depths *)
Definition afm_ex : adoc :=
  {| ad_rels := [{| rs_parent := "R"; rs_items := [ISingle false "A"; ISingle true "B"] |}];
     ad_attrs := None;
     ad_ctcs := Some [CSimple (EParen (EBin "IMPLIES" (EParen (EVar "A")) (ENot (EParen (EParen (EVar "B"))))))
                              "(A IMPLIES NOT ((B)))";
                      CBrackets "R" [(EParen (EBin "AND" (EVar "A") (EParen (EVar "B"))), "x")]] |}.

Example afm_ex_stripped :
  afm_map_exprs strip_parens afm_ex =
  {| ad_rels := ad_rels afm_ex; ad_attrs := None;
     ad_ctcs := Some [CSimple (EBin "IMPLIES" (EVar "A") (ENot (EVar "B"))) "(A IMPLIES NOT ((B)))";
                      CBrackets "R" [(EBin "AND" (EVar "A") (EVar "B"), "x")]] |}.
Proof. reflexivity. Qed.

Example afm_ex_read_ok : exists pm, afm_read_cst afm_ex = Ok pm.
Proof. vm_compute. eexists. reflexivity. Qed.

Print Assumptions afm_read_doc_parens.
