(* Proofs/SrcAtomicFacts.v — the source tie for fm_atomic_sets.py: the generated translation
   (Gen/Src_atomic.v), which threads a store of shared set objects, returns the atomic sets of the
   hand-written model (Model/Ops.v) when the feature names are distinct. *)
From Coq Require Import List Bool Ascii String ZArith Lia Permutation.
From FM Require Import Base.Result Base.Str Base.AstOp Model.Ast Model.FM Model.Queries Model.Sem
     Model.Ops Model.PyRt Model.Loc Gen.Src_fm Gen.Src_atomic
     Proofs.FMFacts Proofs.C14Facts Proofs.C15Facts Proofs.SrcFmFacts.
Import ListNotations.
Local Open Scope list_scope.

(* ------------------------------------------------------------------ generic list helpers *)
Lemma at_flat_map_flat_map {A B C} (f : A -> list B) (g : B -> list C) (l : list A) :
  flat_map g (flat_map f l) = flat_map (fun x => flat_map g (f x)) l.
Proof.
  induction l as [|x xs IH]; [reflexivity|].
  cbn [flat_map]. rewrite flat_map_app', IH. reflexivity.
Qed.

Lemma at_in_concat_app {A} (l1 l2 : list (list A)) (x : A) :
  In x (List.concat (l1 ++ l2)) <-> In x (List.concat l1) \/ In x (List.concat l2).
Proof. rewrite concat_app. apply in_app_iff. Qed.

Lemma at_nodup_app_l {A} (l1 l2 : list A) : NoDup (l1 ++ l2) -> NoDup l1.
Proof.
  induction l1 as [|x xs IH]; intros H; [constructor|].
  cbn [app] in H. inversion H as [|y ys Hnin Hnd]; subst y ys.
  constructor; [|apply IH; exact Hnd].
  intros Hin. apply Hnin. apply in_or_app. left. exact Hin.
Qed.

Lemma at_nodup_app_r {A} (l1 l2 : list A) : NoDup (l1 ++ l2) -> NoDup l2.
Proof.
  induction l1 as [|x xs IH]; intros H; [exact H|].
  cbn [app] in H. inversion H as [|y ys _ Hnd]; subst y ys. apply IH. exact Hnd.
Qed.

Lemma at_nodup_app_disj {A} (l1 l2 : list A) x : NoDup (l1 ++ l2) -> In x l1 -> In x l2 -> False.
Proof.
  induction l1 as [|y ys IH]; intros H H1 H2; [contradiction|].
  cbn [app] in H. inversion H as [|z zs Hnin Hnd]; subst z zs.
  destruct H1 as [-> | H1].
  - apply Hnin. apply in_or_app. right. exact H2.
  - exact (IH Hnd H1 H2).
Qed.

Lemma at_nth_seq {A} (l : list A) (d : A) :
  map (fun i => nth i l d) (seq 0 (List.length l)) = l.
Proof.
  induction l as [|x xs IH]; [reflexivity|].
  cbn [List.length seq map nth]. f_equal.
  rewrite <- seq_shift, map_map. exact IH.
Qed.

Lemma at_foldM_cons {S A} (f : S -> A -> result S) x xs s :
  foldM f (x :: xs) s = match f s x with Err e => Err e | Ok s' => foldM f xs s' end.
Proof. reflexivity. Qed.

(* ------------------------------------------------------------------ the store at the level of names *)
Definition nm (x : lfeat) : string := name (fst x).
Definition nms (st : py_store) : list (list string) := map (map nm) st.

(* the set at index [cur] extended by [l] *)
Fixpoint upd {A} (st : list (list A)) (cur : nat) (l : list A) : list (list A) :=
  match st, cur with
  | [], _ => []
  | s :: rest, O => (s ++ l) :: rest
  | s :: rest, S k => s :: upd rest k l
  end.

Lemma upd_length {A} (st : list (list A)) cur l : List.length (upd st cur l) = List.length st.
Proof.
  revert cur. induction st as [|s rest IH]; intros cur; [reflexivity|].
  destruct cur as [|k]; cbn [upd List.length]; [reflexivity|]. rewrite IH. reflexivity.
Qed.

Lemma upd_nil {A} (st : list (list A)) cur : upd st cur [] = st.
Proof.
  revert cur. induction st as [|s rest IH]; intros cur; [reflexivity|].
  destruct cur as [|k]; cbn [upd]; [rewrite app_nil_r; reflexivity|]. rewrite IH. reflexivity.
Qed.

Lemma upd_upd {A} (st : list (list A)) cur a b : upd (upd st cur a) cur b = upd st cur (a ++ b).
Proof.
  revert cur. induction st as [|s rest IH]; intros cur; [reflexivity|].
  destruct cur as [|k]; cbn [upd]; [rewrite app_assoc; reflexivity|]. rewrite IH. reflexivity.
Qed.

Lemma upd_app {A} (st X : list (list A)) cur l :
  (cur < List.length st)%nat -> upd (st ++ X) cur l = upd st cur l ++ X.
Proof.
  revert cur. induction st as [|s rest IH]; intros cur H; [cbn [List.length] in H; lia|].
  destruct cur as [|k]; cbn [upd app]; [reflexivity|].
  rewrite IH; [reflexivity|]. cbn [List.length] in H. lia.
Qed.

Lemma upd_last {A} (st : list (list A)) s l : upd (st ++ [s]) (List.length st) l = st ++ [s ++ l].
Proof.
  induction st as [|s0 rest IH]; [reflexivity|].
  cbn [app List.length upd]. rewrite IH. reflexivity.
Qed.

Lemma in_concat_upd {A} (st : list (list A)) cur l x :
  In x (List.concat (upd st cur l)) -> In x (List.concat st) \/ In x l.
Proof.
  revert cur. induction st as [|s rest IH]; intros cur H; [left; exact H|].
  destruct cur as [|k]; cbn [upd List.concat] in *.
  - rewrite !in_app_iff in *. tauto.
  - apply in_app_or in H. destruct H as [H|H].
    + left. apply in_or_app. left. exact H.
    + apply IH in H. destruct H as [H|H]; [left; apply in_or_app; right; exact H | right; exact H].
Qed.

(* two successive steps on the same current set *)
Lemma upd_combine {A} (N N2 N3 X Y : list (list A)) cur a b :
  (cur < List.length N)%nat ->
  N2 = upd N cur a ++ X -> N3 = upd N2 cur b ++ Y -> N3 = upd N cur (a ++ b) ++ (X ++ Y).
Proof.
  intros Hcur -> ->. rewrite upd_app by (rewrite upd_length; exact Hcur).
  rewrite upd_upd, <- app_assoc. reflexivity.
Qed.

(* s.add(x) with a fresh name is an append *)
Lemma set_add_fresh (s : list lfeat) (x : lfeat) :
  ~ In (nm x) (map nm s) -> py_set_add py_Feature___eq__ s x = s ++ [x].
Proof.
  intros Hfresh. unfold py_set_add.
  destruct (existsb (fun y => py_Feature___eq__ y x) s) eqn:E; [|reflexivity].
  exfalso. apply Hfresh. apply existsb_exists in E. destruct E as [y [Hy Heq]].
  rewrite src_feat_eq in Heq. apply String.eqb_eq in Heq.
  apply in_map_iff. exists y. split; [exact Heq | exact Hy].
Qed.

Lemma store_add_length (st : py_store) cur x :
  List.length (py_store_add py_Feature___eq__ st cur x) = List.length st.
Proof.
  revert cur. induction st as [|s rest IH]; intros cur; [reflexivity|].
  destruct cur as [|k]; cbn [py_store_add List.length]; [reflexivity|]. rewrite IH. reflexivity.
Qed.

Lemma store_add_fresh (st : py_store) cur x :
  ~ In (nm x) (List.concat (nms st)) ->
  nms (py_store_add py_Feature___eq__ st cur x) = upd (nms st) cur [nm x].
Proof.
  revert cur. induction st as [|s rest IH]; intros cur Hfresh; [reflexivity|].
  unfold nms in *. cbn [map List.concat] in Hfresh.
  destruct cur as [|k]; cbn [py_store_add map upd].
  - rewrite set_add_fresh.
    + rewrite map_app. reflexivity.
    + intros Hin. apply Hfresh. apply in_or_app. left. exact Hin.
  - rewrite IH; [reflexivity|].
    intros Hin. apply Hfresh. apply in_or_app. right. exact Hin.
Qed.

Lemma set_of_single (x : lfeat) : py_set_of py_Feature___eq__ (@cons lfeat x (@nil lfeat)) = @cons lfeat x (@nil lfeat).
Proof. reflexivity. Qed.

Lemma store_get_all (st : py_store) : map (py_store_get st) (seq 0 (List.length st)) = st.
Proof. unfold py_store_get. apply at_nth_seq. Qed.

(* ------------------------------------------------------------------ the model on the list of children *)
Lemma get_children_loc f anc :
  py_Feature_get_children (f, anc) = map (fun c => (c, f :: anc)) (children f).
Proof.
  unfold py_Feature_get_children, py_Feature_get_relations, lf_relations, children.
  cbn [fst]. rewrite fm_flat_map_map.
  induction (rels f) as [|r rs IH]; [reflexivity|].
  cbn [flat_map]. rewrite map_app, IH. f_equal.
  rewrite fm_flat_map_id. reflexivity.
Qed.

Lemma is_mandatory_loc f anc c :
  py_Feature_is_mandatory (c, f :: anc) = child_is_mandatory f c.
Proof. rewrite src_feat_is_mandatory. reflexivity. Qed.

Lemma closure_children f : closure f = name f :: flat_map (cl_child f) (children f).
Proof.
  destruct f as [i rs]. rewrite closure_unfold. unfold children. cbn [rels name info].
  rewrite at_flat_map_flat_map. reflexivity.
Qed.

Lemma starters_children f : starters f = flat_map (st_child f) (children f).
Proof.
  destruct f as [i rs]. rewrite starters_unfold. unfold children. cbn [rels].
  rewrite at_flat_map_flat_map. reflexivity.
Qed.

Lemma names_children f : names f = name f :: flat_map names (children f).
Proof.
  destruct f as [i rs]. rewrite names_unfold. unfold children, rnames. cbn [rels name info].
  rewrite at_flat_map_flat_map. reflexivity.
Qed.

Lemma fsize_children f c : In c (children f) -> (fsize c < fsize f)%nat.
Proof.
  destruct f as [i rs]. unfold children. cbn [rels]. intros H.
  apply in_flat_map in H. destruct H as [r [Hr Hc]]. exact (fsize_child i rs r c Hr Hc).
Qed.

Lemma fsize_pos f : (1 <= fsize f)%nat.
Proof. destruct f as [i rs]. cbn [fsize]. lia. Qed.

(* what one child contributes stays inside its own names *)
Lemma child_names_incl owner c x :
  In x (cl_child owner c) \/ In x (List.concat (map closure (st_child owner c))) -> In x (names c).
Proof.
  intros H. apply (Permutation_in x (total_perm c)).
  rewrite <- (child_total owner c). apply in_or_app. exact H.
Qed.

(* ------------------------------------------------------------------ the invariant *)
Definition compute_spec (fuel : nat) : Prop :=
  forall f anc (st : py_store) (sets : list nat) cur,
    (fsize f <= fuel)%nat -> (cur < List.length st)%nat ->
    NoDup (flat_map names (children f)) ->
    (forall n, In n (flat_map names (children f)) -> ~ In n (List.concat (nms st))) ->
    exists st',
      py_compute_atomic_sets fuel st sets (f, anc) cur
      = Ok (st', sets ++ seq (List.length st) (List.length (starters f)))
      /\ nms st' = upd (nms st) cur (tl (closure f)) ++ map closure (starters f).

Local Notation L1 x := (@cons lfeat x (@nil lfeat)) (only parsing).

(* one child: the two branches of the loop body end in the same description *)
Lemma child_step fuel (IH : compute_spec fuel) f anc c (st : py_store) (sets : list nat) cur :
  (fsize c <= fuel)%nat -> (cur < List.length st)%nat ->
  NoDup (names c) ->
  (forall n, In n (names c) -> ~ In n (List.concat (nms st))) ->
  exists st',
    (if child_is_mandatory f c
     then py_compute_atomic_sets fuel (py_store_add py_Feature___eq__ st cur (c, f :: anc)) sets
            (c, f :: anc) cur
     else py_compute_atomic_sets fuel (st ++ [py_set_of py_Feature___eq__ (L1 (c, f :: anc))])
            (sets ++ [List.length st]) (c, f :: anc) (List.length st))
    = Ok (st', sets ++ seq (List.length st) (List.length (st_child f c)))
    /\ nms st' = upd (nms st) cur (cl_child f c) ++ map closure (st_child f c).
Proof.
  intros Hfuel Hcur Hnd Hfresh.
  rewrite names_children in Hnd, Hfresh.
  inversion Hnd as [|y ys Hnin Hnd']; subst y ys.
  unfold cl_child, st_child.
  destruct (child_is_mandatory f c) eqn:Hm.
  - (* mandatory: added to the current set, same current set below *)
    assert (Hadd : nms (py_store_add py_Feature___eq__ st cur (c, f :: anc))
                   = upd (nms st) cur [name c]).
    { apply store_add_fresh. apply Hfresh. left. reflexivity. }
    destruct (IH c (f :: anc) (py_store_add py_Feature___eq__ st cur (c, f :: anc)) sets cur)
      as [st' [Hrun Hst']].
    + exact Hfuel.
    + rewrite store_add_length. exact Hcur.
    + exact Hnd'.
    + intros n Hn Hin. rewrite Hadd in Hin. apply in_concat_upd in Hin.
      destruct Hin as [Hin | [<- | []]].
      * apply (Hfresh n); [right; exact Hn | exact Hin].
      * apply Hnin. exact Hn.
    + exists st'. split.
      * rewrite Hrun, store_add_length. reflexivity.
      * rewrite Hst', Hadd, upd_upd. cbn [app]. rewrite closure_children. reflexivity.
  - (* not mandatory: a new set, which is the current set below *)
    rewrite set_of_single.
    assert (Hnew : nms (st ++ [L1 (c, f :: anc)]) = nms st ++ [[name c]]).
    { unfold nms. rewrite map_app. reflexivity. }
    destruct (IH c (f :: anc) (st ++ [L1 (c, f :: anc)]) (sets ++ [List.length st]) (List.length st))
      as [st' [Hrun Hst']].
    + exact Hfuel.
    + rewrite app_length. cbn [List.length]. lia.
    + exact Hnd'.
    + intros n Hn Hin. rewrite Hnew in Hin. apply at_in_concat_app in Hin.
      destruct Hin as [Hin | Hin].
      * apply (Hfresh n); [right; exact Hn | exact Hin].
      * cbn [List.concat app] in Hin. destruct Hin as [<- | []]. apply Hnin. exact Hn.
    + exists st'. split.
      * rewrite Hrun. f_equal. f_equal. rewrite <- app_assoc. f_equal.
        rewrite app_length. cbn [List.length app seq]. f_equal. f_equal. lia.
      * rewrite Hst', Hnew.
        replace (List.length st) with (List.length (nms st)) by (unfold nms; apply map_length).
        rewrite upd_last, upd_nil, <- app_assoc. cbn [app map].
        rewrite closure_children. reflexivity.
Qed.

Lemma compute_spec_all : forall fuel, compute_spec fuel.
Proof.
  induction fuel as [|fuel IH]; intros f anc st sets cur Hfuel Hcur Hnd Hfresh.
  - pose proof (fsize_pos f). lia.
  - cbn [py_compute_atomic_sets]. rewrite get_children_loc.
    rewrite closure_children, starters_children. cbn [tl].
    match goal with |- context [foldM ?F _ _] => set (body := F) end.
    assert (Hloop : forall cs (st0 : py_store) (sets0 : list nat),
              (forall c, In c cs -> fsize c <= fuel)%nat ->
              (cur < List.length st0)%nat ->
              NoDup (flat_map names cs) ->
              (forall n, In n (flat_map names cs) -> ~ In n (List.concat (nms st0))) ->
              exists st',
                foldM body (map (fun c => (c, f :: anc)) cs) (st0, sets0)
                = Ok (st', sets0 ++ seq (List.length st0) (List.length (flat_map (st_child f) cs)))
                /\ nms st' = upd (nms st0) cur (flat_map (cl_child f) cs)
                             ++ map closure (flat_map (st_child f) cs)).
    { induction cs as [|c cs IHcs]; intros st0 sets0 Hsz Hcur0 Hnd0 Hfresh0.
      - exists st0. split.
        + cbn [map foldM flat_map List.length seq]. rewrite app_nil_r. reflexivity.
        + cbn [flat_map map]. rewrite upd_nil, app_nil_r. reflexivity.
      - cbn [flat_map] in Hnd0, Hfresh0.
        destruct (child_step fuel IH f anc c st0 sets0 cur) as [st1 [Hrun1 Hst1]].
        + apply Hsz. left. reflexivity.
        + exact Hcur0.
        + exact (at_nodup_app_l _ _ Hnd0).
        + intros n Hn. apply Hfresh0. apply in_or_app. left. exact Hn.
        + assert (Hlen1 : List.length st1 = (List.length st0 + List.length (st_child f c))%nat).
          { assert (H : List.length (nms st1) = List.length st1) by (unfold nms; apply map_length).
            rewrite <- H, Hst1, app_length, upd_length, map_length.
            unfold nms. rewrite map_length. reflexivity. }
          destruct (IHcs st1 (sets0 ++ seq (List.length st0) (List.length (st_child f c))))
            as [st2 [Hrun2 Hst2]].
          * intros d Hd. apply Hsz. right. exact Hd.
          * lia.
          * exact (at_nodup_app_r _ _ Hnd0).
          * intros n Hn Hin. rewrite Hst1 in Hin. apply at_in_concat_app in Hin.
            assert (Hc : In n (names c) \/ In n (List.concat (nms st0))).
            { destruct Hin as [Hin | Hin].
              - apply in_concat_upd in Hin. destruct Hin as [Hin | Hin]; [right; exact Hin|].
                left. apply (child_names_incl f c n). left. exact Hin.
              - left. apply (child_names_incl f c n). right. exact Hin. }
            destruct Hc as [Hc | Hc].
            -- exact (at_nodup_app_disj _ _ n Hnd0 Hc Hn).
            -- apply (Hfresh0 n); [apply in_or_app; right; exact Hn | exact Hc].
          * exists st2. split.
            -- cbn [map]. rewrite at_foldM_cons.
               assert (Hbody : body (st0, sets0) (c, f :: anc)
                               = Ok (st1, sets0 ++ seq (List.length st0) (List.length (st_child f c)))).
               { unfold body. rewrite is_mandatory_loc.
                 revert Hrun1. destruct (child_is_mandatory f c); intros Hrun1; cbv zeta;
                   rewrite Hrun1; reflexivity. }
               rewrite Hbody. refine (eq_trans Hrun2 _). f_equal. f_equal.
               cbn [flat_map]. rewrite <- app_assoc, app_length, seq_app, Hlen1. reflexivity.
            -- cbn [flat_map]. rewrite map_app.
               apply (upd_combine (nms st0) (nms st1) (nms st2) _ _ cur _ _); [|exact Hst1|exact Hst2].
               unfold nms. rewrite map_length. exact Hcur0. }
    destruct (Hloop (children f) st sets) as [st' [Hrun Hst']].
    + intros c Hc. pose proof (fsize_children f c Hc). lia.
    + exact Hcur.
    + exact Hnd.
    + exact Hfresh.
    + exists st'. split; [|exact Hst'].
      rewrite Hrun. reflexivity.
Qed.

(* ------------------------------------------------------------------ the exported function *)
Theorem src_get_atomic_sets : forall m fuel, (fuel_tree (root m) <= fuel)%nat -> NoDup (names (root m)) ->
  exists l, py_get_atomic_sets fuel m = Ok l /\ map (map (fun x => name (fst x))) l = atomic_sets m.
Proof.
  intros m fuel Hfuel Hnd. unfold py_get_atomic_sets, fm_root_l.
  cbv zeta. cbn [app List.length]. rewrite set_of_single.
  rewrite names_children in Hnd. inversion Hnd as [|y ys Hnin Hnd']; subst y ys.
  destruct (compute_spec_all fuel (root m) [] [L1 (root m, [])] [0%nat] 0%nat) as [st' [Hrun Hst']].
  - unfold fuel_tree in Hfuel. lia.
  - cbn [List.length]. lia.
  - exact Hnd'.
  - intros n Hn Hin. cbn in Hin. destruct Hin as [<- | []]. apply Hnin. exact Hn.
  - rewrite Hrun. cbn [bind List.length].
    eexists. split; [reflexivity|].
    change (nms (map (py_store_get st') ([0%nat] ++ seq 1 (List.length (starters (root m)))))
            = atomic_sets m).
    assert (Hlen : List.length st' = S (List.length (starters (root m)))).
    { assert (H : List.length (nms st') = List.length st') by (unfold nms; apply map_length).
      rewrite <- H, Hst'. rewrite app_length, upd_length, map_length. reflexivity. }
    change ([0%nat] ++ seq 1 (List.length (starters (root m))))
      with (seq 0 (S (List.length (starters (root m))))).
    rewrite <- Hlen, store_get_all, Hst'.
    unfold atomic_sets. cbn [nms map upd nm fst app].
    rewrite closure_children. reflexivity.
Qed.

(* the hypothesis is needed: with two features of one name the set silently drops the second *)
Example src_get_atomic_sets_needs_distinct_names : exists m,
  match py_get_atomic_sets (fuel_tree (root m)) m with
  | Ok l => map (map (fun x => name (fst x))) l <> atomic_sets m
  | Err _ => True
  end.
Proof.
  exists {| root := Feature (mk_info "a") [Relation 1 1 [leaf "a"]]; ctcs := [] |}.
  vm_compute. intros H. discriminate H.
Qed.

Print Assumptions src_get_atomic_sets.
Print Assumptions src_get_atomic_sets_needs_distinct_names.
