(* Proofs/GlencoeFacts.v — the Glencoe reader returns well-formed pointers and shape-correct constraints
   for every accepted document (C02); on the Glencoe fragment the writer never fails and what it
   writes is read back as the normal form of the model. *)
From Coq Require Import List Bool Ascii String ZArith NArith Lia Permutation Sorted.
From FM Require Import Base.Result Base.Str Base.AstOp Gen.Tables_core Model.Ast Model.FM Model.Ctc
  Model.Queries Model.Sem Model.EqHash Model.PFM Format.Json Gen.Tables_glencoe Format.Glencoe
  Proofs.FMFacts Proofs.QueriesFacts Proofs.C20Facts.
Import ListNotations.
Local Open Scope list_scope.

(* ========================================================================================== *)
(* Part 1: every accepted document gives well-formed pointers and shape-correct constraints    *)
(* ========================================================================================== *)

(* ---- pointer equality is reflexive ---- *)
Lemma path_eqb_refl : forall p, path_eqb p p = true.
Proof.
  unfold path_eqb. induction p as [|[i j] p IH]; [reflexivity|].
  rewrite !Nat.eqb_refl. exact IH.
Qed.

Lemma ptr_eqb_refl : forall p, ptr_eqb p p = true.
Proof. intros [|p|]; cbn [ptr_eqb]; auto using path_eqb_refl. Qed.

(* ---- the local loops of [ptr_wf_at] as top-level functions ---- *)
Fixpoint wf_children (here : path) (k j : nat) (cs : list pfeature) : bool :=
  match cs with
  | [] => true
  | c :: cs' => ptr_wf_at (here ++ [(k, j)]) (PPath here) c && wf_children here k (S j) cs'
  end.

Fixpoint wf_rels (here : path) (k : nat) (rs : list prelation) : bool :=
  match rs with
  | [] => true
  | PRelation rp _ _ cs :: rs' =>
      ptr_eqb rp (PPath here) && wf_children here k 0 cs && wf_rels here (S k) rs'
  end.

Lemma wf_children_eq here k : forall cs j,
  (fix goc (j : nat) (cs : list pfeature) : bool :=
     match cs with
     | [] => true
     | c :: cs' => ptr_wf_at (here ++ [(k, j)]) (PPath here) c && goc (S j) cs'
     end) j cs = wf_children here k j cs.
Proof.
  induction cs as [|c cs IHc]; intros j; [reflexivity|].
  cbn [wf_children]. rewrite <- IHc. reflexivity.
Qed.

Lemma wf_rels_eq here : forall rs k,
  (fix go (k : nat) (rs : list prelation) : bool :=
     match rs with
     | [] => true
     | PRelation rp _ _ cs :: rs' =>
         ptr_eqb rp (PPath here)
         && (fix goc (j : nat) (cs : list pfeature) : bool :=
               match cs with
               | [] => true
               | c :: cs' => ptr_wf_at (here ++ [(k, j)]) (PPath here) c && goc (S j) cs'
               end) 0%nat cs
         && go (S k) rs'
     end) k rs = wf_rels here k rs.
Proof.
  induction rs as [|[rp a b cs] rs IH]; intros k; [reflexivity|].
  cbn [wf_rels]. rewrite <- IH. rewrite <- wf_children_eq. reflexivity.
Qed.

Lemma ptr_wf_at_unfold here expected i p ap rs :
  ptr_wf_at here expected (PFeature i p ap rs)
  = ptr_eqb p expected && forallb (ptr_eqb (PPath here)) ap
    && Nat.eqb (List.length ap) (List.length (f_attrs i)) && wf_rels here 0 rs.
Proof. rewrite <- wf_rels_eq. reflexivity. Qed.

Lemma wf_rels_app here k rs1 rs2 :
  wf_rels here k (rs1 ++ rs2) = wf_rels here k rs1 && wf_rels here (k + List.length rs1) rs2.
Proof.
  revert k. induction rs1 as [|[rp a b cs] rs1 IH]; intros k; cbn [wf_rels app List.length].
  - rewrite Nat.add_0_r. reflexivity.
  - rewrite IH. replace (S k + List.length rs1)%nat with (k + S (List.length rs1))%nat by lia.
    rewrite !andb_assoc. reflexivity.
Qed.

(* ---- the reader's loops as top-level functions ---- *)
Definition gl_child_opt (fi c : aval) : result bool :=
  match jget "id" c with Err e => Err e | Ok cid =>
  match finfo_get fi cid "optional" with Err e => Err e | Ok ov => Ok (jtruthy ov) end end.

Definition gl_flags (fi : aval) (chl : list aval) : list (option bool) :=
  map (fun c => match jget "id" c with
                | Ok cid => match finfo_get fi cid "optional" with
                            | Ok ov => Some (jtruthy ov)
                            | Err _ => None
                            end
                | Err _ => None
                end) chl.

Definition gl_mand (fi : aval) (chl : list aval) : list bool :=
  map (fun o => match o with Some false => true | _ => false end) (gl_flags fi chl).

Definition gl_where (is_plain : bool) (mand : list bool) (p : nat) : nat * nat :=
  if is_plain then (p, 0%nat)
  else if nth p mand false then (count_true_prefix mand p, 0%nat)
       else (List.length (filter (fun b => b) mand), (p - count_true_prefix mand p)%nat).

Fixpoint gl_goc (rec : path -> aval -> result pfeature) (fi : aval) (here : path)
  (wh : nat -> nat * nat) (p : nat) (chl : list aval) : result (list (pfeature * bool)) :=
  match chl with
  | [] => Ok []
  | c :: cs =>
      match rec (here ++ [wh p]) c with
      | Err e => Err e
      | Ok pc =>
          match gl_child_opt fi c with Err e => Err e | Ok opt =>
          match gl_goc rec fi here wh (S p) cs with Err e => Err e | Ok rest => Ok ((pc, opt) :: rest)
          end end
      end
  end.

(* the cardinality of the group relation of a feature of type XOR / OR / (otherwise) GENOR *)
Definition gl_grp (fi fid : aval) (fty : string) (n : nat) : result (Z * Z) :=
  if String.eqb fty "XOR" then Ok (1%Z, 1%Z)
  else if String.eqb fty "OR" then Ok (1%Z, Z.of_nat n)
  else
    match finfo_get fi fid "min" with Err e => Err e | Ok a =>
    match finfo_get fi fid "max" with Err e => Err e | Ok b =>
    match jint a with Err _ => Err FlamaException | Ok a' =>
    match jint b with Err _ => Err FlamaException | Ok b' => Ok (a', b') end end end end.

Definition gl_build (fi fid : aval) (fty : string) (info : finfo) (here : path) (parent : ptr)
  (kids : list (pfeature * bool)) : result pfeature :=
  if String.eqb fty "FEATURE" then
    Ok (PFeature info parent []
          (map (fun ko : pfeature * bool => PRelation (PPath here) (if snd ko then 0 else 1)%Z 1%Z [fst ko]) kids))
  else
    let singles := map (fun ko : pfeature * bool => PRelation (PPath here) 1%Z 1%Z [fst ko])
                       (filter (fun ko : pfeature * bool => negb (snd ko)) kids) in
    let group := map fst (filter (fun ko : pfeature * bool => snd ko) kids) in
    match group with
    | [] => Ok (PFeature info parent [] singles)
    | _ :: _ =>
        match gl_grp fi fid fty (List.length group) with
        | Err e => Err e
        | Ok (a, b) =>
            Ok (PFeature info parent [] (singles ++ [PRelation (PPath here) a b group]))
        end
    end.

Lemma glencoe_parse_tree_S fuel fi here parent node :
  glencoe_parse_tree (S fuel) fi here parent node =
  match jget "id" node with Err e => Err e | Ok fid =>
  match finfo_get fi fid "type" with Err e => Err e | Ok tyv =>
  match finfo_get fi fid "name" with Err e => Err e | Ok nmv =>
  match jstr tyv with Err _ => Err FlamaException | Ok fty =>
  match jstr nmv with Err _ => Err FlamaException | Ok fname =>
    if negb (gl_known_type fty) then Err FlamaException else
    if jhas "children" node then
      match jget "children" node with Err e => Err e | Ok chv =>
      match jlist chv with Err e => Err e | Ok chl =>
      match gl_goc (fun h c => glencoe_parse_tree fuel fi h (PPath here) c) fi here
                   (gl_where (String.eqb fty "FEATURE") (gl_mand fi chl)) 0 chl with
      | Err e => Err e
      | Ok kids => gl_build fi fid fty (mk_info fname) here parent kids
      end end end
    else Ok (PFeature (mk_info fname) parent [] [])
  end end end end end.
Proof.
  cbn [glencoe_parse_tree].
  destruct (jget "id" node) as [fid|e]; [|reflexivity].
  destruct (finfo_get fi fid "type") as [tyv|e]; [|reflexivity].
  destruct (finfo_get fi fid "name") as [nmv|e]; [|reflexivity].
  destruct (jstr tyv) as [fty|e]; [|reflexivity].
  destruct (jstr nmv) as [fname|e]; [|reflexivity].
  destruct (negb (gl_known_type fty)); [reflexivity|].
  destruct (jhas "children" node); [|reflexivity].
  destruct (jget "children" node) as [chv|e]; [|reflexivity].
  destruct (jlist chv) as [chl|e]; [|reflexivity].
  match goal with
  | |- match ?F 0%nat chl with _ => _ end = match ?G 0%nat chl with _ => _ end =>
      assert (HG : forall l p, F p l = G p l)
  end.
  { induction l as [|c cs IH]; intros p; [reflexivity|].
    cbn [gl_goc]. rewrite <- IH. unfold gl_child_opt.
    destruct (glencoe_parse_tree fuel fi _ (PPath here) c) as [pc|e]; [|reflexivity].
    destruct (jget "id" c) as [cid|e]; [|reflexivity].
    destruct (finfo_get fi cid "optional") as [ov|e]; reflexivity. }
  rewrite HG. reflexivity.
Qed.

(* ---- what a successful children loop gives ---- *)
Fixpoint kids_wf (here : path) (wh : nat -> nat * nat) (p : nat) (kids : list (pfeature * bool)) : Prop :=
  match kids with
  | [] => True
  | ko :: rest => ptr_wf_at (here ++ [wh p]) (PPath here) (fst ko) = true /\ kids_wf here wh (S p) rest
  end.

Lemma gl_child_opt_flag fi c opt :
  gl_child_opt fi c = Ok opt -> gl_flags fi [c] = [Some opt].
Proof.
  unfold gl_child_opt, gl_flags. cbn [map].
  destruct (jget "id" c) as [cid|e]; [|discriminate].
  destruct (finfo_get fi cid "optional") as [ov|e]; [|discriminate].
  intros H. injection H as ->. reflexivity.
Qed.

Lemma gl_goc_ok rec fi here wh :
  (forall h c pc, rec h c = Ok pc -> ptr_wf_at h (PPath here) pc = true) ->
  forall chl p kids, gl_goc rec fi here wh p chl = Ok kids ->
    kids_wf here wh p kids /\ gl_flags fi chl = map (fun ko => Some (snd ko)) kids.
Proof.
  intros Hrec. induction chl as [|c cs IH]; intros p kids H; cbn [gl_goc] in H.
  - injection H as <-. split; [exact I|reflexivity].
  - destruct (rec (here ++ [wh p]) c) as [pc|e] eqn:Hpc; [|discriminate].
    destruct (gl_child_opt fi c) as [opt|e] eqn:Hopt; [|discriminate].
    destruct (gl_goc rec fi here wh (S p) cs) as [rest|e] eqn:Hrest; [|discriminate].
    injection H as <-. destruct (IH _ _ Hrest) as [IH1 IH2].
    split.
    + cbn [kids_wf fst]. split; [exact (Hrec _ _ _ Hpc)|exact IH1].
    + apply gl_child_opt_flag in Hopt. unfold gl_flags in *. cbn [map snd] in *.
      injection Hopt as Hopt. rewrite Hopt, IH2. reflexivity.
Qed.

Definition ko_mand (ko : pfeature * bool) : bool := negb (snd ko).

Lemma gl_mand_kids fi chl kids :
  gl_flags fi chl = map (fun ko : pfeature * bool => Some (snd ko)) kids ->
  gl_mand fi chl = map ko_mand kids.
Proof.
  intros H. unfold gl_mand. rewrite H, map_map. apply map_ext.
  intros [pc [|]]; reflexivity.
Qed.

(* ---- plain parent: child p is the only member of relation p ---- *)
Lemma plain_wf here mand : forall kids k,
  kids_wf here (gl_where true mand) k kids ->
  wf_rels here k (map (fun ko : pfeature * bool =>
                         PRelation (PPath here) (if snd ko then 0 else 1)%Z 1%Z [fst ko]) kids) = true.
Proof.
  induction kids as [|ko kids IH]; intros k H; [reflexivity|].
  cbn [kids_wf] in H. destruct H as [H1 H2].
  cbn [map wf_rels wf_children]. rewrite ptr_eqb_refl.
  unfold gl_where in H1. rewrite H1. rewrite (IH _ H2). reflexivity.
Qed.

(* ---- group parent ---- *)
Fixpoint kids_wf2 (here : path) (N k j : nat) (kids : list (pfeature * bool)) : Prop :=
  match kids with
  | [] => True
  | ko :: rest =>
      ptr_wf_at (here ++ [if snd ko then (N, j) else (k, 0%nat)]) (PPath here) (fst ko) = true
      /\ kids_wf2 here N (if snd ko then k else S k) (if snd ko then S j else j) rest
  end.

Lemma group_wf2 here N : forall kids k j,
  kids_wf2 here N k j kids ->
  wf_rels here k (map (fun ko : pfeature * bool => PRelation (PPath here) 1%Z 1%Z [fst ko])
                      (filter (fun ko : pfeature * bool => negb (snd ko)) kids)) = true
  /\ wf_children here N j (map fst (filter (fun ko : pfeature * bool => snd ko) kids)) = true.
Proof.
  induction kids as [|[pc opt] kids IH]; intros k j H; [split; reflexivity|].
  cbn [kids_wf2 fst snd] in H. destruct H as [H1 H2].
  destruct (IH _ _ H2) as [IH1 IH2]. cbn [filter snd negb].
  destruct opt; cbn [negb map fst wf_rels wf_children].
  - split; [exact IH1|]. rewrite H1, IH2. reflexivity.
  - split; [|exact IH2]. rewrite ptr_eqb_refl, H1, IH1. reflexivity.
Qed.

Lemma count_true_prefix_app l1 l2 :
  count_true_prefix (l1 ++ l2) (List.length l1) = List.length (filter (fun b : bool => b) l1).
Proof.
  induction l1 as [|b l1 IH]; cbn [app List.length count_true_prefix filter].
  - destruct l2; reflexivity.
  - rewrite IH. destruct b; reflexivity.
Qed.

Lemma filter_map_length {A} (g : A -> bool) l :
  List.length (filter (fun b : bool => b) (map g l)) = List.length (filter g l).
Proof.
  induction l as [|x l IH]; [reflexivity|]. cbn [map filter].
  destruct (g x); cbn [List.length]; rewrite IH; reflexivity.
Qed.

Lemma filter_negb_length {A} (g : A -> bool) l :
  (List.length (filter g l) + List.length (filter (fun x => negb (g x)) l) = List.length l)%nat.
Proof.
  induction l as [|x l IH]; [reflexivity|]. cbn [filter].
  destruct (g x); cbn [negb List.length]; lia.
Qed.

Lemma where_wf2 here : forall suf pre,
  kids_wf here (gl_where false (map ko_mand (pre ++ suf))) (List.length pre) suf ->
  kids_wf2 here (List.length (filter ko_mand (pre ++ suf)))
           (List.length (filter ko_mand pre))
           (List.length (filter (fun ko => negb (ko_mand ko)) pre)) suf.
Proof.
  induction suf as [|ko suf IH]; intros pre H; [exact I|].
  cbn [kids_wf] in H. destruct H as [H1 H2].
  cbn [kids_wf2]. split.
  - unfold gl_where in H1.
    assert (Hn : nth (List.length pre) (map ko_mand (pre ++ ko :: suf)) false = ko_mand ko).
    { rewrite map_app. cbn [map]. rewrite <- (map_length ko_mand pre). apply nth_middle. }
    assert (Hc : count_true_prefix (map ko_mand (pre ++ ko :: suf)) (List.length pre)
                 = List.length (filter ko_mand pre)).
    { rewrite map_app, <- (map_length ko_mand pre), count_true_prefix_app, filter_map_length.
      reflexivity. }
    rewrite Hn, Hc, filter_map_length in H1.
    replace (List.length pre - List.length (filter ko_mand pre))%nat
      with (List.length (filter (fun ko => negb (ko_mand ko)) pre)) in H1
      by (pose proof (filter_negb_length ko_mand pre); lia).
    unfold ko_mand at 1 in H1. destruct (snd ko); exact H1.
  - specialize (IH (pre ++ [ko])).
    rewrite <- app_assoc in IH. cbn [app] in IH.
    rewrite app_length in IH. cbn [List.length] in IH.
    rewrite Nat.add_1_r in IH. specialize (IH H2).
    remember (List.length (filter ko_mand (pre ++ ko :: suf))) as N eqn:HN. clear HN H1 H2.
    rewrite !filter_app, !app_length in IH.
    destruct ko as [pc [|]]; unfold ko_mand in *; cbn [filter snd negb List.length] in *;
      rewrite ?Nat.add_0_r, ?Nat.add_1_r in IH; exact IH.
Qed.

Lemma group_wf here kids a b :
  kids_wf here (gl_where false (map ko_mand kids)) 0 kids ->
  wf_rels here 0
    (map (fun ko : pfeature * bool => PRelation (PPath here) 1%Z 1%Z [fst ko])
         (filter (fun ko : pfeature * bool => negb (snd ko)) kids)
     ++ [PRelation (PPath here) a b (map fst (filter (fun ko : pfeature * bool => snd ko) kids))]) = true.
Proof.
  intros H. pose proof (where_wf2 here kids [] H) as H2. cbn [app List.length filter] in H2.
  destruct (group_wf2 _ _ _ _ _ H2) as [W1 W2].
  rewrite wf_rels_app, W1. cbn [wf_rels andb Nat.add]. rewrite ptr_eqb_refl, map_length.
  unfold ko_mand in W2. rewrite W2. reflexivity.
Qed.

Lemma singles_wf here kids :
  kids_wf here (gl_where false (map ko_mand kids)) 0 kids ->
  wf_rels here 0
    (map (fun ko : pfeature * bool => PRelation (PPath here) 1%Z 1%Z [fst ko])
         (filter (fun ko : pfeature * bool => negb (snd ko)) kids)) = true.
Proof.
  intros H. pose proof (where_wf2 here kids [] H) as H2. cbn [app List.length filter] in H2.
  exact (proj1 (group_wf2 _ _ _ _ _ H2)).
Qed.

Lemma gl_build_wf fi fid fty fname here parent kids pf :
  kids_wf here (gl_where (String.eqb fty "FEATURE") (map ko_mand kids)) 0 kids ->
  gl_build fi fid fty (mk_info fname) here parent kids = Ok pf ->
  ptr_wf_at here parent pf = true.
Proof.
  intros Hk H. unfold gl_build in H.
  destruct (String.eqb fty "FEATURE").
  - injection H as <-. rewrite ptr_wf_at_unfold, ptr_eqb_refl. cbn [forallb List.length mk_info f_attrs Nat.eqb andb].
    apply plain_wf with (mand := map ko_mand kids). exact Hk.
  - cbv zeta in H.
    destruct (map fst (filter (fun ko : pfeature * bool => snd ko) kids)) as [|g0 gs] eqn:Eg.
    + injection H as <-. rewrite ptr_wf_at_unfold, ptr_eqb_refl.
      cbn [forallb List.length mk_info f_attrs Nat.eqb andb].
      apply singles_wf. exact Hk.
    + match type of H with match ?G with _ => _ end = _ => destruct G as [[a b]|e]; [|discriminate] end.
      injection H as <-. rewrite ptr_wf_at_unfold, ptr_eqb_refl.
      cbn [forallb List.length mk_info f_attrs Nat.eqb andb].
      rewrite <- Eg. apply group_wf. exact Hk.
Qed.

Lemma glencoe_parse_tree_wf : forall fuel fi here parent node pf,
  glencoe_parse_tree fuel fi here parent node = Ok pf -> ptr_wf_at here parent pf = true.
Proof.
  induction fuel as [|fuel IH]; intros fi here parent node pf H; [discriminate|].
  rewrite glencoe_parse_tree_S in H.
  destruct (jget "id" node) as [fid|e]; [|discriminate].
  destruct (finfo_get fi fid "type") as [tyv|e]; [|discriminate].
  destruct (finfo_get fi fid "name") as [nmv|e]; [|discriminate].
  destruct (jstr tyv) as [fty|e]; [|discriminate].
  destruct (jstr nmv) as [fname|e]; [|discriminate].
  destruct (negb (gl_known_type fty)); [discriminate|].
  destruct (jhas "children" node).
  - destruct (jget "children" node) as [chv|e]; [|discriminate].
    destruct (jlist chv) as [chl|e]; [|discriminate].
    match type of H with match ?G with _ => _ end = _ => destruct G as [kids|e] eqn:Hgoc; [|discriminate] end.
    apply gl_goc_ok in Hgoc; [|intros h c pc Hp; exact (IH _ _ _ _ _ Hp)].
    destruct Hgoc as [Hk Hf]. apply gl_mand_kids in Hf. rewrite Hf in Hk.
    eapply gl_build_wf; eassumption.
  - injection H as <-. rewrite ptr_wf_at_unfold, ptr_eqb_refl. reflexivity.
Qed.

(* ---- constraints ---- *)
Lemma reduce_op_shape o l n :
  astop_eqb o NOT = false -> Forall (fun x => node_shape_ok x = true) l ->
  reduce_op o l = Ok n -> node_shape_ok n = true.
Proof.
  intros Ho HF H. destruct l as [|x xs]; [discriminate|]. cbn [reduce_op] in H. injection H as <-.
  inversion HF as [|x' xs' Hx Hxs]; subst. clear HF.
  revert x Hx. induction Hxs as [|y ys Hy _ IH]; intros x Hx; cbn [fold_left]; [exact Hx|].
  apply IH. unfold bin. cbn [node_shape_ok]. rewrite Ho, Hx, Hy. reflexivity.
Qed.

Lemma mapM_Forall {A B} (f : A -> result B) (P : B -> Prop) :
  forall l l', (forall x y, In x l -> f x = Ok y -> P y) -> mapM f l = Ok l' -> Forall P l'.
Proof.
  induction l as [|x xs IH]; intros l' Hf H; cbn [mapM] in H.
  - injection H as <-. constructor.
  - destruct (f x) as [y|e] eqn:Hy; [|discriminate].
    change ((fix go (l : list A) : result (list B) :=
               match l with
               | [] => Ok []
               | x0 :: xs0 => match f x0 with
                              | Err e0 => Err e0
                              | Ok y0 => match go xs0 with Err e1 => Err e1 | Ok ys0 => Ok (y0 :: ys0) end
                              end
               end) xs) with (mapM f xs) in H.
    destruct (mapM f xs) as [ys|e] eqn:Hys; [|discriminate].
    injection H as <-. constructor.
    + apply (Hf x y); [left; reflexivity|exact Hy].
    + apply IH; [|reflexivity]. intros x' y' Hin. apply Hf. right. exact Hin.
Qed.

Lemma glencoe_parse_ctc_shape : forall fuel fi info n,
  glencoe_parse_ctc fuel fi info = Ok n -> node_shape_ok n = true.
Proof.
  induction fuel as [|fuel IH]; intros fi info n H; [discriminate|].
  cbn [glencoe_parse_ctc] in H.
  destruct (jget "type" info) as [tv|e]; [|discriminate].
  destruct (jget "operands" info) as [ov|e]; [|discriminate].
  destruct (jstr tv) as [ty|e]; [|discriminate].
  destruct (jlist ov) as [ops|e]; [|discriminate].
  assert (Hsub : forall i x, match nth_operand ops i with Err e => Err e | Ok x => glencoe_parse_ctc fuel fi x end = Ok x ->
                             node_shape_ok x = true).
  { intros i x Hx. destruct (nth_operand ops i) as [y|e]; [|discriminate]. exact (IH _ _ _ Hx). }
  assert (Hbin : forall o, astop_eqb o NOT = false ->
            match match nth_operand ops 0 with Err e => Err e | Ok x => glencoe_parse_ctc fuel fi x end with
            | Err e => Err e
            | Ok a => match match nth_operand ops 1 with Err e => Err e | Ok x => glencoe_parse_ctc fuel fi x end with
                      | Err e => Err e | Ok b => Ok (bin o a b) end
            end = Ok n -> node_shape_ok n = true).
  { intros o Ho Hb.
    destruct (match nth_operand ops 0 with Err e => Err e | Ok x => glencoe_parse_ctc fuel fi x end) as [a|e] eqn:Ha; [|discriminate].
    destruct (match nth_operand ops 1 with Err e => Err e | Ok x => glencoe_parse_ctc fuel fi x end) as [b|e] eqn:Hb'; [|discriminate].
    injection Hb as <-. unfold bin. cbn [node_shape_ok]. rewrite Ho, (Hsub _ _ Ha), (Hsub _ _ Hb'). reflexivity. }
  assert (Hnary : forall o, astop_eqb o NOT = false ->
            match mapM (glencoe_parse_ctc fuel fi) ops with Err e => Err e | Ok l => reduce_op o l end = Ok n ->
            node_shape_ok n = true).
  { intros o Ho Hn. destruct (mapM (glencoe_parse_ctc fuel fi) ops) as [l|e] eqn:Hl; [|discriminate].
    eapply reduce_op_shape; [exact Ho| |exact Hn].
    eapply mapM_Forall; [|exact Hl]. intros x y _ Hy. exact (IH _ _ _ Hy). }
  destruct (String.eqb ty "FeatureTerm").
  { destruct (nth_operand ops 0) as [x|e]; [|discriminate].
    destruct (finfo_get fi x "name") as [nv|e]; [|discriminate].
    destruct (jstr nv) as [nm|e]; [|discriminate]. injection H as <-. reflexivity. }
  destruct (String.eqb ty "NotTerm").
  { destruct (match nth_operand ops 0 with Err e => Err e | Ok x => glencoe_parse_ctc fuel fi x end) as [a|e] eqn:Ha; [|discriminate].
    injection H as <-. unfold un. cbn [node_shape_ok astop_eqb]. exact (Hsub _ _ Ha). }
  destruct (String.eqb ty "ImpliesTerm"); [exact (Hbin IMPLIES eq_refl H)|].
  destruct (String.eqb ty "ExcludesTerm"); [exact (Hbin EXCLUDES eq_refl H)|].
  destruct (String.eqb ty "EquivalentTerm"); [exact (Hbin EQUIVALENCE eq_refl H)|].
  destruct (String.eqb ty "AndTerm"); [exact (Hnary AND eq_refl H)|].
  destruct (String.eqb ty "OrTerm"); [exact (Hnary OR eq_refl H)|].
  destruct (String.eqb ty "XorTerm"); [exact (Hnary XOR eq_refl H)|].
  discriminate.
Qed.

(* ---- Part 1, main theorems ---- *)
Theorem glencoe_read_ptr_wf : forall d pm, glencoe_read d = Ok pm -> ptr_wf pm = true.
Proof.
  intros d pm H. unfold glencoe_read in H.
  destruct (jget "features" d) as [fv|e]; [|discriminate].
  destruct (jget "tree" d) as [tv|e]; [|discriminate].
  match type of H with match ?G with _ => _ end = _ => destruct G as [cv|e]; [|discriminate] end.
  destruct (glencoe_parse_tree (aval_depth tv) fv [] PNone tv) as [pr|e] eqn:Hp; [|discriminate].
  destruct cv; try discriminate.
  match type of H with match ?G with _ => _ end = _ => destruct G as [cs|e]; [|discriminate] end.
  injection H as <-. unfold ptr_wf. cbn [proot].
  exact (glencoe_parse_tree_wf _ _ _ _ _ _ Hp).
Qed.

Theorem glencoe_read_ctc_shape : forall d pm, glencoe_read d = Ok pm ->
  forallb (fun c => node_shape_ok (c_ast c)) (pctcs pm) = true.
Proof.
  intros d pm H. unfold glencoe_read in H.
  destruct (jget "features" d) as [fv|e]; [|discriminate].
  destruct (jget "tree" d) as [tv|e]; [|discriminate].
  match type of H with match ?G with _ => _ end = _ => destruct G as [cv|e]; [|discriminate] end.
  destruct (glencoe_parse_tree (aval_depth tv) fv [] PNone tv) as [pr|e] eqn:Hp; [|discriminate].
  destruct cv; try discriminate.
  match type of H with match ?G with _ => _ end = _ => destruct G as [cs|e] eqn:Hcs; [|discriminate] end.
  injection H as <-. cbn [pctcs].
  apply forallb_forall. apply Forall_forall.
  eapply mapM_Forall; [|exact Hcs].
  intros kc c _ Hc. cbn beta in Hc.
  destruct (glencoe_parse_ctc (aval_depth (snd kc)) fv (snd kc)) as [n|e] eqn:Hn; [|discriminate].
  injection Hc as <-. cbn [c_ast]. exact (glencoe_parse_ctc_shape _ _ _ _ Hn).
Qed.

(* ========================================================================================== *)
(* Part 2: the Glencoe fragment, its normal form, totality of the writer and the round trip    *)
(* ========================================================================================== *)

(* the Glencoe fragment: every feature has only mandatory/optional single children, or exactly one group (two or more
   children, any cardinality) accompanied only by mandatory single children; unique names; constraints over
   NOT AND OR XOR IMPLIES REQUIRES EXCLUDES EQUIVALENCE, shape-correct, every term the name of a feature; distinct
   constraint names *)
Definition gl_rels_ok (rs : list relation) : bool :=
  let groups := filter rel_is_group rs in
  let singles := filter (fun r => negb (rel_is_group r)) rs in
  match groups with
  | [] => forallb (fun r => rel_is_mandatory r || rel_is_optional r) singles
  | [_] => forallb rel_is_mandatory singles
  | _ => false
  end.
Fixpoint gl_feature_ok (f : feature) : bool :=
  match f with Feature i rs => gl_rels_ok rs && forallb (fun r => match r with Relation _ _ cs => forallb gl_feature_ok cs end) rs end.
Fixpoint gl_node_ok (names : list string) (n : node) : bool :=
  match n with
  | Node (DStr s) None None => list_existsb_eq s names
  | Node (DOp o) l r =>
      op_in o logical_ops &&
      (if astop_eqb o NOT then match l, r with Some a, None => gl_node_ok names a | _, _ => false end
       else match l, r with Some a, Some b => gl_node_ok names a && gl_node_ok names b | _, _ => false end)
  | _ => false
  end.
Definition glencoe_ok (m : fm) : bool :=
  gl_feature_ok (root m) && nodupb (names (root m))
  && forallb (fun c => gl_node_ok (names (root m)) (c_ast c)) (ctcs m) && nodupb (map c_name (ctcs m)).

(* the normal form: children sorted by name, the single-child relations first (sorted by the name of
   their child), then the group(s) with their children sorted; everything except name/tree is reset
   to the defaults the reader produces; REQUIRES becomes IMPLIES *)
Definition rel_first_name (r : relation) : string :=
  match r_children r with c :: _ => name c | [] => ""%string end.

Fixpoint gl_norm_feature (f : feature) : feature :=
  match f with
  | Feature i rs =>
      let nrs := map (fun r => match r with
                               | Relation a b cs => Relation a b (sort_by name str_ltb (map gl_norm_feature cs))
                               end) rs in
      Feature (mk_info (f_name i))
              (sort_by rel_first_name str_ltb (filter (fun r => negb (rel_is_group r)) nrs)
               ++ filter rel_is_group nrs)
  end.

Fixpoint gl_norm_node (n : node) : node :=
  match n with
  | Node d l r =>
      Node (match d with DOp REQUIRES => DOp IMPLIES | _ => d end)
           (match l with Some a => Some (gl_norm_node a) | None => None end)
           (match r with Some b => Some (gl_norm_node b) | None => None end)
  end.

Definition glencoe_norm (m : fm) : fm :=
  {| root := gl_norm_feature (root m);
     ctcs := map (fun c => {| c_name := c_name c; c_ast := gl_norm_node (c_ast c) |}) (ctcs m) |}.

(* ------------------------------------------------------------------------------------------ *)
(* sorting with pairwise distinct keys                                                          *)
(* ------------------------------------------------------------------------------------------ *)
Section SortU.
  Context {A : Type} (key : A -> string).

  Definition ssorted (l : list A) : Prop :=
    StronglySorted (fun x y => str_ltb (key x) (key y) = true) l.

  Lemma insert_ssorted x l :
    ssorted l -> ~ In (key x) (map key l) -> ssorted (insert key str_ltb x l).
  Proof.
    induction 1 as [|y l Hl IH Hy]; intros Hnin; cbn [insert].
    - constructor; constructor.
    - destruct (str_ltb (key x) (key y)) eqn:Exy.
      + constructor; [constructor; assumption|]. constructor; [exact Exy|].
        eapply Forall_impl; [|exact Hy]. cbn beta. intros z Hz. eapply str_ltb_trans; eassumption.
      + assert (Hyx : str_ltb (key y) (key x) = true).
        { destruct (str_ltb (key y) (key x)) eqn:Eyx; [reflexivity|].
          exfalso. apply Hnin. left. symmetry. apply str_ltb_total; assumption. }
        constructor.
        * apply IH. intro Hin. apply Hnin. right. exact Hin.
        * apply Forall_forall. intros z Hz.
          apply (Permutation_in _ (insert_perm _ _ key str_ltb x l)) in Hz.
          destruct Hz as [<- | Hz]; [exact Hyx|].
          rewrite Forall_forall in Hy. apply Hy. exact Hz.
  Qed.

  Lemma sort_by_ssorted l : NoDup (map key l) -> ssorted (sort_by key str_ltb l).
  Proof.
    induction l as [|x l IH] using rev_ind; intros Hnd; [constructor|].
    rewrite sort_by_snoc. rewrite map_app in Hnd. cbn [map] in Hnd.
    apply (Permutation_NoDup (Permutation_sym (Permutation_cons_append (map key l) (key x)))) in Hnd.
    inversion Hnd as [|k ks Hnin Hnd']; subst.
    apply insert_ssorted; [apply IH; exact Hnd'|].
    intro Hin. apply Hnin.
    eapply Permutation_in; [|exact Hin]. apply Permutation_map. apply sort_by_perm.
  Qed.

  Lemma ssorted_perm_eq : forall l1 l2, ssorted l1 -> ssorted l2 -> Permutation l1 l2 -> l1 = l2.
  Proof.
    induction l1 as [|x l1 IH]; intros l2 H1 H2 HP.
    - apply Permutation_nil in HP. subst. reflexivity.
    - destruct l2 as [|y l2]; [apply Permutation_sym, Permutation_nil in HP; discriminate|].
      inversion H1 as [|x' l1' Hs1 Hx]; subst. inversion H2 as [|y' l2' Hs2 Hy]; subst.
      rewrite Forall_forall in Hx, Hy.
      assert (Exy : x = y).
      { assert (Hin1 : In x (y :: l2)) by (eapply Permutation_in; [exact HP|left; reflexivity]).
        assert (Hin2 : In y (x :: l1)) by (eapply Permutation_in; [apply Permutation_sym; exact HP|left; reflexivity]).
        destruct Hin1 as [E|Hin1]; [symmetry; exact E|].
        destruct Hin2 as [E|Hin2]; [exact E|].
        pose proof (Hx _ Hin2) as L1. pose proof (Hy _ Hin1) as L2.
        pose proof (str_ltb_trans _ _ _ L1 L2) as L3. rewrite str_ltb_irrefl in L3. discriminate. }
      subst y. f_equal. apply IH; try assumption.
      eapply Permutation_cons_inv. exact HP.
  Qed.

  Lemma ssorted_NoDup l : ssorted l -> NoDup (map key l).
  Proof.
    induction 1 as [|x l Hl IH Hx]; cbn [map]; constructor; [|exact IH].
    intro Hin. apply in_map_iff in Hin. destruct Hin as [y [Ey Hy]].
    rewrite Forall_forall in Hx. pose proof (Hx _ Hy) as L. rewrite Ey, str_ltb_irrefl in L. discriminate.
  Qed.

  (* the sorted list is determined by its being sorted and a permutation of the input *)
  Lemma sort_by_unique l l' : ssorted l' -> Permutation l l' -> sort_by key str_ltb l = l'.
  Proof.
    intros Hs HP. apply ssorted_perm_eq; [|exact Hs|].
    - apply sort_by_ssorted. eapply Permutation_NoDup; [|apply ssorted_NoDup; exact Hs].
      apply Permutation_map, Permutation_sym, HP.
    - eapply perm_trans; [apply sort_by_perm|exact HP].
  Qed.

  Lemma ssorted_sort_id l : ssorted l -> sort_by key str_ltb l = l.
  Proof. intros Hs. apply sort_by_unique; [exact Hs|apply Permutation_refl]. Qed.

  Lemma ssorted_filter p l : ssorted l -> ssorted (filter p l).
  Proof.
    induction 1 as [|x l Hl IH Hx]; cbn [filter]; [constructor|].
    destruct (p x); [|exact IH]. constructor; [exact IH|].
    rewrite Forall_forall in *. intros y Hy. apply filter_In in Hy. apply Hx. tauto.
  Qed.
End SortU.

Lemma ssorted_map {A B} (key : A -> string) (key' : B -> string) (g : A -> B) l :
  (forall x, key' (g x) = key x) -> ssorted key l -> ssorted key' (map g l).
Proof.
  intros Hk. induction 1 as [|x l Hl IH Hx]; cbn [map]; constructor; [exact IH|].
  rewrite Forall_forall in *. intros y Hy. apply in_map_iff in Hy. destruct Hy as [z [<- Hz]].
  rewrite !Hk. apply Hx. exact Hz.
Qed.

Lemma insert_map {A B} (key : A -> string) (key' : B -> string) (g : A -> B) x l :
  (forall x, key' (g x) = key x) ->
  insert key' str_ltb (g x) (map g l) = map g (insert key str_ltb x l).
Proof.
  intros Hk. induction l as [|y l IH]; cbn [map insert]; [reflexivity|].
  rewrite !Hk. destruct (str_ltb (key x) (key y)); cbn [map]; [reflexivity|]. rewrite IH. reflexivity.
Qed.

Lemma sort_by_map {A B} (key : A -> string) (key' : B -> string) (g : A -> B) l :
  (forall x, key' (g x) = key x) ->
  sort_by key' str_ltb (map g l) = map g (sort_by key str_ltb l).
Proof.
  intros Hk. induction l as [|x l IH] using rev_ind; [reflexivity|].
  rewrite map_app. cbn [map]. rewrite !sort_by_snoc, IH. apply insert_map. exact Hk.
Qed.

Lemma Permutation_filter' {A} (p : A -> bool) l1 l2 :
  Permutation l1 l2 -> Permutation (filter p l1) (filter p l2).
Proof.
  induction 1 as [|x l l' _ IH|x y l|l l' l'' _ IH1 _ IH2]; cbn [filter].
  - constructor.
  - destruct (p x); [apply perm_skip|]; exact IH.
  - destruct (p x), (p y); try apply Permutation_refl. apply perm_swap.
  - eapply perm_trans; eassumption.
Qed.

Lemma filter_partition_perm {A} (p : A -> bool) l :
  Permutation (filter (fun x => negb (p x)) l ++ filter p l) l.
Proof.
  induction l as [|x l IH]; cbn [filter]; [constructor|].
  destruct (p x); cbn [negb app].
  - apply Permutation_sym. apply Permutation_cons_app. apply Permutation_sym. exact IH.
  - apply perm_skip. exact IH.
Qed.

(* ------------------------------------------------------------------------------------------ *)
(* the normal form keeps names and the meaning of the constraints                               *)
(* ------------------------------------------------------------------------------------------ *)
Definition gl_norm_rel (r : relation) : relation :=
  match r with
  | Relation a b cs => Relation a b (sort_by name str_ltb (map gl_norm_feature cs))
  end.

Lemma gl_norm_feature_unfold i rs :
  gl_norm_feature (Feature i rs)
  = Feature (mk_info (f_name i))
      (sort_by rel_first_name str_ltb (filter (fun r => negb (rel_is_group r)) (map gl_norm_rel rs))
       ++ filter rel_is_group (map gl_norm_rel rs)).
Proof. reflexivity. Qed.

Lemma gl_norm_name f : name (gl_norm_feature f) = name f.
Proof. destruct f as [i rs]. reflexivity. Qed.

Lemma gl_norm_rel_children_perm r :
  Permutation (r_children (gl_norm_rel r)) (map gl_norm_feature (r_children r)).
Proof. destruct r as [a b cs]. cbn [gl_norm_rel r_children]. apply sort_by_perm. Qed.

Lemma gl_norm_rels_perm rs :
  Permutation (sort_by rel_first_name str_ltb (filter (fun r => negb (rel_is_group r)) (map gl_norm_rel rs))
               ++ filter rel_is_group (map gl_norm_rel rs))
              (map gl_norm_rel rs).
Proof.
  eapply perm_trans; [|apply (filter_partition_perm rel_is_group)].
  apply Permutation_app_tail. apply sort_by_perm.
Qed.

Lemma gl_norm_feature_names : forall f, Permutation (NF (gl_norm_feature f)) (NF f).
Proof.
  apply (feature_ind2 (fun f => Permutation (NF (gl_norm_feature f)) (NF f))
           (fun r => Permutation (flat_map NF (r_children (gl_norm_rel r))) (flat_map NF (r_children r)))).
  - intros i rs IH. rewrite gl_norm_feature_unfold, !NF_unfold. cbn [mk_info f_name]. apply perm_skip.
    eapply perm_trans; [apply Permutation_flat_map, gl_norm_rels_perm|].
    induction IH as [|r rs' Hr _ IHrs]; cbn [map flat_map]; [constructor|].
    apply Permutation_app; assumption.
  - intros a b cs IH.
    eapply perm_trans; [apply Permutation_flat_map, gl_norm_rel_children_perm|].
    cbn [r_children]. induction IH as [|c cs' Hc _ IHcs]; cbn [map flat_map]; [constructor|].
    apply Permutation_app; assumption.
Qed.

Theorem glencoe_norm_names : forall m, Permutation (names (root (glencoe_norm m))) (names (root m)).
Proof. intros m. apply gl_norm_feature_names. Qed.

Lemma gl_node_ind (P : node -> Prop) :
  (forall d, P (Node d None None)) ->
  (forall d a, P a -> P (Node d (Some a) None)) ->
  (forall d b, P b -> P (Node d None (Some b))) ->
  (forall d a b, P a -> P b -> P (Node d (Some a) (Some b))) ->
  forall n, P n.
Proof.
  intros H0 H1 H2 H3. fix IH 1. intros [d [a|] [b|]].
  - apply H3; apply IH.
  - apply H1; apply IH.
  - apply H2; apply IH.
  - apply H0.
Qed.

Lemma gl_norm_node_eval σ : forall n, eval σ (gl_norm_node n) = eval σ n.
Proof.
  induction n as [d|d a IHa|d b IHb|d a b IHa IHb] using gl_node_ind.
  - destruct d as [o|s|z|r|b]; try reflexivity. destruct o; reflexivity.
  - destruct d as [o|s|z|r|b]; try reflexivity.
    destruct o; cbn [gl_norm_node eval]; rewrite ?IHa; reflexivity.
  - destruct d as [o|s|z|r|b0]; try reflexivity. destruct o; reflexivity.
  - destruct d as [o|s|z|r|b0]; try reflexivity.
    destruct o; cbn [gl_norm_node eval]; rewrite ?IHa, ?IHb; reflexivity.
Qed.

Theorem glencoe_norm_ctcs : forall m σ,
  map (fun c => eval σ (c_ast c)) (ctcs (glencoe_norm m)) = map (fun c => eval σ (c_ast c)) (ctcs m).
Proof.
  intros m σ. unfold glencoe_norm. cbn [ctcs]. rewrite map_map. apply map_ext.
  intros c. cbn [c_ast]. apply gl_norm_node_eval.
Qed.

(* ------------------------------------------------------------------------------------------ *)
(* insertion-ordered dictionaries and the feature table                                         *)
(* ------------------------------------------------------------------------------------------ *)
Lemma dict_set_assoc k kv k' v :
  assoc k (dict_set kv k' v) = if String.eqb k k' then Some v else assoc k kv.
Proof.
  induction kv as [|[k0 v0] kv IH]; cbn [dict_set assoc]; [reflexivity|].
  destruct (String.eqb_spec k' k0) as [E0|N0]; cbn [assoc].
  - subst k0. destruct (String.eqb k k'); reflexivity.
  - rewrite IH. destruct (String.eqb_spec k k0) as [E1|N1]; [|reflexivity].
    subst k0. destruct (String.eqb_spec k k') as [E2|N2]; [|reflexivity]. subst. contradiction.
Qed.

Lemma dict_set_fresh kv k v : ~ In k (map fst kv) -> dict_set kv k v = kv ++ [(k, v)].
Proof.
  induction kv as [|[k0 v0] kv IH]; intros Hn; cbn [dict_set app]; [reflexivity|].
  destruct (String.eqb_spec k k0) as [E|N].
  - exfalso. apply Hn. left. symmetry. exact E.
  - rewrite IH; [reflexivity|]. intro H. apply Hn. right. exact H.
Qed.

Section Dict.
  Context {A : Type} (kf : A -> string) (vf : A -> aval).
  Definition dict_of (l : list A) (init : list (string * aval)) : list (string * aval) :=
    fold_left (fun acc x => dict_set acc (kf x) (vf x)) l init.

  Lemma dict_of_notin : forall l init k, ~ In k (map kf l) -> assoc k (dict_of l init) = assoc k init.
  Proof.
    induction l as [|y l IH]; intros init k Hn; [reflexivity|].
    cbn [dict_of fold_left]. fold (dict_of l (dict_set init (kf y) (vf y))).
    rewrite IH; [|intro H; apply Hn; right; exact H].
    rewrite dict_set_assoc. destruct (String.eqb_spec k (kf y)) as [E|N]; [|reflexivity].
    exfalso. apply Hn. left. symmetry. exact E.
  Qed.

  Lemma dict_of_in : forall l init x, NoDup (map kf l) -> In x l ->
    assoc (kf x) (dict_of l init) = Some (vf x).
  Proof.
    induction l as [|y l IH]; intros init x Hnd Hin; [contradiction|].
    cbn [map] in Hnd. inversion Hnd as [|k ks Hnin Hnd']; subst.
    cbn [dict_of fold_left]. fold (dict_of l (dict_set init (kf y) (vf y))).
    destruct Hin as [->|Hin].
    - rewrite dict_of_notin; [|exact Hnin]. rewrite dict_set_assoc, String.eqb_refl. reflexivity.
    - apply IH; assumption.
  Qed.
End Dict.

Definition gl_table (m : fm) : list (string * aval) :=
  dict_of (fun pf : option feature * feature => name (snd pf))
          (fun pf => glencoe_feature_info (fst pf) (snd pf))
          (sort_by (fun pf : option feature * feature => name (snd pf)) str_ltb (get_features_ctx m)) [].

Lemma glencoe_features_table m : glencoe_features m = VMap (gl_table m).
Proof. reflexivity. Qed.

Lemma gl_ctx_names_perm m :
  Permutation (map (fun pf : option feature * feature => name (snd pf)) (get_features_ctx m))
              (names (root m)).
Proof.
  rewrite <- (map_map snd name), get_features_ctx_snd. unfold names.
  apply Permutation_map. apply get_features_perm.
Qed.

Lemma gl_table_lookup m p f :
  NoDup (names (root m)) -> In (p, f) (get_features_ctx m) ->
  assoc (name f) (gl_table m) = Some (glencoe_feature_info p f).
Proof.
  intros Hnd Hin. unfold gl_table.
  apply (dict_of_in (fun pf : option feature * feature => name (snd pf))
                    (fun pf => glencoe_feature_info (fst pf) (snd pf)) _ [] (p, f)).
  - eapply Permutation_NoDup; [|exact Hnd]. apply Permutation_sym.
    eapply perm_trans; [apply Permutation_map, sort_by_perm|apply gl_ctx_names_perm].
  - eapply Permutation_in; [apply Permutation_sym, sort_by_perm|exact Hin].
Qed.

Lemma subrelations_ctx_complete : forall f g r,
  In g (subfeatures f) -> In r (rels g) -> In (g, r) (subrelations_ctx f).
Proof.
  apply (feature_ind2
           (fun f => forall g r, In g (subfeatures f) -> In r (rels g) -> In (g, r) (subrelations_ctx f))
           (fun r0 => forall g r, In g (flat_map subfeatures (r_children r0)) -> In r (rels g) ->
                                  In (g, r) (flat_map subrelations_ctx (r_children r0)))).
  - intros i rs IH g r Hg Hr. rewrite Forall_forall in IH.
    cbn [subfeatures] in Hg. cbn [subrelations_ctx].
    destruct Hg as [<-|Hg].
    + cbn [rels] in Hr. apply in_flat_map. exists r. split; [exact Hr|].
      destruct r as [a b cs]. left. reflexivity.
    + apply in_flat_map in Hg. destruct Hg as [r0 [Hr0 Hg]].
      apply in_flat_map. exists r0. split; [exact Hr0|].
      specialize (IH r0 Hr0 g r). destruct r0 as [a b cs]. cbn [r_children] in IH.
      right. apply IH; assumption.
  - intros a b cs IH g r Hg Hr. rewrite Forall_forall in IH. cbn [r_children] in *.
    apply in_flat_map in Hg. destruct Hg as [c [Hc Hg]].
    apply in_flat_map. exists c. split; [exact Hc|]. apply IH; assumption.
Qed.

Lemma gl_ctx_child m g c :
  In g (subfeatures (root m)) -> In c (children g) -> In (Some g, c) (get_features_ctx m).
Proof.
  intros Hg Hc. unfold children in Hc. apply in_flat_map in Hc. destruct Hc as [r [Hr Hc]].
  unfold get_features_ctx. right. apply in_flat_map. exists (g, r). split.
  - apply subrelations_ctx_complete; assumption.
  - cbn [fst snd]. apply in_map. exact Hc.
Qed.

Lemma gl_ctx_name m s :
  In s (names (root m)) -> exists p f, In (p, f) (get_features_ctx m) /\ name f = s.
Proof.
  intros Hs. unfold names in Hs. apply in_map_iff in Hs. destruct Hs as [f [Hn Hf]].
  apply (Permutation_in _ (Permutation_sym (get_features_perm m))) in Hf.
  rewrite <- get_features_ctx_snd in Hf. apply in_map_iff in Hf. destruct Hf as [[p f'] [E Hin]].
  cbn [snd] in E. subst f'. exists p, f. split; assumption.
Qed.

(* what the reader finds in an entry of the table *)
Lemma finfo_get_spec kv s fi key :
  assoc s kv = Some fi -> finfo_get (VMap kv) (VStr s) key = jget key fi.
Proof. intros H. unfold finfo_get. cbn [jstr jget]. rewrite H. reflexivity. Qed.

Lemma info_name p f : jget "name" (glencoe_feature_info p f) = Ok (VStr (name f)).
Proof. reflexivity. Qed.
Lemma info_type p f : jget "type" (glencoe_feature_info p f) = Ok (VStr (glencoe_feature_type f)).
Proof. reflexivity. Qed.
Lemma info_optional p f :
  jget "optional" (glencoe_feature_info p f) = Ok (VBool (negb (feat_is_mandatory p f))).
Proof. reflexivity. Qed.

(* ------------------------------------------------------------------------------------------ *)
(* constraints: what the writer emits is read back as the normal form                           *)
(* ------------------------------------------------------------------------------------------ *)
Lemma parse_ctc_term fuel kv s fi :
  assoc s kv = Some fi -> jget "name" fi = Ok (VStr s) ->
  glencoe_parse_ctc (S fuel) (VMap kv) (VMap [("type", VStr "FeatureTerm"); ("operands", VList [VStr s])])
  = Ok (term s).
Proof.
  intros H1 H2. cbn [glencoe_parse_ctc jget assoc String.eqb Ascii.eqb Bool.eqb jstr jlist nth_operand nth_error].
  rewrite (finfo_get_spec _ _ _ _ H1), H2. reflexivity.
Qed.

Lemma parse_ctc_not fuel fi ja :
  glencoe_parse_ctc (S fuel) fi (VMap [("type", VStr "NotTerm"); ("operands", VList [ja])])
  = match glencoe_parse_ctc fuel fi ja with Err e => Err e | Ok a => Ok (un NOT a) end.
Proof. reflexivity. Qed.

Lemma parse_ctc_bin fuel fi o ty ja jb :
  glencoe_ctc_type o = Some ty -> astop_eqb o NOT = false ->
  glencoe_parse_ctc (S fuel) fi (VMap [("type", VStr ty); ("operands", VList [ja; jb])])
  = match glencoe_parse_ctc fuel fi ja with
    | Err e => Err e
    | Ok a => match glencoe_parse_ctc fuel fi jb with
              | Err e => Err e
              | Ok b => Ok (bin (match o with REQUIRES => IMPLIES | _ => o end) a b)
              end
    end.
Proof.
  intros Hty Hn.
  destruct o; try discriminate; injection Hty as <-;
    cbn [glencoe_parse_ctc jget assoc String.eqb Ascii.eqb Bool.eqb jstr jlist nth_operand nth_error mapM];
    destruct (glencoe_parse_ctc fuel fi ja) as [a|e]; try reflexivity;
    destruct (glencoe_parse_ctc fuel fi jb) as [b|e]; reflexivity.
Qed.

Lemma gl_ctc_roundtrip kv nms :
  (forall s, list_existsb_eq s nms = true ->
             exists fi, assoc s kv = Some fi /\ jget "name" fi = Ok (VStr s)) ->
  forall n, gl_node_ok nms n = true ->
  exists j, glencoe_ctc n = Ok j /\
            forall fuel, aval_depth j <= fuel -> glencoe_parse_ctc fuel (VMap kv) j = Ok (gl_norm_node n).
Proof.
  intros Hkv.
  induction n as [d|d a IHa|d b IHb|d a b IHa IHb] using gl_node_ind; intros Hok.
  - destruct d as [o|s|z|r|b]; cbn [gl_node_ok] in Hok; try discriminate.
    + apply andb_prop in Hok. destruct Hok as [_ Hok]. destruct (astop_eqb o NOT); discriminate.
    + destruct (Hkv s Hok) as [fi [H1 H2]].
      eexists. split; [reflexivity|]. intros fuel Hf. destruct fuel as [|fuel]; [cbn in Hf; lia|].
      cbn [data_str]. exact (parse_ctc_term _ _ _ _ H1 H2).
  - destruct d as [o|s|z|r|b]; cbn [gl_node_ok] in Hok; try discriminate.
    apply andb_prop in Hok. destruct Hok as [_ Hok].
    destruct (astop_eqb o NOT) eqn:Eo; [|discriminate].
    assert (o = NOT) by (destruct o; try discriminate; reflexivity). subst o.
    destruct (IHa Hok) as [ja [Hja Hpa]].
    exists (VMap [("type", VStr "NotTerm"); ("operands", VList [ja])]). split.
    + cbn [glencoe_ctc is_term is_op n_data negb glencoe_ctc_type]. rewrite Hja. reflexivity.
    + intros fuel Hf. destruct fuel as [|fuel]; [cbn in Hf; lia|].
      rewrite parse_ctc_not. rewrite Hpa; [reflexivity|].
      cbn [aval_depth map fold_right snd] in Hf. lia.
  - destruct d as [o|s|z|r|b0]; cbn [gl_node_ok] in Hok; try discriminate.
    apply andb_prop in Hok. destruct Hok as [_ Hok]. destruct (astop_eqb o NOT); discriminate.
  - destruct d as [o|s|z|r|b0]; cbn [gl_node_ok] in Hok; try discriminate.
    apply andb_prop in Hok. destruct Hok as [Hop Hok].
    destruct (astop_eqb o NOT) eqn:Eo; [discriminate|].
    apply andb_prop in Hok. destruct Hok as [Hoka Hokb].
    destruct (IHa Hoka) as [ja [Hja Hpa]]. destruct (IHb Hokb) as [jb [Hjb Hpb]].
    assert (Hty : exists ty, glencoe_ctc_type o = Some ty).
    { destruct o; try discriminate; eexists; reflexivity. }
    destruct Hty as [ty Hty].
    exists (VMap [("type", VStr ty); ("operands", VList [ja; jb])]). split.
    + cbn [glencoe_ctc is_term is_op n_data negb]. rewrite Hty, Hja, Hjb. reflexivity.
    + intros fuel Hf. destruct fuel as [|fuel]; [cbn in Hf; lia|].
      cbn [aval_depth map fold_right snd] in Hf.
      rewrite (parse_ctc_bin _ _ o ty _ _ Hty Eo).
      rewrite Hpa by lia. rewrite Hpb by lia.
      destruct o; reflexivity.
Qed.

Lemma gl_norm_node_idem : forall n, gl_norm_node (gl_norm_node n) = gl_norm_node n.
Proof.
  induction n as [d|d a IHa|d b IHb|d a b IHa IHb] using gl_node_ind;
    cbn [gl_norm_node]; rewrite ?IHa, ?IHb;
    (destruct d as [o|s|z|r|b0]; [destruct o|..]; reflexivity).
Qed.

(* the constraint dictionary built by the writer *)
Fixpoint gl_ctc_go (cs : list ctc) (acc : list (string * aval)) : result (list (string * aval)) :=
  match cs with
  | [] => Ok acc
  | c :: cs' => match glencoe_ctc (c_ast c) with
                | Err e => Err e
                | Ok j => gl_ctc_go cs' (dict_set acc (c_name c) j)
                end
  end.

Lemma glencoe_write_unfold m :
  glencoe_write m =
  match gl_ctc_go (ctcs m) [] with
  | Err e => Err e
  | Ok cinfo =>
      Ok (VMap [("id", VStr ("FM_" ++ str_remove_char " " (name (root m)))%string);
                ("name", VStr ("FM_" ++ str_remove_char " " (name (root m)))%string);
                ("features", glencoe_features m); ("tree", glencoe_tree (root m));
                ("constraints", VMap cinfo)])
  end.
Proof. reflexivity. Qed.

Definition ctc_json (c : ctc) : aval :=
  match glencoe_ctc (c_ast c) with Ok j => j | Err _ => VNone end.

Lemma gl_ctc_go_ok : forall cs acc,
  (forall c, In c cs -> exists j, glencoe_ctc (c_ast c) = Ok j) ->
  NoDup (map fst acc ++ map c_name cs) ->
  gl_ctc_go cs acc = Ok (acc ++ map (fun c => (c_name c, ctc_json c)) cs).
Proof.
  induction cs as [|c cs IH]; intros acc Hj Hnd; cbn [gl_ctc_go map].
  - rewrite app_nil_r. reflexivity.
  - destruct (Hj c (or_introl eq_refl)) as [j Ej]. rewrite Ej.
    cbn [map] in Hnd.
    assert (Hfresh : ~ In (c_name c) (map fst acc)).
    { apply NoDup_remove_2 in Hnd. intro H. apply Hnd. apply in_or_app. left. exact H. }
    rewrite (dict_set_fresh _ _ _ Hfresh).
    rewrite IH.
    + rewrite <- app_assoc. cbn [app]. unfold ctc_json at 2. rewrite Ej. reflexivity.
    + intros c' Hc'. apply Hj. right. exact Hc'.
    + rewrite map_app, <- app_assoc. cbn [map app fst]. exact Hnd.
Qed.

Lemma mapM_map_ok {A B} (f : A -> result B) (g : A -> B) : forall l,
  (forall x, In x l -> f x = Ok (g x)) -> mapM f l = Ok (map g l).
Proof.
  induction l as [|x l IH]; intros H; [reflexivity|].
  cbn [mapM map]. rewrite (H x (or_introl eq_refl)).
  change ((fix go (l : list A) : result (list B) :=
             match l with
             | [] => Ok []
             | x :: xs => match f x with
                          | Err e => Err e
                          | Ok y => match go xs with Err e0 => Err e0 | Ok ys => Ok (y :: ys) end
                          end
             end) l) with (mapM f l).
  rewrite IH; [reflexivity|]. intros y Hy. apply H. right. exact Hy.
Qed.

(* ------------------------------------------------------------------------------------------ *)
(* relations of a feature of the fragment                                                       *)
(* ------------------------------------------------------------------------------------------ *)
Definition child_mand (rs : list relation) (c : feature) : bool :=
  existsb (fun r => rel_is_mandatory r && in_children c r) rs.

Lemma in_children_in c r : In c (r_children r) -> in_children c r = true.
Proof.
  intros H. unfold in_children. apply existsb_exists. exists c. split; [exact H|apply String.eqb_refl].
Qed.

Lemma in_children_notin c r : ~ In (name c) (map name (r_children r)) -> in_children c r = false.
Proof.
  intros H. unfold in_children. destruct (existsb _ _) eqn:E; [|reflexivity].
  apply existsb_exists in E. destruct E as [c' [Hc' E]]. apply String.eqb_eq in E.
  exfalso. apply H. rewrite <- E. apply in_map. exact Hc'.
Qed.

Lemma NoDup_app_disjoint {A} (l1 l2 : list A) x : NoDup (l1 ++ l2) -> In x l1 -> ~ In x l2.
Proof.
  induction l1 as [|y l1 IH]; intros Hnd Hin; [contradiction|].
  cbn [app] in Hnd. inversion Hnd as [|y' l' Hnin Hnd']; subst.
  destruct Hin as [->|Hin].
  - intro H. apply Hnin. apply in_or_app. right. exact H.
  - apply IH; assumption.
Qed.

Lemma NoDup_app_l {A} (l1 l2 : list A) : NoDup (l1 ++ l2) -> NoDup l1.
Proof.
  induction l1 as [|y l1 IH]; intros Hnd; [constructor|].
  cbn [app] in Hnd. inversion Hnd as [|y' l' Hnin Hnd']; subst. constructor.
  - intro H. apply Hnin. apply in_or_app. left. exact H.
  - apply IH. exact Hnd'.
Qed.

Lemma NoDup_app_r {A} (l1 l2 : list A) : NoDup (l1 ++ l2) -> NoDup l2.
Proof.
  induction l1 as [|y l1 IH]; intros Hnd; [exact Hnd|].
  cbn [app] in Hnd. inversion Hnd; subst. apply IH. assumption.
Qed.

(* with distinct child names a child belongs to one relation only *)
Lemma child_rel_unique (P : relation -> bool) : forall rs r c,
  NoDup (map name (flat_map r_children rs)) -> In r rs -> In c (r_children r) ->
  existsb (fun r' => P r' && in_children c r') rs = P r.
Proof.
  induction rs as [|r0 rs IH]; intros r c Hnd Hr Hc; [contradiction|].
  cbn [flat_map] in Hnd. rewrite map_app in Hnd. cbn [existsb].
  destruct Hr as [->|Hr].
  - rewrite (in_children_in _ _ Hc), andb_true_r.
    destruct (P r) eqn:EP; [reflexivity|]. cbn [orb].
    destruct (existsb _ rs) eqn:E; [|reflexivity].
    apply existsb_exists in E. destruct E as [r' [Hr' E]]. apply andb_prop in E. destruct E as [_ E].
    unfold in_children in E. apply existsb_exists in E. destruct E as [c' [Hc' E]].
    apply String.eqb_eq in E. exfalso.
    apply (NoDup_app_disjoint _ _ (name c) Hnd); [apply in_map; exact Hc|].
    rewrite <- E. apply in_map. apply in_flat_map. exists r'. split; assumption.
  - rewrite in_children_notin, andb_false_r.
    + cbn [orb]. apply IH; [apply (NoDup_app_r _ _ Hnd)|exact Hr|exact Hc].
    + intro H. apply (NoDup_app_disjoint _ _ (name c) Hnd H).
      apply in_map. apply in_flat_map. exists r. split; assumption.
Qed.

Lemma child_mand_unique rs r c :
  NoDup (map name (flat_map r_children rs)) -> In r rs -> In c (r_children r) ->
  child_mand rs c = rel_is_mandatory r.
Proof. apply (child_rel_unique rel_is_mandatory). Qed.

Lemma filter_const {A} (p : A -> bool) (b : bool) l :
  (forall x, In x l -> p x = b) -> filter p l = if b then l else [].
Proof.
  induction l as [|x l IH]; intros H; cbn [filter]; [destruct b; reflexivity|].
  rewrite (H x (or_introl eq_refl)), IH by (intros y Hy; apply H; right; exact Hy).
  destruct b; reflexivity.
Qed.

Lemma filter_children rs (h : bool -> bool) :
  NoDup (map name (flat_map r_children rs)) ->
  forall rs0, incl rs0 rs ->
  filter (fun c => h (child_mand rs c)) (flat_map r_children rs0)
  = flat_map r_children (filter (fun r => h (rel_is_mandatory r)) rs0).
Proof.
  intros Hnd. induction rs0 as [|r rs0 IH]; intros Hincl; [reflexivity|].
  cbn [flat_map filter]. rewrite filter_app, IH by (intros x Hx; apply Hincl; right; exact Hx).
  rewrite (filter_const _ (h (rel_is_mandatory r))).
  - destruct (h (rel_is_mandatory r)); reflexivity.
  - intros c Hc. f_equal. apply child_mand_unique; [exact Hnd| |exact Hc].
    apply Hincl. left. reflexivity.
Qed.

Lemma filter_map_comm {A B} (P : B -> bool) (Q : A -> bool) (g : A -> B) l :
  (forall x, P (g x) = Q x) -> filter P (map g l) = map g (filter Q l).
Proof.
  intros H. induction l as [|x l IH]; [reflexivity|]. cbn [map filter].
  rewrite H. destruct (Q x); cbn [map]; rewrite IH; reflexivity.
Qed.

Lemma filter_nil_negb {A} (p : A -> bool) l : filter p l = [] -> filter (fun x => negb (p x)) l = l.
Proof.
  induction l as [|x l IH]; intros H; [reflexivity|]. cbn [filter] in *.
  destruct (p x); [discriminate|]. cbn [negb]. rewrite IH; [reflexivity|exact H].
Qed.

(* ---- the kinds of relation ---- *)
Lemma rel_mandatory_shape r : rel_is_mandatory r = true -> exists c, r = Relation 1 1 [c].
Proof.
  destruct r as [a b cs]. unfold rel_is_mandatory, nchildren. cbn [r_min r_max r_children].
  intros H. apply andb_prop in H. destruct H as [H H3]. apply andb_prop in H. destruct H as [H1 H2].
  apply Z.eqb_eq in H1, H2, H3. subst.
  destruct cs as [|c [|c' cs]]; cbn [List.length] in H3; try lia. exists c. reflexivity.
Qed.

Lemma rel_optional_shape r : rel_is_optional r = true -> exists c, r = Relation 0 1 [c].
Proof.
  destruct r as [a b cs]. unfold rel_is_optional, nchildren. cbn [r_min r_max r_children].
  intros H. apply andb_prop in H. destruct H as [H H3]. apply andb_prop in H. destruct H as [H1 H2].
  apply Z.eqb_eq in H1, H2, H3. subst.
  destruct cs as [|c [|c' cs]]; cbn [List.length] in H3; try lia. exists c. reflexivity.
Qed.

Lemma rel_single_kinds r :
  rel_is_mandatory r || rel_is_optional r = true ->
  rel_is_group r = false /\ rel_is_alternative r = false /\ rel_is_or r = false
  /\ rel_is_mutex r = false /\ rel_is_cardinal r = false.
Proof.
  intros H. apply orb_prop in H. destruct H as [H|H].
  - destruct (rel_mandatory_shape r H) as [c ->]. repeat split; reflexivity.
  - destruct (rel_optional_shape r H) as [c ->]. repeat split; reflexivity.
Qed.

Lemma rel_group_not_single r :
  rel_is_group r = true -> rel_is_mandatory r = false /\ rel_is_optional r = false.
Proof.
  intros H. split.
  - destruct (rel_is_mandatory r) eqn:E; [|reflexivity].
    destruct (rel_mandatory_shape r E) as [c ->]. discriminate.
  - destruct (rel_is_optional r) eqn:E; [|reflexivity].
    destruct (rel_optional_shape r E) as [c ->]. discriminate.
Qed.

Lemma rel_group_genor r :
  rel_is_group r = true -> rel_is_alternative r = false -> rel_is_or r = false ->
  rel_is_cardinal r || rel_is_mutex r = true.
Proof.
  intros Hg Ha Ho. destruct (rel_group_not_single r Hg) as [Hm Hp].
  unfold rel_is_cardinal. rewrite Hm, Hp, Ha, Ho. cbn [negb andb].
  destruct (rel_is_mutex r); reflexivity.
Qed.

Lemma rel_alternative_card r : rel_is_alternative r = true -> r_min r = 1%Z /\ r_max r = 1%Z.
Proof.
  unfold rel_is_alternative. intros H. apply andb_prop in H. destruct H as [H _].
  apply andb_prop in H. destruct H as [H1 H2]. apply Z.eqb_eq in H1, H2. split; assumption.
Qed.

Lemma rel_or_card r : rel_is_or r = true -> r_min r = 1%Z /\ r_max r = nchildren r.
Proof.
  unfold rel_is_or. intros H. apply andb_prop in H. destruct H as [H _].
  apply andb_prop in H. destruct H as [H1 H2]. apply Z.eqb_eq in H1, H2. split; assumption.
Qed.

(* ---- the two cases of the fragment ---- *)
Lemma gl_rels_ok_cases rs :
  gl_rels_ok rs = true ->
  (filter rel_is_group rs = [] /\ forall r, In r rs -> rel_is_mandatory r || rel_is_optional r = true)
  \/ (exists g, filter rel_is_group rs = [g] /\
                forall r, In r rs -> rel_is_group r = false -> rel_is_mandatory r = true).
Proof.
  unfold gl_rels_ok. intros H.
  destruct (filter rel_is_group rs) as [|g [|g' gs]] eqn:EG; [left|right|discriminate].
  - split; [reflexivity|]. intros r Hr. rewrite forallb_forall in H. apply H.
    apply filter_In. split; [exact Hr|].
    destruct (rel_is_group r) eqn:E; [|reflexivity].
    assert (In r (filter rel_is_group rs)) as X by (apply filter_In; split; assumption).
    rewrite EG in X. contradiction.
  - exists g. split; [reflexivity|]. intros r Hr Hg. rewrite forallb_forall in H. apply H.
    apply filter_In. split; [exact Hr|]. rewrite Hg. reflexivity.
Qed.

(* ---- the normalised relations ---- *)
Lemma gl_norm_rel_card r :
  r_min (gl_norm_rel r) = r_min r /\ r_max (gl_norm_rel r) = r_max r
  /\ nchildren (gl_norm_rel r) = nchildren r.
Proof.
  destruct r as [a b cs]. cbn [gl_norm_rel r_min r_max]. repeat split.
  unfold nchildren. cbn [r_children]. f_equal.
  rewrite (Permutation_length (sort_by_perm _ _ name str_ltb _)). apply map_length.
Qed.

Lemma gl_norm_rel_group r : rel_is_group (gl_norm_rel r) = rel_is_group r.
Proof. destruct (gl_norm_rel_card r) as (_ & _ & H3). unfold rel_is_group. rewrite H3. reflexivity. Qed.
Lemma gl_norm_rel_mandatory r : rel_is_mandatory (gl_norm_rel r) = rel_is_mandatory r.
Proof.
  destruct (gl_norm_rel_card r) as (H1 & H2 & H3). unfold rel_is_mandatory. rewrite H1, H2, H3. reflexivity.
Qed.
Lemma gl_norm_rel_optional r : rel_is_optional (gl_norm_rel r) = rel_is_optional r.
Proof.
  destruct (gl_norm_rel_card r) as (H1 & H2 & H3). unfold rel_is_optional. rewrite H1, H2, H3. reflexivity.
Qed.

Lemma gl_norm_rel_single a b c : gl_norm_rel (Relation a b [c]) = Relation a b [gl_norm_feature c].
Proof. reflexivity. Qed.

Definition gl_kids (rs : list relation) : list feature := sort_by name str_ltb (flat_map r_children rs).

Lemma gl_kids_ssorted rs :
  NoDup (map name (flat_map r_children rs)) -> ssorted name (gl_kids rs).
Proof. apply sort_by_ssorted. Qed.

Lemma gl_kids_perm rs : Permutation (gl_kids rs) (flat_map r_children rs).
Proof. apply sort_by_perm. Qed.

(* plain parent *)
Lemma norm_rels_plain rs :
  NoDup (map name (flat_map r_children rs)) ->
  filter rel_is_group rs = [] ->
  (forall r, In r rs -> rel_is_mandatory r || rel_is_optional r = true) ->
  sort_by rel_first_name str_ltb (filter (fun r => negb (rel_is_group r)) (map gl_norm_rel rs))
  ++ filter rel_is_group (map gl_norm_rel rs)
  = map (fun c => Relation (if negb (child_mand rs c) then 0 else 1) 1 [gl_norm_feature c]) (gl_kids rs).
Proof.
  intros Hnd HG Hall.
  set (F := fun c => Relation (if negb (child_mand rs c) then 0 else 1) 1 [gl_norm_feature c]).
  rewrite (filter_map_comm rel_is_group rel_is_group gl_norm_rel rs gl_norm_rel_group), HG.
  rewrite (filter_map_comm (fun r => negb (rel_is_group r)) (fun r => negb (rel_is_group r)) gl_norm_rel rs)
    by (intros r; rewrite gl_norm_rel_group; reflexivity).
  rewrite (filter_nil_negb _ _ HG). cbn [map]. rewrite app_nil_r.
  apply sort_by_unique.
  - apply (ssorted_map name rel_first_name F).
    + intros c. unfold F, rel_first_name. cbn [r_children]. apply gl_norm_name.
    + apply gl_kids_ssorted. exact Hnd.
  - apply perm_trans with (map F (flat_map r_children rs)).
    + assert (E : forall rs0, incl rs0 rs -> map gl_norm_rel rs0 = map F (flat_map r_children rs0)).
      { induction rs0 as [|r rs0 IH]; intros Hincl; [reflexivity|].
        cbn [map flat_map]. rewrite map_app, <- IH by (intros x Hx; apply Hincl; right; exact Hx).
        assert (Hr : In r rs) by (apply Hincl; left; reflexivity).
        assert (Hcm : forall c, In c (r_children r) -> child_mand rs c = rel_is_mandatory r).
        { intros c Hc. apply child_mand_unique; assumption. }
        pose proof (Hall r Hr) as Hk. apply orb_prop in Hk.
        destruct (rel_is_mandatory r) eqn:Em.
        - destruct (rel_mandatory_shape r Em) as [c ->]. cbn [r_children map app]. unfold F.
          rewrite (Hcm c (or_introl eq_refl)). reflexivity.
        - destruct Hk as [Hk|Hk]; [discriminate|].
          destruct (rel_optional_shape r Hk) as [c ->]. cbn [r_children map app]. unfold F.
          rewrite (Hcm c (or_introl eq_refl)). reflexivity. }
      rewrite (E rs (incl_refl _)). apply Permutation_refl.
    + apply Permutation_map. apply Permutation_sym. apply gl_kids_perm.
Qed.

(* group parent *)
Lemma norm_rels_group rs g :
  NoDup (map name (flat_map r_children rs)) ->
  filter rel_is_group rs = [g] ->
  (forall r, In r rs -> rel_is_group r = false -> rel_is_mandatory r = true) ->
  sort_by rel_first_name str_ltb (filter (fun r => negb (rel_is_group r)) (map gl_norm_rel rs))
  ++ filter rel_is_group (map gl_norm_rel rs)
  = map (fun c => Relation 1 1 [gl_norm_feature c]) (filter (child_mand rs) (gl_kids rs))
    ++ [Relation (r_min g) (r_max g)
          (map gl_norm_feature (filter (fun c => negb (child_mand rs c)) (gl_kids rs)))].
Proof.
  intros Hnd HG Hall.
  assert (Hmg : forall r, In r rs -> rel_is_mandatory r = negb (rel_is_group r)).
  { intros r Hr. destruct (rel_is_group r) eqn:Eg; cbn [negb].
    - apply (rel_group_not_single r Eg).
    - apply Hall; assumption. }
  assert (HS : filter (fun r => rel_is_mandatory r) rs = filter (fun r => negb (rel_is_group r)) rs).
  { apply filter_ext_in. exact Hmg. }
  assert (HG' : filter (fun r => negb (rel_is_mandatory r)) rs = [g]).
  { rewrite <- HG. apply filter_ext_in. intros r Hr. rewrite (Hmg r Hr). apply negb_involutive. }
  rewrite (filter_map_comm rel_is_group rel_is_group gl_norm_rel rs gl_norm_rel_group), HG.
  rewrite (filter_map_comm (fun r => negb (rel_is_group r)) (fun r => negb (rel_is_group r)) gl_norm_rel rs)
    by (intros r; rewrite gl_norm_rel_group; reflexivity).
  f_equal.
  - (* the mandatory singles *)
    apply sort_by_unique.
    + apply (ssorted_map name rel_first_name (fun c => Relation 1 1 [gl_norm_feature c])).
      * intros c. unfold rel_first_name. cbn [r_children]. apply gl_norm_name.
      * apply ssorted_filter. apply gl_kids_ssorted. exact Hnd.
    + apply perm_trans with (map (fun c => Relation 1 1 [gl_norm_feature c])
                                 (filter (child_mand rs) (flat_map r_children rs))).
      * replace (filter (child_mand rs) (flat_map r_children rs))
          with (flat_map r_children (filter (fun r => rel_is_mandatory r) rs))
          by (symmetry; apply (filter_children rs (fun b => b) Hnd rs (incl_refl _))).
        rewrite HS.
        assert (HF : Forall (fun r => rel_is_mandatory r = true) (filter (fun r => negb (rel_is_group r)) rs)).
        { apply Forall_forall. intros r Hr. apply filter_In in Hr. destruct Hr as [Hr Hg].
          apply Hall; [exact Hr|]. destruct (rel_is_group r); [discriminate|reflexivity]. }
        clear HS. revert HF. generalize (filter (fun r => negb (rel_is_group r)) rs). intros l HF.
        induction HF as [|r l Hr _ IH]; [constructor|].
        cbn [map flat_map]. rewrite map_app. destruct (rel_mandatory_shape r Hr) as [c ->].
        cbn [r_children map app]. rewrite gl_norm_rel_single. apply perm_skip. exact IH.
      * apply Permutation_map. apply Permutation_filter'. apply Permutation_sym. apply gl_kids_perm.
  - (* the group *)
    cbn [map]. destruct g as [a b cs]. cbn [gl_norm_rel r_min r_max]. f_equal. f_equal.
    rewrite (sort_by_map name name gl_norm_feature cs gl_norm_name). f_equal.
    apply sort_by_unique.
    + apply ssorted_filter. apply gl_kids_ssorted. exact Hnd.
    + apply perm_trans with (filter (fun c => negb (child_mand rs c)) (flat_map r_children rs)).
      * rewrite (filter_children rs negb Hnd rs (incl_refl _)), HG'.
        cbn [flat_map r_children]. rewrite app_nil_r. apply Permutation_refl.
      * apply Permutation_filter'. apply Permutation_sym. apply gl_kids_perm.
Qed.

(* ------------------------------------------------------------------------------------------ *)
(* the tree: what the writer emits                                                              *)
(* ------------------------------------------------------------------------------------------ *)
Lemma glencoe_tree_unfold i rs :
  glencoe_tree (Feature i rs)
  = VMap (("id", VStr (f_name i))
          :: match gl_kids rs with
             | [] => []
             | _ => [("children", VList (map glencoe_tree (gl_kids rs)))]
             end).
Proof.
  cbn [glencoe_tree].
  assert (E : flat_map (fun r => match r with
                                 | Relation _ _ cs => map (fun c => (name c, glencoe_tree c)) cs
                                 end) rs
              = map (fun c => (name c, glencoe_tree c)) (flat_map r_children rs)).
  { induction rs as [|[a b cs] rs IH]; [reflexivity|].
    cbn [flat_map r_children]. rewrite map_app, IH. reflexivity. }
  rewrite E.
  rewrite (sort_by_map name fst (fun c => (name c, glencoe_tree c))) by reflexivity.
  fold (gl_kids rs). rewrite map_map. cbn [snd]. destruct (gl_kids rs); reflexivity.
Qed.

Lemma tree_id f : jget "id" (glencoe_tree f) = Ok (VStr (name f)).
Proof. destruct f as [i rs]. rewrite glencoe_tree_unfold. reflexivity. Qed.

Lemma fold_max_ge {A} (f : A -> nat) l x : In x l -> f x <= fold_right Nat.max 0 (map f l).
Proof.
  induction l as [|y l IH]; intros H; [contradiction|]. cbn [map fold_right].
  destruct H as [->|H]; [lia|]. specialize (IH H). lia.
Qed.

Lemma tree_depth_child i rs c :
  In c (gl_kids rs) -> S (aval_depth (glencoe_tree c)) < aval_depth (glencoe_tree (Feature i rs)).
Proof.
  intros H. rewrite glencoe_tree_unfold.
  pose proof (fold_max_ge (fun c => aval_depth (glencoe_tree c)) (gl_kids rs) c H) as Hm.
  destruct (gl_kids rs) as [|k K] eqn:EK; [contradiction|].
  cbn [aval_depth map fold_right snd] in *. rewrite map_map. lia.
Qed.

(* ---- the type written for a feature of the fragment ---- *)
Lemma existsb_false {A} (p : A -> bool) l : (forall x, In x l -> p x = false) -> existsb p l = false.
Proof.
  induction l as [|x l IH]; intros H; [reflexivity|]. cbn [existsb].
  rewrite (H x (or_introl eq_refl)), IH; [reflexivity|]. intros y Hy. apply H. right. exact Hy.
Qed.

Lemma existsb_group (P : relation -> bool) rs g :
  In g rs -> (forall r, In r rs -> r = g \/ rel_is_mandatory r = true) ->
  (forall r, rel_is_mandatory r = true -> P r = false) -> existsb P rs = P g.
Proof.
  intros Hg Hall HP. destruct (P g) eqn:E.
  - apply existsb_exists. exists g. split; assumption.
  - apply existsb_false. intros r Hr. destruct (Hall r Hr) as [->|Hm]; [exact E|apply HP; exact Hm].
Qed.

Lemma find_group (P : relation -> bool) g : forall rs,
  In g rs -> (forall r, In r rs -> r = g \/ rel_is_mandatory r = true) ->
  (forall r, rel_is_mandatory r = true -> P r = false) -> P g = true -> find P rs = Some g.
Proof.
  induction rs as [|r rs IH]; intros Hg Hall HP Eg; [contradiction|]. cbn [find].
  destruct (P r) eqn:Er.
  - destruct (Hall r (or_introl eq_refl)) as [->|Hm]; [reflexivity|].
    rewrite (HP r Hm) in Er. discriminate.
  - apply IH; try assumption.
    + destruct Hg as [->|Hg]; [rewrite Eg in Er; discriminate|exact Hg].
    + intros r' Hr'. apply Hall. right. exact Hr'.
Qed.

Lemma mandatory_kinds r :
  rel_is_mandatory r = true ->
  rel_is_alternative r = false /\ rel_is_or r = false /\ rel_is_mutex r = false /\ rel_is_cardinal r = false.
Proof.
  intros H. destruct (rel_single_kinds r) as (_ & H1 & H2 & H3 & H4); [rewrite H; reflexivity|].
  repeat split; assumption.
Qed.

Lemma feature_type_plain i rs :
  (forall r, In r rs -> rel_is_mandatory r || rel_is_optional r = true) ->
  glencoe_feature_type (Feature i rs) = "FEATURE"%string.
Proof.
  intros Hall. unfold glencoe_feature_type, feat_is_alternative_group, feat_is_or_group,
    feat_is_cardinality_group, feat_is_mutex_group. cbn [rels].
  rewrite !existsb_false; [reflexivity| | | |]; intros r Hr; apply (rel_single_kinds r (Hall r Hr)).
Qed.

Lemma feature_type_group i rs g :
  In g rs -> (forall r, In r rs -> r = g \/ rel_is_mandatory r = true) -> rel_is_group g = true ->
  glencoe_feature_type (Feature i rs)
  = (if rel_is_alternative g then "XOR" else if rel_is_or g then "OR" else "GENOR")%string.
Proof.
  intros Hg Hall Hgrp. unfold glencoe_feature_type, feat_is_alternative_group, feat_is_or_group,
    feat_is_cardinality_group, feat_is_mutex_group. cbn [rels].
  rewrite (existsb_group rel_is_alternative rs g Hg Hall) by (intros r Hr; apply (mandatory_kinds r Hr)).
  rewrite (existsb_group rel_is_or rs g Hg Hall) by (intros r Hr; apply (mandatory_kinds r Hr)).
  rewrite (existsb_group rel_is_cardinal rs g Hg Hall) by (intros r Hr; apply (mandatory_kinds r Hr)).
  rewrite (existsb_group rel_is_mutex rs g Hg Hall) by (intros r Hr; apply (mandatory_kinds r Hr)).
  destruct (rel_is_alternative g) eqn:Ea; [reflexivity|].
  destruct (rel_is_or g) eqn:Eo; [reflexivity|].
  rewrite (rel_group_genor g Hgrp Ea Eo). reflexivity.
Qed.

Lemma info_minmax p i rs g :
  glencoe_feature_type (Feature i rs) = "GENOR"%string ->
  find (fun r => rel_is_cardinal r || rel_is_mutex r) rs = Some g ->
  jget "min" (glencoe_feature_info p (Feature i rs)) = Ok (VInt (r_min g))
  /\ jget "max" (glencoe_feature_info p (Feature i rs)) = Ok (VInt (r_max g)).
Proof.
  intros Hty Hf. unfold glencoe_feature_info. rewrite Hty. cbn [rels]. rewrite Hf. split; reflexivity.
Qed.

(* ---- reading the children back ---- *)
Lemma gl_child_opt_tree kv p c :
  assoc (name c) kv = Some (glencoe_feature_info p c) ->
  gl_child_opt (VMap kv) (glencoe_tree c) = Ok (negb (feat_is_mandatory p c)).
Proof.
  intros H. unfold gl_child_opt. rewrite tree_id, (finfo_get_spec _ _ _ _ H), info_optional. reflexivity.
Qed.

Definition erase_rel (r : prelation) : relation :=
  match r with PRelation _ a b cs => Relation a b (map erase cs) end.

Lemma erase_unfold i p ap rs : erase (PFeature i p ap rs) = Feature i (map erase_rel rs).
Proof. reflexivity. Qed.

Lemma gl_goc_roundtrip rec kv here wh (opt : feature -> bool) : forall K p,
  (forall c, In c K -> forall h, exists pc, rec h (glencoe_tree c) = Ok pc /\ erase pc = gl_norm_feature c) ->
  (forall c, In c K -> gl_child_opt (VMap kv) (glencoe_tree c) = Ok (opt c)) ->
  exists kids, gl_goc rec (VMap kv) here wh p (map glencoe_tree K) = Ok kids
               /\ map (fun ko : pfeature * bool => (erase (fst ko), snd ko)) kids
                  = map (fun c => (gl_norm_feature c, opt c)) K.
Proof.
  induction K as [|c K IH]; intros p Hrec Hopt.
  - exists []. split; reflexivity.
  - destruct (Hrec c (or_introl eq_refl) (here ++ [wh p])) as [pc [Hpc Epc]].
    destruct (IH (S p)) as [kids [Hk Ek]].
    + intros c' Hc'. apply Hrec. right. exact Hc'.
    + intros c' Hc'. apply Hopt. right. exact Hc'.
    + exists ((pc, opt c) :: kids). split.
      * cbn [map gl_goc]. rewrite Hpc, (Hopt c (or_introl eq_refl)), Hk. reflexivity.
      * cbn [map fst snd]. rewrite Epc, Ek. reflexivity.
Qed.

Lemma erase_kids_rels here (cm : feature -> bool) : forall kids K,
  map (fun ko : pfeature * bool => (erase (fst ko), snd ko)) kids
  = map (fun c => (gl_norm_feature c, negb (cm c))) K ->
  map erase_rel (map (fun ko : pfeature * bool =>
                        PRelation (PPath here) (if snd ko then 0 else 1)%Z 1%Z [fst ko]) kids)
  = map (fun c => Relation (if negb (cm c) then 0 else 1) 1 [gl_norm_feature c]) K
  /\ map erase_rel (map (fun ko : pfeature * bool => PRelation (PPath here) 1%Z 1%Z [fst ko])
                        (filter (fun ko : pfeature * bool => negb (snd ko)) kids))
     = map (fun c => Relation 1 1 [gl_norm_feature c]) (filter cm K)
  /\ map erase (map fst (filter (fun ko : pfeature * bool => snd ko) kids))
     = map gl_norm_feature (filter (fun c => negb (cm c)) K).
Proof.
  induction kids as [|[pc o] kids IH]; intros [|c K] H; try discriminate.
  - repeat split; reflexivity.
  - cbn [map fst snd] in H. injection H as H1 H2 H3.
    destruct (IH K H3) as (I1 & I2 & I3). subst o.
    cbn [map filter fst snd]. rewrite I1.
    destruct (cm c); cbn [negb map filter fst snd erase_rel]; rewrite ?I2, ?I3, ?H1; repeat split; reflexivity.
Qed.

(* ------------------------------------------------------------------------------------------ *)
(* unique names, locally                                                                        *)
(* ------------------------------------------------------------------------------------------ *)
Lemma NoDup_flat_map_piece {A B} (F : A -> list B) : forall l x,
  NoDup (flat_map F l) -> In x l -> NoDup (F x).
Proof.
  induction l as [|y l IH]; intros x Hnd Hin; [contradiction|]. cbn [flat_map] in Hnd.
  destruct Hin as [->|Hin]; [exact (NoDup_app_l _ _ Hnd)|].
  apply IH; [exact (NoDup_app_r _ _ Hnd)|exact Hin].
Qed.

Lemma flat_map_flat_map {A B C} (g : B -> list C) (f : A -> list B) l :
  flat_map g (flat_map f l) = flat_map (fun x => flat_map g (f x)) l.
Proof.
  induction l as [|x l IH]; [reflexivity|]. cbn [flat_map]. rewrite flat_map_app', IH. reflexivity.
Qed.

Lemma NoDup_heads {A B} (F : A -> list B) (h : A -> B) :
  (forall x, exists tl, F x = h x :: tl) ->
  forall l, NoDup (flat_map F l) -> NoDup (map h l).
Proof.
  intros HF. induction l as [|x l IH]; intros Hnd; [constructor|].
  cbn [flat_map map] in *. constructor.
  - intro Hin. apply in_map_iff in Hin. destruct Hin as [y [Ey Hy]].
    destruct (HF x) as [tl Ex]. destruct (HF y) as [tl' Ey'].
    apply (NoDup_app_disjoint _ _ (h x) Hnd); [rewrite Ex; left; reflexivity|].
    apply in_flat_map. exists y. split; [exact Hy|]. rewrite Ey', Ey. left. reflexivity.
  - apply IH. exact (NoDup_app_r _ _ Hnd).
Qed.

Lemma NF_head f : exists tl, NF f = name f :: tl.
Proof. destruct f as [i rs]. rewrite NF_unfold. eexists. reflexivity. Qed.

Lemma NF_children_nodup i rs :
  NoDup (NF (Feature i rs)) -> NoDup (flat_map NF (flat_map r_children rs)).
Proof.
  rewrite NF_unfold. intros H. inversion H; subst. rewrite flat_map_flat_map. assumption.
Qed.

Lemma children_names_nodup i rs :
  NoDup (NF (Feature i rs)) -> NoDup (map name (flat_map r_children rs)).
Proof. intros H. apply (NoDup_heads NF name NF_head). apply (NF_children_nodup i rs H). Qed.

Lemma child_NF_nodup i rs c :
  NoDup (NF (Feature i rs)) -> In c (flat_map r_children rs) -> NoDup (NF c).
Proof. intros H Hc. apply (NoDup_flat_map_piece NF _ c (NF_children_nodup i rs H) Hc). Qed.

Lemma subfeatures_child i rs c g :
  In c (flat_map r_children rs) -> In g (subfeatures c) -> In g (subfeatures (Feature i rs)).
Proof.
  intros Hc Hg. apply in_flat_map in Hc. destruct Hc as [r [Hr Hc]].
  cbn [subfeatures]. right. apply in_flat_map. exists r. split; [exact Hr|].
  destruct r as [a b cs]. cbn [r_children] in Hc. apply in_flat_map. exists c. split; assumption.
Qed.

Lemma forallb_ext {A} (p q : A -> bool) l : (forall x, p x = q x) -> forallb p l = forallb q l.
Proof. intros H. induction l as [|x l IH]; [reflexivity|]. cbn [forallb]. rewrite H, IH. reflexivity. Qed.

Lemma gl_feature_ok_unfold i rs :
  gl_feature_ok (Feature i rs)
  = gl_rels_ok rs && forallb (fun r => forallb gl_feature_ok (r_children r)) rs.
Proof.
  cbn [gl_feature_ok]. f_equal. apply forallb_ext. intros [a b cs]. reflexivity.
Qed.


Lemma gl_feature_ok_child i rs c :
  gl_feature_ok (Feature i rs) = true -> In c (flat_map r_children rs) -> gl_feature_ok c = true.
Proof.
  rewrite gl_feature_ok_unfold. intros H Hc. apply andb_prop in H. destruct H as [_ H].
  apply in_flat_map in Hc. destruct Hc as [r [Hr Hc]].
  rewrite forallb_forall in H. specialize (H r Hr). rewrite forallb_forall in H. apply H. exact Hc.
Qed.

(* ------------------------------------------------------------------------------------------ *)
(* the tree is read back as its normal form                                                     *)
(* ------------------------------------------------------------------------------------------ *)
Definition tbl_ok (kv : list (string * aval)) (f : feature) : Prop :=
  forall g c, In g (subfeatures f) -> In c (children g) ->
              assoc (name c) kv = Some (glencoe_feature_info (Some g) c).

Lemma tree_children_nil i rs :
  gl_kids rs = [] -> jhas "children" (glencoe_tree (Feature i rs)) = false.
Proof. intros H. rewrite glencoe_tree_unfold, H. reflexivity. Qed.

Lemma tree_children_cons i rs :
  gl_kids rs <> [] ->
  jhas "children" (glencoe_tree (Feature i rs)) = true
  /\ jget "children" (glencoe_tree (Feature i rs)) = Ok (VList (map glencoe_tree (gl_kids rs))).
Proof.
  intros H. rewrite glencoe_tree_unfold. destruct (gl_kids rs); [contradiction|]. split; reflexivity.
Qed.

Lemma group_kids_perm rs g :
  NoDup (map name (flat_map r_children rs)) ->
  filter rel_is_group rs = [g] ->
  (forall r, In r rs -> rel_is_group r = false -> rel_is_mandatory r = true) ->
  Permutation (filter (fun c => negb (child_mand rs c)) (gl_kids rs)) (r_children g).
Proof.
  intros Hnd HG Hall.
  assert (HG' : filter (fun r => negb (rel_is_mandatory r)) rs = [g]).
  { rewrite <- HG. apply filter_ext_in. intros r Hr.
    destruct (rel_is_group r) eqn:Eg.
    - rewrite (proj1 (rel_group_not_single r Eg)). reflexivity.
    - rewrite (Hall r Hr Eg). reflexivity. }
  apply perm_trans with (filter (fun c => negb (child_mand rs c)) (flat_map r_children rs)).
  - apply Permutation_filter'. apply gl_kids_perm.
  - rewrite (filter_children rs negb Hnd rs (incl_refl _)), HG'.
    cbn [flat_map]. rewrite app_nil_r. apply Permutation_refl.
Qed.

Lemma gl_known_type_feature_type f : gl_known_type (glencoe_feature_type f) = true.
Proof.
  unfold glencoe_feature_type.
  destruct (feat_is_alternative_group f); [reflexivity|].
  destruct (feat_is_or_group f); [reflexivity|].
  destruct (feat_is_cardinality_group f || feat_is_mutex_group f); reflexivity.
Qed.

(* with a non-empty group the build step makes the group relation *)
Lemma gl_build_group fi fid fty info here parent kids :
  String.eqb fty "FEATURE" = false ->
  map fst (filter (fun ko : pfeature * bool => snd ko) kids) <> [] ->
  gl_build fi fid fty info here parent kids
  = match gl_grp fi fid fty (List.length (map fst (filter (fun ko : pfeature * bool => snd ko) kids))) with
    | Err e => Err e
    | Ok (a, b) =>
        Ok (PFeature info parent []
              (map (fun ko : pfeature * bool => PRelation (PPath here) 1%Z 1%Z [fst ko])
                   (filter (fun ko : pfeature * bool => negb (snd ko)) kids)
               ++ [PRelation (PPath here) a b (map fst (filter (fun ko : pfeature * bool => snd ko) kids))]))
    end.
Proof.
  intros Hp Hne. unfold gl_build. rewrite Hp. cbv zeta.
  destruct (map fst (filter (fun ko : pfeature * bool => snd ko) kids)) as [|g0 gs]; [contradiction|].
  reflexivity.
Qed.

Lemma gl_tree_roundtrip kv : forall f,
  gl_feature_ok f = true -> NoDup (NF f) -> tbl_ok kv f ->
  (exists p, assoc (name f) kv = Some (glencoe_feature_info p f)) ->
  forall fuel here parent, aval_depth (glencoe_tree f) <= fuel ->
  exists pf, glencoe_parse_tree fuel (VMap kv) here parent (glencoe_tree f) = Ok pf
             /\ erase pf = gl_norm_feature f.
Proof.
  apply (feature_ind2
    (fun f => gl_feature_ok f = true -> NoDup (NF f) -> tbl_ok kv f ->
       (exists p, assoc (name f) kv = Some (glencoe_feature_info p f)) ->
       forall fuel here parent, aval_depth (glencoe_tree f) <= fuel ->
       exists pf, glencoe_parse_tree fuel (VMap kv) here parent (glencoe_tree f) = Ok pf
                  /\ erase pf = gl_norm_feature f)
    (fun r => forall c, In c (r_children r) ->
       gl_feature_ok c = true -> NoDup (NF c) -> tbl_ok kv c ->
       (exists p, assoc (name c) kv = Some (glencoe_feature_info p c)) ->
       forall fuel here parent, aval_depth (glencoe_tree c) <= fuel ->
       exists pf, glencoe_parse_tree fuel (VMap kv) here parent (glencoe_tree c) = Ok pf
                  /\ erase pf = gl_norm_feature c)).
  2:{ intros a b cs IH c Hc. rewrite Forall_forall in IH. apply IH. exact Hc. }
  intros i rs IH Hok Hnd Htbl [p Hself] fuel here parent Hfuel.
  rewrite Forall_forall in IH.
  pose proof (children_names_nodup i rs Hnd) as Hndc.
  assert (Hrels : gl_rels_ok rs = true).
  { rewrite gl_feature_ok_unfold in Hok. apply andb_prop in Hok. apply Hok. }
  destruct fuel as [|fuel].
  { exfalso. rewrite glencoe_tree_unfold in Hfuel. cbn [aval_depth] in Hfuel. lia. }
  assert (HinK : forall c, In c (gl_kids rs) -> In c (flat_map r_children rs)).
  { intros c Hc. eapply Permutation_in; [apply gl_kids_perm|exact Hc]. }
  assert (Hloop : forall wh, exists kids,
             gl_goc (fun h c => glencoe_parse_tree fuel (VMap kv) h (PPath here) c) (VMap kv) here wh 0
                    (map glencoe_tree (gl_kids rs)) = Ok kids
             /\ map (fun ko : pfeature * bool => (erase (fst ko), snd ko)) kids
                = map (fun c => (gl_norm_feature c, negb (child_mand rs c))) (gl_kids rs)).
  { intros wh. apply gl_goc_roundtrip.
    - intros c Hc h. pose proof (HinK c Hc) as Hc'.
      pose proof Hc' as Hc''. apply in_flat_map in Hc''. destruct Hc'' as [r [Hr Hcr]].
      apply (IH r Hr c Hcr).
      + exact (gl_feature_ok_child i rs c Hok Hc').
      + exact (child_NF_nodup i rs c Hnd Hc').
      + intros g c0 Hg Hc0. apply Htbl; [|exact Hc0]. exact (subfeatures_child i rs c g Hc' Hg).
      + exists (Some (Feature i rs)). apply Htbl; [left; reflexivity|exact Hc'].
      + pose proof (tree_depth_child i rs c Hc). lia.
    - intros c Hc. rewrite (gl_child_opt_tree kv (Some (Feature i rs)) c); [reflexivity|].
      apply Htbl; [left; reflexivity|exact (HinK c Hc)]. }
  rewrite glencoe_parse_tree_S, tree_id. cbv beta iota.
  rewrite !(finfo_get_spec _ _ _ _ Hself), info_type, info_name. cbv beta iota. cbn [jstr]. cbv beta iota.
  rewrite gl_known_type_feature_type. cbn [negb]. cbv beta iota.
  rewrite gl_norm_feature_unfold.
  destruct (gl_rels_ok_cases rs Hrels) as [[HG Hall] | [g [HG Hall]]].
  - (* plain *)
    rewrite (feature_type_plain i rs Hall), (norm_rels_plain rs Hndc HG Hall).
    destruct (gl_kids rs) as [|k0 K0] eqn:EK.
    + rewrite (tree_children_nil i rs EK). eexists. split; [reflexivity|]. reflexivity.
    + assert (HK : gl_kids rs <> []) by (rewrite EK; discriminate).
      destruct (tree_children_cons i rs HK) as [Hh Hg]. rewrite Hh, Hg, EK. cbn [jlist].
      match goal with |- context [gl_goc _ _ _ ?wh 0%nat _] => destruct (Hloop wh) as [kids [Hk Ek]] end.
      rewrite Hk. eexists. split; [reflexivity|].
      rewrite erase_unfold. f_equal.
      exact (proj1 (erase_kids_rels here (child_mand rs) kids _ Ek)).
  - (* group *)
    assert (Hgin : In g rs /\ rel_is_group g = true).
    { apply filter_In. rewrite HG. left. reflexivity. }
    destruct Hgin as [Hgin Hggrp].
    assert (Hoth : forall r, In r rs -> r = g \/ rel_is_mandatory r = true).
    { intros r Hr. destruct (rel_is_group r) eqn:Eg; [left|right; apply Hall; assumption].
      assert (In r (filter rel_is_group rs)) as X by (apply filter_In; split; assumption).
      rewrite HG in X. destruct X as [X|[]]. symmetry. exact X. }
    rewrite (feature_type_group i rs g Hgin Hoth Hggrp), (norm_rels_group rs g Hndc HG Hall).
    assert (HK : gl_kids rs <> []).
    { destruct g as [a b [|c cs]]; [discriminate|].
      intro E. assert (In c (gl_kids rs)) as X; [|rewrite E in X; contradiction].
      eapply Permutation_in; [apply Permutation_sym, gl_kids_perm|].
      apply in_flat_map. eexists. split; [exact Hgin|left; reflexivity]. }
    destruct (tree_children_cons i rs HK) as [Hh Hg]. rewrite Hh, Hg. cbn [jlist].
    match goal with |- context [gl_goc _ _ _ ?wh 0%nat _] => destruct (Hloop wh) as [kids [Hk Ek]] end.
    rewrite Hk.
    destruct (erase_kids_rels here (child_mand rs) kids _ Ek) as (_ & E2 & E3).
    assert (Hne : map fst (filter (fun ko : pfeature * bool => snd ko) kids) <> []).
    { intro E. rewrite E in E3. cbn [map] in E3. symmetry in E3. apply map_eq_nil in E3.
      pose proof (group_kids_perm rs g Hndc HG Hall) as HP. rewrite E3 in HP.
      apply Permutation_nil in HP. destruct g as [a b [|c cs]]; discriminate. }
    rewrite gl_build_group; [|destruct (rel_is_alternative g), (rel_is_or g); reflexivity|exact Hne].
    destruct (rel_is_alternative g) eqn:Ea; [|destruct (rel_is_or g) eqn:Eo].
    + eexists. split; [reflexivity|].
      rewrite erase_unfold, map_app. cbn [map erase_rel]. rewrite E2, E3.
      destruct (rel_alternative_card g Ea) as [-> ->]. reflexivity.
    + eexists. split; [reflexivity|].
      rewrite erase_unfold, map_app. cbn [map erase_rel]. rewrite E2, E3.
      destruct (rel_or_card g Eo) as [-> ->]. unfold nchildren.
      rewrite <- (Permutation_length (group_kids_perm rs g Hndc HG Hall)).
      rewrite <- (map_length gl_norm_feature), <- E3, !map_length. reflexivity.
    + assert (Hfind : find (fun r => rel_is_cardinal r || rel_is_mutex r) rs = Some g).
      { apply find_group; try assumption.
        - intros r Hr. destruct (mandatory_kinds r Hr) as (_ & _ & -> & ->). reflexivity.
        - apply rel_group_genor; assumption. }
      assert (Hty : glencoe_feature_type (Feature i rs) = "GENOR"%string).
      { rewrite (feature_type_group i rs g Hgin Hoth Hggrp), Ea, Eo. reflexivity. }
      destruct (info_minmax p i rs g Hty Hfind) as [Hmin Hmax].
      unfold gl_grp. cbn [String.eqb Ascii.eqb Bool.eqb].
      rewrite !(finfo_get_spec _ _ _ _ Hself), Hmin, Hmax. cbn [jint].
      eexists. split; [reflexivity|].
      rewrite erase_unfold, map_app. cbn [map erase_rel]. rewrite E2, E3. reflexivity.
Qed.

(* ------------------------------------------------------------------------------------------ *)
(* Part 2, main theorems: totality of the writer and the round trip                             *)
(* ------------------------------------------------------------------------------------------ *)
Lemma list_existsb_eq_In s l : list_existsb_eq s l = true <-> In s l.
Proof.
  induction l as [|x l IH]; cbn [list_existsb_eq In]; [split; [discriminate|contradiction]|].
  rewrite orb_true_iff, IH, String.eqb_eq. split; intros [H|H]; auto.
Qed.

Lemma mapM_map_ok' {A B C} (f : B -> result C) (h : A -> B) (g : A -> C) : forall l,
  (forall x, In x l -> f (h x) = Ok (g x)) -> mapM f (map h l) = Ok (map g l).
Proof.
  induction l as [|x l IH]; intros H; [reflexivity|].
  cbn [mapM map]. rewrite (H x (or_introl eq_refl)).
  change ((fix go (l : list B) : result (list C) :=
             match l with
             | [] => Ok []
             | x :: xs => match f x with
                          | Err e => Err e
                          | Ok y => match go xs with Err e0 => Err e0 | Ok ys => Ok (y :: ys) end
                          end
             end) (map h l)) with (mapM f (map h l)).
  rewrite IH; [reflexivity|]. intros y Hy. apply H. right. exact Hy.
Qed.

Section RoundTrip.
  Variable m : fm.
  Hypothesis Hok : glencoe_ok m = true.

  Let Hparts : gl_feature_ok (root m) = true /\ NoDup (names (root m))
               /\ (forall c, In c (ctcs m) -> gl_node_ok (names (root m)) (c_ast c) = true)
               /\ NoDup (map c_name (ctcs m)).
  Proof.
    unfold glencoe_ok in Hok.
    apply andb_prop in Hok. destruct Hok as [H123 H4].
    apply andb_prop in H123. destruct H123 as [H12 H3].
    apply andb_prop in H12. destruct H12 as [H1 H2].
    repeat split; [exact H1|apply nodupb_NoDup; exact H2| |apply nodupb_NoDup; exact H4].
    rewrite forallb_forall in H3. exact H3.
  Qed.

  Lemma gl_table_names s :
    list_existsb_eq s (names (root m)) = true ->
    exists fi, assoc s (gl_table m) = Some fi /\ jget "name" fi = Ok (VStr s).
  Proof.
    destruct Hparts as (_ & Hnd & _). intros Hs. apply list_existsb_eq_In in Hs.
    destruct (gl_ctx_name m s Hs) as [p [f [Hin <-]]].
    exists (glencoe_feature_info p f). split; [apply gl_table_lookup; assumption|apply info_name].
  Qed.

  Lemma gl_ctc_json_ok c :
    In c (ctcs m) ->
    glencoe_ctc (c_ast c) = Ok (ctc_json c)
    /\ glencoe_parse_ctc (aval_depth (ctc_json c)) (VMap (gl_table m)) (ctc_json c)
       = Ok (gl_norm_node (c_ast c)).
  Proof.
    destruct Hparts as (_ & _ & Hc & _). intros Hin.
    destruct (gl_ctc_roundtrip (gl_table m) (names (root m)) gl_table_names (c_ast c) (Hc c Hin))
      as [j [Hj Hp]].
    unfold ctc_json. rewrite Hj. split; [reflexivity|]. apply Hp. apply le_n.
  Qed.

  Lemma gl_write_ok :
    glencoe_write m =
    Ok (VMap [("id", VStr ("FM_" ++ str_remove_char " " (name (root m)))%string);
              ("name", VStr ("FM_" ++ str_remove_char " " (name (root m)))%string);
              ("features", glencoe_features m); ("tree", glencoe_tree (root m));
              ("constraints", VMap (map (fun c => (c_name c, ctc_json c)) (ctcs m)))]).
  Proof.
    destruct Hparts as (_ & _ & _ & Hcn).
    rewrite glencoe_write_unfold, gl_ctc_go_ok; [reflexivity| |exact Hcn].
    intros c Hc. exists (ctc_json c). apply (gl_ctc_json_ok c Hc).
  Qed.

  Lemma gl_roundtrip_main :
    exists d pm, glencoe_write m = Ok d /\ glencoe_read d = Ok pm /\ erase_fm pm = glencoe_norm m.
  Proof.
    destruct Hparts as (Hf & Hnd & _ & _).
    eexists. rewrite gl_write_ok.
    assert (Htbl : tbl_ok (gl_table m) (root m)).
    { intros g c Hg Hc. apply gl_table_lookup; [exact Hnd|]. apply gl_ctx_child; assumption. }
    assert (Hself : exists p, assoc (name (root m)) (gl_table m) = Some (glencoe_feature_info p (root m))).
    { exists None. apply gl_table_lookup; [exact Hnd|]. left. reflexivity. }
    destruct (gl_tree_roundtrip (gl_table m) (root m) Hf Hnd Htbl Hself
                (aval_depth (glencoe_tree (root m))) [] PNone (le_n _)) as [pf [Hpf Epf]].
    exists {| proot := pf;
              pctcs := map (fun c => {| c_name := c_name c; c_ast := gl_norm_node (c_ast c) |}) (ctcs m) |}.
    split; [reflexivity|]. split.
    - unfold glencoe_read. cbn [jget assoc String.eqb Ascii.eqb Bool.eqb].
      rewrite glencoe_features_table, Hpf.
      rewrite (mapM_map_ok' _ (fun c => (c_name c, ctc_json c))
                 (fun c => {| c_name := c_name c; c_ast := gl_norm_node (c_ast c) |})); [reflexivity|].
      intros c Hc. cbn [fst snd]. rewrite (proj2 (gl_ctc_json_ok c Hc)). reflexivity.
    - unfold erase_fm, glencoe_norm. cbn [proot pctcs]. rewrite Epf. reflexivity.
  Qed.
End RoundTrip.

Theorem glencoe_roundtrip : forall m, glencoe_ok m = true ->
  exists d pm, glencoe_write m = Ok d /\ glencoe_read d = Ok pm /\ erase_fm pm = glencoe_norm m.
Proof. exact gl_roundtrip_main. Qed.

Theorem glencoe_write_total : forall m, glencoe_ok m = true -> exists d, glencoe_write m = Ok d.
Proof. intros m H. eexists. apply (gl_write_ok m H). Qed.

(* ------------------------------------------------------------------------------------------ *)
(* the normal form is in the fragment and is a fixed point                                      *)
(* ------------------------------------------------------------------------------------------ *)
Lemma filter_all {A} (p : A -> bool) l : (forall x, In x l -> p x = true) -> filter p l = l.
Proof. intros H. exact (filter_const p true l H). Qed.

Lemma filter_none {A} (p : A -> bool) l : (forall x, In x l -> p x = false) -> filter p l = [].
Proof. intros H. exact (filter_const p false l H). Qed.

Lemma forallb_perm {A} (p : A -> bool) l l' : Permutation l l' -> forallb p l = forallb p l'.
Proof.
  induction 1 as [|x l l' _ IH|x y l|l l' l'' _ IH1 _ IH2]; cbn [forallb].
  - reflexivity.
  - rewrite IH. reflexivity.
  - rewrite !andb_assoc, (andb_comm (p y) (p x)). reflexivity.
  - rewrite IH1. exact IH2.
Qed.

Lemma forallb_map' {A B} (p : B -> bool) (g : A -> B) l : forallb p (map g l) = forallb (fun x => p (g x)) l.
Proof. induction l as [|x l IH]; [reflexivity|]. cbn [map forallb]. rewrite IH. reflexivity. Qed.

Lemma forallb_ext_in {A} (p q : A -> bool) l : (forall x, In x l -> p x = q x) -> forallb p l = forallb q l.
Proof.
  induction l as [|x l IH]; intros H; [reflexivity|]. cbn [forallb].
  rewrite (H x (or_introl eq_refl)), IH; [reflexivity|]. intros y Hy. apply H. right. exact Hy.
Qed.

Lemma NoDup_nodupb l : NoDup l -> nodupb l = true.
Proof.
  induction 1 as [|x l Hnin _ IH]; [reflexivity|]. cbn [nodupb]. rewrite IH, andb_true_r.
  apply negb_true_iff. destruct (list_existsb_eq x l) eqn:E; [|reflexivity].
  apply list_existsb_eq_In in E. contradiction.
Qed.

Definition nsingles (rs : list relation) : list relation :=
  sort_by rel_first_name str_ltb (filter (fun r => negb (rel_is_group r)) (map gl_norm_rel rs)).
Definition ngroups (rs : list relation) : list relation := filter rel_is_group (map gl_norm_rel rs).

Lemma gl_norm_feature_unfold' i rs :
  gl_norm_feature (Feature i rs) = Feature (mk_info (f_name i)) (nsingles rs ++ ngroups rs).
Proof. reflexivity. Qed.

Lemma nsingles_in rs r : In r (nsingles rs) -> rel_is_group r = false /\ In r (map gl_norm_rel rs).
Proof.
  intros H. apply (Permutation_in _ (sort_by_perm _ _ rel_first_name str_ltb _)) in H.
  apply filter_In in H. destruct H as [H1 H2]. split; [|exact H1].
  destruct (rel_is_group r); [discriminate|reflexivity].
Qed.

Lemma ngroups_in rs r : In r (ngroups rs) -> rel_is_group r = true /\ In r (map gl_norm_rel rs).
Proof. intros H. apply filter_In in H. tauto. Qed.

Lemma norm_rels_filters rs :
  filter (fun r => negb (rel_is_group r)) (nsingles rs ++ ngroups rs) = nsingles rs
  /\ filter rel_is_group (nsingles rs ++ ngroups rs) = ngroups rs.
Proof.
  rewrite !filter_app. split.
  - rewrite filter_all, filter_none; [apply app_nil_r| |].
    + intros r Hr. rewrite (proj1 (ngroups_in rs r Hr)). reflexivity.
    + intros r Hr. rewrite (proj1 (nsingles_in rs r Hr)). reflexivity.
  - rewrite filter_none, filter_all; [reflexivity| |].
    + intros r Hr. exact (proj1 (ngroups_in rs r Hr)).
    + intros r Hr. exact (proj1 (nsingles_in rs r Hr)).
Qed.

Lemma ngroups_map rs : ngroups rs = map gl_norm_rel (filter rel_is_group rs).
Proof. apply filter_map_comm. exact gl_norm_rel_group. Qed.

Lemma nsingles_perm rs :
  Permutation (nsingles rs) (map gl_norm_rel (filter (fun r => negb (rel_is_group r)) rs)).
Proof.
  unfold nsingles. eapply perm_trans; [apply sort_by_perm|].
  rewrite (filter_map_comm (fun r => negb (rel_is_group r)) (fun r => negb (rel_is_group r)) gl_norm_rel rs)
    by (intros r; rewrite gl_norm_rel_group; reflexivity).
  apply Permutation_refl.
Qed.

Lemma gl_rels_ok_norm rs : gl_rels_ok (nsingles rs ++ ngroups rs) = gl_rels_ok rs.
Proof.
  unfold gl_rels_ok. destruct (norm_rels_filters rs) as [-> ->]. rewrite ngroups_map.
  assert (HP : forall P : relation -> bool, (forall r, P (gl_norm_rel r) = P r) ->
             forallb P (nsingles rs) = forallb P (filter (fun r => negb (rel_is_group r)) rs)).
  { intros P HPn. rewrite (forallb_perm P _ _ (nsingles_perm rs)), forallb_map'.
    apply forallb_ext_in. intros r _. apply HPn. }
  destruct (filter rel_is_group rs) as [|g [|g' gs]]; cbn [map]; [| |reflexivity].
  - apply HP. intros r. rewrite gl_norm_rel_mandatory, gl_norm_rel_optional. reflexivity.
  - apply HP. exact gl_norm_rel_mandatory.
Qed.

Lemma gl_norm_feature_ok : forall f, gl_feature_ok f = true -> gl_feature_ok (gl_norm_feature f) = true.
Proof.
  apply (feature_ind2
           (fun f => gl_feature_ok f = true -> gl_feature_ok (gl_norm_feature f) = true)
           (fun r => forall c, In c (r_children r) -> gl_feature_ok c = true ->
                               gl_feature_ok (gl_norm_feature c) = true)).
  2:{ intros a b cs IH c Hc. rewrite Forall_forall in IH. apply IH. exact Hc. }
  intros i rs IH Hok. rewrite Forall_forall in IH.
  rewrite gl_norm_feature_unfold', gl_feature_ok_unfold, gl_rels_ok_norm.
  rewrite gl_feature_ok_unfold in Hok. apply andb_prop in Hok. destruct Hok as [H1 H2].
  rewrite H1. cbn [andb].
  rewrite (forallb_perm _ _ _ (gl_norm_rels_perm rs)), forallb_map'.
  apply forallb_forall. intros r Hr.
  rewrite (forallb_perm _ _ _ (gl_norm_rel_children_perm r)), forallb_map'.
  apply forallb_forall. intros c Hc. apply (IH r Hr c Hc).
  rewrite forallb_forall in H2. specialize (H2 r Hr). rewrite forallb_forall in H2. apply H2. exact Hc.
Qed.

Lemma gl_norm_node_ok nms nms' :
  (forall s, In s nms -> In s nms') ->
  forall n, gl_node_ok nms n = true -> gl_node_ok nms' (gl_norm_node n) = true.
Proof.
  intros Hincl.
  induction n as [d|d a IHa|d b IHb|d a b IHa IHb] using gl_node_ind; intros Hok.
  - destruct d as [o|s|z|r|b]; cbn [gl_node_ok] in Hok; try discriminate.
    + apply andb_prop in Hok. destruct Hok as [_ Hok]. destruct (astop_eqb o NOT); discriminate.
    + cbn [gl_norm_node gl_node_ok]. apply list_existsb_eq_In. apply Hincl.
      apply list_existsb_eq_In. exact Hok.
  - destruct d as [o|s|z|r|b]; cbn [gl_node_ok] in Hok; try discriminate.
    apply andb_prop in Hok. destruct Hok as [_ Hok].
    destruct (astop_eqb o NOT) eqn:Eo; [|discriminate].
    assert (o = NOT) by (destruct o; try discriminate; reflexivity). subst o.
    cbn [gl_norm_node gl_node_ok op_in existsb astop_eqb logical_ops orb andb]. apply IHa. exact Hok.
  - destruct d as [o|s|z|r|b0]; cbn [gl_node_ok] in Hok; try discriminate.
    apply andb_prop in Hok. destruct Hok as [_ Hok]. destruct (astop_eqb o NOT); discriminate.
  - destruct d as [o|s|z|r|b0]; cbn [gl_node_ok] in Hok; try discriminate.
    apply andb_prop in Hok. destruct Hok as [Hop Hok].
    destruct (astop_eqb o NOT) eqn:Eo; [discriminate|].
    apply andb_prop in Hok. destruct Hok as [Hoka Hokb].
    specialize (IHa Hoka). specialize (IHb Hokb).
    destruct o; try discriminate; cbn [gl_norm_node gl_node_ok op_in existsb astop_eqb logical_ops orb andb];
      rewrite IHa, IHb; reflexivity.
Qed.

Theorem glencoe_norm_ok : forall m, glencoe_ok m = true -> glencoe_ok (glencoe_norm m) = true.
Proof.
  intros m Hok. unfold glencoe_ok in *.
  apply andb_prop in Hok. destruct Hok as [H123 H4].
  apply andb_prop in H123. destruct H123 as [H12 H3].
  apply andb_prop in H12. destruct H12 as [H1 H2].
  unfold glencoe_norm. cbn [root ctcs].
  rewrite (gl_norm_feature_ok _ H1). cbn [andb].
  assert (HP : Permutation (names (gl_norm_feature (root m))) (names (root m))).
  { apply gl_norm_feature_names. }
  rewrite NoDup_nodupb.
  2:{ eapply Permutation_NoDup; [apply Permutation_sym; exact HP|]. apply nodupb_NoDup. exact H2. }
  cbn [andb].
  assert (E : map c_name (map (fun c => {| c_name := c_name c; c_ast := gl_norm_node (c_ast c) |}) (ctcs m))
              = map c_name (ctcs m)) by (rewrite map_map; apply map_ext; reflexivity).
  rewrite E, H4, andb_true_r.
  rewrite forallb_map'. cbn [c_ast]. rewrite forallb_forall in H3.
  apply forallb_forall. intros c Hc.
  apply (gl_norm_node_ok (names (root m))); [|apply H3; exact Hc].
  intros s Hs. eapply Permutation_in; [apply Permutation_sym; exact HP|exact Hs].
Qed.

(* ---- idempotence ---- *)
Lemma children_rel_names_nodup rs r :
  NoDup (map name (flat_map r_children rs)) -> In r rs -> NoDup (map name (r_children r)).
Proof.
  rewrite map_flat_map. intros H Hr.
  exact (NoDup_flat_map_piece (fun r => map name (r_children r)) rs r H Hr).
Qed.

Lemma gl_norm_rel_fix r :
  (forall c, In c (r_children r) -> gl_norm_feature (gl_norm_feature c) = gl_norm_feature c) ->
  NoDup (map name (r_children r)) ->
  gl_norm_rel (gl_norm_rel r) = gl_norm_rel r.
Proof.
  destruct r as [a b cs]. cbn [r_children gl_norm_rel]. intros Hc Hnd. f_equal.
  rewrite <- (sort_by_map name name gl_norm_feature _ gl_norm_name).
  rewrite map_map, (map_ext_in _ gl_norm_feature) by exact Hc.
  apply ssorted_sort_id. apply sort_by_ssorted.
  rewrite map_map, (map_ext _ name) by exact gl_norm_name. exact Hnd.
Qed.

Lemma NoDup_app_intro {A} (l1 l2 : list A) :
  NoDup l1 -> NoDup l2 -> (forall x, In x l1 -> ~ In x l2) -> NoDup (l1 ++ l2).
Proof.
  induction l1 as [|x l1 IH]; intros H1 H2 Hd; [exact H2|].
  cbn [app]. inversion H1 as [|x' l' Hnin H1']; subst. constructor.
  - intro H. apply in_app_or in H. destruct H as [H|H]; [contradiction|].
    exact (Hd x (or_introl eq_refl) H).
  - apply IH; [exact H1'|exact H2|]. intros y Hy. apply Hd. right. exact Hy.
Qed.

Lemma NoDup_flat_map_filter {A B} (F : A -> list B) (p : A -> bool) : forall l,
  NoDup (flat_map F l) -> NoDup (flat_map F (filter p l)).
Proof.
  induction l as [|x l IH]; intros H; [constructor|].
  cbn [flat_map filter] in *. pose proof (IH (NoDup_app_r _ _ H)) as IH'.
  destruct (p x); [|exact IH']. cbn [flat_map].
  apply NoDup_app_intro; [exact (NoDup_app_l _ _ H)|exact IH'|].
  intros y Hy Hy'. apply (NoDup_app_disjoint _ _ y H Hy).
  apply in_flat_map in Hy'. destruct Hy' as [z [Hz Hyz]]. apply filter_In in Hz.
  apply in_flat_map. exists z. split; [apply Hz|exact Hyz].
Qed.

Lemma first_names_singles : forall L,
  (forall r, In r L -> rel_is_mandatory r || rel_is_optional r = true) ->
  map rel_first_name (map gl_norm_rel L) = map name (flat_map r_children L).
Proof.
  induction L as [|r L IH]; intros H; [reflexivity|].
  cbn [map flat_map]. rewrite map_app, <- IH by (intros r' Hr'; apply H; right; exact Hr').
  pose proof (H r (or_introl eq_refl)) as Hr. apply orb_prop in Hr.
  destruct Hr as [Hr|Hr]; [destruct (rel_mandatory_shape r Hr) as [c ->]|destruct (rel_optional_shape r Hr) as [c ->]];
    rewrite gl_norm_rel_single; unfold rel_first_name at 1; cbn [r_children map app];
    rewrite gl_norm_name; reflexivity.
Qed.

Lemma gl_rels_ok_singles rs :
  gl_rels_ok rs = true ->
  forall r, In r rs -> rel_is_group r = false -> rel_is_mandatory r || rel_is_optional r = true.
Proof.
  intros H r Hr Hg. destruct (gl_rels_ok_cases rs H) as [[_ Hall]|[g [_ Hall]]].
  - apply Hall. exact Hr.
  - rewrite (Hall r Hr Hg). reflexivity.
Qed.

Lemma nsingles_ssorted rs :
  gl_rels_ok rs = true -> NoDup (map name (flat_map r_children rs)) ->
  ssorted rel_first_name (nsingles rs).
Proof.
  intros Hok Hnd. unfold nsingles. apply sort_by_ssorted.
  rewrite (filter_map_comm (fun r => negb (rel_is_group r)) (fun r => negb (rel_is_group r)) gl_norm_rel rs)
    by (intros r; rewrite gl_norm_rel_group; reflexivity).
  rewrite first_names_singles.
  - rewrite map_flat_map. apply NoDup_flat_map_filter. rewrite <- map_flat_map. exact Hnd.
  - intros r Hr. apply filter_In in Hr. destruct Hr as [Hr Hg].
    apply (gl_rels_ok_singles rs Hok r Hr). destruct (rel_is_group r); [discriminate|reflexivity].
Qed.

Lemma norm_rels_fix R S G :
  R = S ++ G -> map gl_norm_rel R = R ->
  filter (fun r => negb (rel_is_group r)) R = S -> filter rel_is_group R = G ->
  ssorted rel_first_name S -> nsingles R ++ ngroups R = R.
Proof.
  intros HR HM HS HG Hs. unfold nsingles, ngroups. rewrite HM, HS, HG.
  rewrite (ssorted_sort_id _ _ Hs). symmetry. exact HR.
Qed.

Lemma gl_norm_feature_idem : forall f,
  gl_feature_ok f = true -> NoDup (NF f) -> gl_norm_feature (gl_norm_feature f) = gl_norm_feature f.
Proof.
  apply (feature_ind2
           (fun f => gl_feature_ok f = true -> NoDup (NF f) ->
                     gl_norm_feature (gl_norm_feature f) = gl_norm_feature f)
           (fun r => forall c, In c (r_children r) -> gl_feature_ok c = true -> NoDup (NF c) ->
                               gl_norm_feature (gl_norm_feature c) = gl_norm_feature c)).
  2:{ intros a b cs IH c Hc. rewrite Forall_forall in IH. apply IH. exact Hc. }
  intros i rs IH Hok Hnd. rewrite Forall_forall in IH.
  pose proof (children_names_nodup i rs Hnd) as Hndc.
  assert (Hrels : gl_rels_ok rs = true).
  { rewrite gl_feature_ok_unfold in Hok. apply andb_prop in Hok. apply Hok. }
  rewrite gl_norm_feature_unfold'. rewrite gl_norm_feature_unfold'. cbn [mk_info f_name]. f_equal.
  destruct (norm_rels_filters rs) as [HS HG].
  apply (norm_rels_fix _ (nsingles rs) (ngroups rs) eq_refl); try assumption.
  - rewrite <- (map_id (nsingles rs ++ ngroups rs)) at 2. apply map_ext_in.
    intros r' Hr'.
    assert (Hin : In r' (map gl_norm_rel rs)).
    { apply in_app_or in Hr'. destruct Hr' as [Hr'|Hr'];
        [exact (proj2 (nsingles_in rs r' Hr'))|exact (proj2 (ngroups_in rs r' Hr'))]. }
    apply in_map_iff in Hin. destruct Hin as [r [<- Hr]].
    apply gl_norm_rel_fix.
    + intros c Hc.
      assert (Hc' : In c (flat_map r_children rs)) by (apply in_flat_map; exists r; split; assumption).
      apply (IH r Hr c Hc).
      * exact (gl_feature_ok_child i rs c Hok Hc').
      * exact (child_NF_nodup i rs c Hnd Hc').
    + exact (children_rel_names_nodup rs r Hndc Hr).
  - exact (nsingles_ssorted rs Hrels Hndc).
Qed.

Theorem glencoe_norm_idempotent : forall m, glencoe_ok m = true ->
  glencoe_norm (glencoe_norm m) = glencoe_norm m.
Proof.
  intros m Hok. unfold glencoe_ok in Hok.
  apply andb_prop in Hok. destruct Hok as [H123 _].
  apply andb_prop in H123. destruct H123 as [H12 _].
  apply andb_prop in H12. destruct H12 as [H1 H2].
  unfold glencoe_norm. cbn [root ctcs]. f_equal.
  - apply gl_norm_feature_idem; [exact H1|]. apply nodupb_NoDup. exact H2.
  - rewrite map_map. apply map_ext. intros c. cbn [c_name c_ast]. rewrite gl_norm_node_idem. reflexivity.
Qed.

(* hence any number of write/read cycles: the normal form is read back unchanged *)
Corollary glencoe_roundtrip_norm : forall m, glencoe_ok m = true ->
  exists d pm, glencoe_write (glencoe_norm m) = Ok d /\ glencoe_read d = Ok pm
               /\ erase_fm pm = glencoe_norm m.
Proof.
  intros m Hok.
  destruct (glencoe_roundtrip (glencoe_norm m) (glencoe_norm_ok m Hok)) as [d [pm (H1 & H2 & H3)]].
  exists d, pm. rewrite (glencoe_norm_idempotent m Hok) in H3. auto.
Qed.

(* ---- concrete checks of the normal form against the executable writer and reader ---- *)
Module GlencoeExamples.
  Definition inf (n : string) : finfo :=
    {| f_name := n; f_abstract := VBool true; f_type := TString; f_cmin := 2; f_cmax := 3; f_attrs := [] |}.
  Definition m1 : fm :=
    {| root := Feature (inf "R")
         [Relation 1 1 [leaf "z"];
          Relation 0 1 [Feature (inf "y") [Relation 1 1 [leaf "q"];
                                           Relation 0 2 [leaf "p3"; leaf "p1"; leaf "p2"];
                                           Relation 1 1 [leaf "a"]]];
          Relation 1 1 [Feature (mk_info "x") [Relation 1 1 [leaf "x2"; leaf "x1"]]];
          Relation 0 1 [Feature (mk_info "w") [Relation 1 2 [leaf "w2"; leaf "w1"]]];
          Relation 1 1 [Feature (mk_info "v") [Relation 0 1 [leaf "v2"; leaf "v1"]; Relation 1 1 [leaf "v0"]]]];
       ctcs := [ {| c_name := "c1"; c_ast := bin REQUIRES (term "z") (un NOT (term "p1")) |};
                 {| c_name := "c0";
                    c_ast := bin AND (bin OR (term "z") (term "q"))
                               (bin XOR (term "a")
                                  (bin EQUIVALENCE (term "R")
                                     (bin EXCLUDES (term "x1") (bin IMPLIES (term "x2") (term "x"))))) |} ] |}.
  Definition m2 : fm := {| root := leaf "only"; ctcs := [] |}.
  Definition m3 : fm :=
    {| root := Feature (mk_info "r") [Relation 0 1 [leaf "b"]; Relation 1 1 [leaf "a"]; Relation 0 1 [leaf "c"]];
       ctcs := [ {| c_name := "k"; c_ast := bin EXCLUDES (term "a") (term "c") |} ] |}.
  Definition rt (m : fm) : option (fm * fm) :=
    match glencoe_write m with
    | Err _ => None
    | Ok d => match glencoe_read d with Err _ => None | Ok pm => Some (erase_fm pm, glencoe_norm m) end
    end.
  Definition rt_same (o : option (fm * fm)) : Prop := match o with Some (a, b) => a = b | None => False end.
  Example ok1 : glencoe_ok m1 = true. Proof. vm_compute. reflexivity. Qed.
  Example rt1 : rt_same (rt m1). Proof. vm_compute. reflexivity. Qed.
  Example rt2 : rt_same (rt m2). Proof. vm_compute. reflexivity. Qed.
  Example rt3 : rt_same (rt m3). Proof. vm_compute. reflexivity. Qed.
  (* [sort_by] puts an element after the earlier elements with an equal key: the sort is stable, as Python's sorted() is *)
  Example sort_by_stable :
    sort_by fst str_ltb [("b"%string, 0%nat); ("a"%string, 1%nat); ("b"%string, 3%nat); ("a"%string, 2%nat)]
    = [("a"%string, 1%nat); ("a"%string, 2%nat); ("b"%string, 0%nat); ("b"%string, 3%nat)].
  Proof. vm_compute. reflexivity. Qed.
End GlencoeExamples.

(* ========================================================================================== *)
(* Part 3: no relation of an accepted document is empty                                         *)
(* ========================================================================================== *)
Definition prel_ne (r : prelation) : bool :=
  negb (Nat.eqb (List.length (pr_children r)) 0) && forallb rels_nonempty_p (pr_children r).

Lemma gl_rels_nonempty_p_eq : forall i p a rs,
  rels_nonempty_p (PFeature i p a rs) = forallb prel_ne rs.
Proof.
  intros i p a rs. cbn [rels_nonempty_p].
  induction rs as [|[rp x y cs] rs IH]; [reflexivity|].
  cbn [forallb]. rewrite IH. reflexivity.
Qed.

Definition kids_ne (kids : list (pfeature * bool)) : Prop :=
  Forall (fun ko : pfeature * bool => rels_nonempty_p (fst ko) = true) kids.

Lemma gl_goc_ne rec fi here wh :
  (forall h c pc, rec h c = Ok pc -> rels_nonempty_p pc = true) ->
  forall chl p kids, gl_goc rec fi here wh p chl = Ok kids -> kids_ne kids.
Proof.
  intros Hrec. induction chl as [|c cs IH]; intros p kids H; cbn [gl_goc] in H.
  - injection H as <-. constructor.
  - destruct (rec (here ++ [wh p]) c) as [pc|e] eqn:Hpc; [|discriminate].
    destruct (gl_child_opt fi c) as [opt|e]; [|discriminate].
    destruct (gl_goc rec fi here wh (S p) cs) as [rest|e] eqn:Hrest; [|discriminate].
    injection H as <-. constructor; [exact (Hrec _ _ _ Hpc)|exact (IH _ _ Hrest)].
Qed.

(* one-child relations over kids whose own relations are non-empty *)
Lemma single_rels_ne here (lo : pfeature * bool -> Z) : forall kids,
  kids_ne kids ->
  forallb prel_ne (map (fun ko : pfeature * bool => PRelation (PPath here) (lo ko) 1%Z [fst ko]) kids) = true.
Proof.
  induction 1 as [|ko kids Hko _ IH]; [reflexivity|].
  cbn [map forallb]. rewrite IH, andb_true_r. unfold prel_ne.
  cbn [pr_children List.length Nat.eqb negb forallb andb]. rewrite Hko. reflexivity.
Qed.

Lemma kids_ne_filter (g : pfeature * bool -> bool) kids : kids_ne kids -> kids_ne (filter g kids).
Proof.
  induction 1 as [|ko kids Hko _ IH]; cbn [filter]; [constructor|].
  destruct (g ko); [constructor; assumption|exact IH].
Qed.

Lemma kids_ne_fst kids : kids_ne kids -> forallb rels_nonempty_p (map fst kids) = true.
Proof.
  induction 1 as [|ko kids Hko _ IH]; [reflexivity|]. cbn [map forallb]. rewrite Hko, IH. reflexivity.
Qed.

Lemma gl_build_ne fi fid fty info here parent kids pf :
  kids_ne kids -> gl_build fi fid fty info here parent kids = Ok pf -> rels_nonempty_p pf = true.
Proof.
  intros Hk H. unfold gl_build in H.
  destruct (String.eqb fty "FEATURE").
  - injection H as <-. rewrite gl_rels_nonempty_p_eq.
    exact (single_rels_ne here (fun ko => if snd ko then 0%Z else 1%Z) kids Hk).
  - cbv zeta in H.
    pose proof (single_rels_ne here (fun _ => 1%Z) _
                  (kids_ne_filter (fun ko : pfeature * bool => negb (snd ko)) kids Hk)) as Hs.
    pose proof (kids_ne_fst _ (kids_ne_filter (fun ko : pfeature * bool => snd ko) kids Hk)) as Hg.
    destruct (map fst (filter (fun ko : pfeature * bool => snd ko) kids)) as [|g0 gs] eqn:Eg.
    + injection H as <-. rewrite gl_rels_nonempty_p_eq. exact Hs.
    + match type of H with match ?G with _ => _ end = _ => destruct G as [[a b]|e]; [|discriminate] end.
      injection H as <-. rewrite gl_rels_nonempty_p_eq, forallb_app, Hs.
      cbn [forallb andb]. rewrite andb_true_r. unfold prel_ne. cbn [pr_children].
      rewrite Hg. reflexivity.
Qed.

Lemma glencoe_parse_tree_ne : forall fuel fi here parent node pf,
  glencoe_parse_tree fuel fi here parent node = Ok pf -> rels_nonempty_p pf = true.
Proof.
  induction fuel as [|fuel IH]; intros fi here parent node pf H; [discriminate|].
  rewrite glencoe_parse_tree_S in H.
  destruct (jget "id" node) as [fid|e]; [|discriminate].
  destruct (finfo_get fi fid "type") as [tyv|e]; [|discriminate].
  destruct (finfo_get fi fid "name") as [nmv|e]; [|discriminate].
  destruct (jstr tyv) as [fty|e]; [|discriminate].
  destruct (jstr nmv) as [fname|e]; [|discriminate].
  destruct (negb (gl_known_type fty)); [discriminate|].
  destruct (jhas "children" node).
  - destruct (jget "children" node) as [chv|e]; [|discriminate].
    destruct (jlist chv) as [chl|e]; [|discriminate].
    match type of H with match ?G with _ => _ end = _ => destruct G as [kids|e] eqn:Hgoc; [|discriminate] end.
    apply gl_goc_ne in Hgoc; [|intros h c pc Hp; exact (IH _ _ _ _ _ Hp)].
    eapply gl_build_ne; eassumption.
  - injection H as <-. reflexivity.
Qed.

Theorem glencoe_read_nonempty : forall d pm, glencoe_read d = Ok pm -> rels_nonempty_p (proot pm) = true.
Proof.
  intros d pm H. unfold glencoe_read in H.
  destruct (jget "features" d) as [fv|e]; [|discriminate].
  destruct (jget "tree" d) as [tv|e]; [|discriminate].
  match type of H with match ?G with _ => _ end = _ => destruct G as [cv|e]; [|discriminate] end.
  destruct (glencoe_parse_tree (aval_depth tv) fv [] PNone tv) as [pr|e] eqn:Hp; [|discriminate].
  destruct cv; try discriminate.
  match type of H with match ?G with _ => _ end = _ => destruct G as [cs|e]; [|discriminate] end.
  injection H as <-. cbn [proot].
  exact (glencoe_parse_tree_ne _ _ _ _ _ _ Hp).
Qed.

(* ---- concrete checks of the reader on hand-written documents ---- *)
(* an "OR" feature whose two children are both non-optional: two [1..1] one-child relations, no group relation *)
Example glencoe_read_all_mandatory_group :
  glencoe_read
    (VMap [("features",
            VMap [("r", VMap [("name", VStr "r"); ("optional", VBool false); ("type", VStr "OR")]);
                  ("a", VMap [("name", VStr "a"); ("optional", VBool false); ("type", VStr "FEATURE")]);
                  ("b", VMap [("name", VStr "b"); ("optional", VBool false); ("type", VStr "FEATURE")])]);
           ("tree", VMap [("id", VStr "r");
                          ("children", VList [VMap [("id", VStr "a")]; VMap [("id", VStr "b")]])]);
           ("constraints", VMap [])])
  = Ok {| proot :=
            PFeature (mk_info "r") PNone []
              [PRelation (PPath []) 1 1 [PFeature (mk_info "a") (PPath []) [] []];
               PRelation (PPath []) 1 1 [PFeature (mk_info "b") (PPath []) [] []]];
          pctcs := [] |}.
Proof. vm_compute. reflexivity. Qed.

(* an unknown feature type is a library error, with or without children *)
Example glencoe_read_unknown_type :
  glencoe_read
    (VMap [("features",
            VMap [("r", VMap [("name", VStr "r"); ("optional", VBool false); ("type", VStr "AND")]);
                  ("a", VMap [("name", VStr "a"); ("optional", VBool true); ("type", VStr "FEATURE")])]);
           ("tree", VMap [("id", VStr "r"); ("children", VList [VMap [("id", VStr "a")]])]);
           ("constraints", VMap [])])
  = Err FlamaException
  /\ glencoe_read
       (VMap [("features",
               VMap [("r", VMap [("name", VStr "r"); ("optional", VBool false); ("type", VStr "AND")])]);
              ("tree", VMap [("id", VStr "r")]);
              ("constraints", VMap [])])
     = Err FlamaException.
Proof. split; vm_compute; reflexivity. Qed.

Print Assumptions glencoe_read_ptr_wf.
Print Assumptions glencoe_read_ctc_shape.
Print Assumptions glencoe_write_total.
Print Assumptions glencoe_roundtrip.
Print Assumptions glencoe_norm_names.
Print Assumptions glencoe_norm_ctcs.
Print Assumptions glencoe_norm_idempotent.
Print Assumptions glencoe_norm_ok.
Print Assumptions glencoe_roundtrip_norm.
Print Assumptions glencoe_read_nonempty.

(* a root feature whose "name" is null is a library error; with a string it is read *)
Example glencoe_read_bad_name :
  glencoe_read
    (VMap [("features", VMap [("r", VMap [("name", VNone); ("optional", VBool false); ("type", VStr "FEATURE")])]);
           ("tree", VMap [("id", VStr "r")]);
           ("constraints", VMap [])])
  = Err FlamaException
  /\ glencoe_read
       (VMap [("features", VMap [("r", VMap [("name", VStr "r"); ("optional", VBool false); ("type", VStr "FEATURE")])]);
              ("tree", VMap [("id", VStr "r")]);
              ("constraints", VMap [])])
     = Ok {| proot := PFeature (mk_info "r") PNone [] []; pctcs := [] |}.
Proof. split; vm_compute; reflexivity. Qed.
Print Assumptions glencoe_read_bad_name.

(* a "GENOR" root over one optional child whose bound "min" is the string "1" is a library error; with the integer 1
   it is read *)
Definition ex_genor_doc (gmin : aval) : aval :=
  VMap [("features",
         VMap [("r", VMap [("name", VStr "r"); ("optional", VBool false); ("type", VStr "GENOR");
                           ("min", gmin); ("max", VInt 1)]);
               ("a", VMap [("name", VStr "a"); ("optional", VBool true); ("type", VStr "FEATURE")])]);
        ("tree", VMap [("id", VStr "r"); ("children", VList [VMap [("id", VStr "a")]])]);
        ("constraints", VMap [])].
Example glencoe_read_bad_bounds :
  glencoe_read (ex_genor_doc (VStr "1")) = Err FlamaException
  /\ glencoe_read (ex_genor_doc (VInt 1))
     = Ok {| proot := PFeature (mk_info "r") PNone []
                        [PRelation (PPath []) 1 1 [PFeature (mk_info "a") (PPath []) [] []]];
             pctcs := [] |}.
Proof. split; vm_compute; reflexivity. Qed.
Print Assumptions glencoe_read_bad_bounds.
