
(** val implb : bool -> bool -> bool **)

let implb b1 b2 =
  if b1 then b2 else true

(** val xorb : bool -> bool -> bool **)

let xorb b1 b2 =
  if b1 then if b2 then false else true else b2

(** val negb : bool -> bool **)

let negb = function
| true -> false
| false -> true

type nat =
| O
| S of nat

(** val option_map : ('a1 -> 'a2) -> 'a1 option -> 'a2 option **)

let option_map f = function
| Some a -> Some (f a)
| None -> None

(** val fst : ('a1 * 'a2) -> 'a1 **)

let fst = function
| (x, _) -> x

(** val snd : ('a1 * 'a2) -> 'a2 **)

let snd = function
| (_, y) -> y

(** val length : 'a1 list -> nat **)

let rec length = function
| [] -> O
| _ :: l' -> S (length l')

(** val app : 'a1 list -> 'a1 list -> 'a1 list **)

let rec app l m =
  match l with
  | [] -> m
  | a :: l1 -> a :: (app l1 m)

type comparison =
| Eq
| Lt
| Gt

(** val compOpp : comparison -> comparison **)

let compOpp = function
| Eq -> Eq
| Lt -> Gt
| Gt -> Lt

type uint =
| Nil
| D0 of uint
| D1 of uint
| D2 of uint
| D3 of uint
| D4 of uint
| D5 of uint
| D6 of uint
| D7 of uint
| D8 of uint
| D9 of uint

type signed_int =
| Pos of uint
| Neg of uint

(** val revapp : uint -> uint -> uint **)

let rec revapp d d' =
  match d with
  | Nil -> d'
  | D0 d0 -> revapp d0 (D0 d')
  | D1 d0 -> revapp d0 (D1 d')
  | D2 d0 -> revapp d0 (D2 d')
  | D3 d0 -> revapp d0 (D3 d')
  | D4 d0 -> revapp d0 (D4 d')
  | D5 d0 -> revapp d0 (D5 d')
  | D6 d0 -> revapp d0 (D6 d')
  | D7 d0 -> revapp d0 (D7 d')
  | D8 d0 -> revapp d0 (D8 d')
  | D9 d0 -> revapp d0 (D9 d')

(** val rev : uint -> uint **)

let rev d =
  revapp d Nil

module Little =
 struct
  (** val double : uint -> uint **)

  let rec double = function
  | Nil -> Nil
  | D0 d0 -> D0 (double d0)
  | D1 d0 -> D2 (double d0)
  | D2 d0 -> D4 (double d0)
  | D3 d0 -> D6 (double d0)
  | D4 d0 -> D8 (double d0)
  | D5 d0 -> D0 (succ_double d0)
  | D6 d0 -> D2 (succ_double d0)
  | D7 d0 -> D4 (succ_double d0)
  | D8 d0 -> D6 (succ_double d0)
  | D9 d0 -> D8 (succ_double d0)

  (** val succ_double : uint -> uint **)

  and succ_double = function
  | Nil -> D1 Nil
  | D0 d0 -> D1 (double d0)
  | D1 d0 -> D3 (double d0)
  | D2 d0 -> D5 (double d0)
  | D3 d0 -> D7 (double d0)
  | D4 d0 -> D9 (double d0)
  | D5 d0 -> D1 (succ_double d0)
  | D6 d0 -> D3 (succ_double d0)
  | D7 d0 -> D5 (succ_double d0)
  | D8 d0 -> D7 (succ_double d0)
  | D9 d0 -> D9 (succ_double d0)
 end

module Coq__1 = struct
 (** val add : nat -> nat -> nat **)
 let rec add n0 m =
   match n0 with
   | O -> m
   | S p -> S (add p m)
end
include Coq__1

(** val mul : nat -> nat -> nat **)

let rec mul n0 m =
  match n0 with
  | O -> O
  | S p -> add m (mul p m)

(** val sub : nat -> nat -> nat **)

let rec sub n0 m =
  match n0 with
  | O -> n0
  | S k -> (match m with
            | O -> n0
            | S l -> sub k l)

(** val eqb : bool -> bool -> bool **)

let eqb b1 b2 =
  if b1 then b2 else if b2 then false else true

type positive =
| XI of positive
| XO of positive
| XH

type n =
| N0
| Npos of positive

type z =
| Z0
| Zpos of positive
| Zneg of positive

module Nat =
 struct
  (** val eqb : nat -> nat -> bool **)

  let rec eqb n0 m =
    match n0 with
    | O -> (match m with
            | O -> true
            | S _ -> false)
    | S n' -> (match m with
               | O -> false
               | S m' -> eqb n' m')

  (** val leb : nat -> nat -> bool **)

  let rec leb n0 m =
    match n0 with
    | O -> true
    | S n' -> (match m with
               | O -> false
               | S m' -> leb n' m')

  (** val ltb : nat -> nat -> bool **)

  let ltb n0 m =
    leb (S n0) m

  (** val max : nat -> nat -> nat **)

  let rec max n0 m =
    match n0 with
    | O -> m
    | S n' -> (match m with
               | O -> n0
               | S m' -> S (max n' m'))

  (** val even : nat -> bool **)

  let rec even = function
  | O -> true
  | S n1 -> (match n1 with
             | O -> false
             | S n' -> even n')

  (** val divmod : nat -> nat -> nat -> nat -> nat * nat **)

  let rec divmod x y q u =
    match x with
    | O -> (q, u)
    | S x' ->
      (match u with
       | O -> divmod x' y (S q) y
       | S u' -> divmod x' y q u')

  (** val div : nat -> nat -> nat **)

  let div x y = match y with
  | O -> y
  | S y' -> fst (divmod x y' O y')
 end

module Pos =
 struct
  (** val succ : positive -> positive **)

  let rec succ = function
  | XI p -> XO (succ p)
  | XO p -> XI p
  | XH -> XO XH

  (** val add : positive -> positive -> positive **)

  let rec add x y =
    match x with
    | XI p ->
      (match y with
       | XI q -> XO (add_carry p q)
       | XO q -> XI (add p q)
       | XH -> XO (succ p))
    | XO p ->
      (match y with
       | XI q -> XI (add p q)
       | XO q -> XO (add p q)
       | XH -> XI p)
    | XH -> (match y with
             | XI q -> XO (succ q)
             | XO q -> XI q
             | XH -> XO XH)

  (** val add_carry : positive -> positive -> positive **)

  and add_carry x y =
    match x with
    | XI p ->
      (match y with
       | XI q -> XI (add_carry p q)
       | XO q -> XO (add_carry p q)
       | XH -> XI (succ p))
    | XO p ->
      (match y with
       | XI q -> XO (add_carry p q)
       | XO q -> XI (add p q)
       | XH -> XO (succ p))
    | XH ->
      (match y with
       | XI q -> XI (succ q)
       | XO q -> XO (succ q)
       | XH -> XI XH)

  (** val pred_double : positive -> positive **)

  let rec pred_double = function
  | XI p -> XI (XO p)
  | XO p -> XI (pred_double p)
  | XH -> XH

  (** val mul : positive -> positive -> positive **)

  let rec mul x y =
    match x with
    | XI p -> add y (XO (mul p y))
    | XO p -> XO (mul p y)
    | XH -> y

  (** val iter : ('a1 -> 'a1) -> 'a1 -> positive -> 'a1 **)

  let rec iter f x = function
  | XI n' -> f (iter f (iter f x n') n')
  | XO n' -> iter f (iter f x n') n'
  | XH -> f x

  (** val size : positive -> positive **)

  let rec size = function
  | XI p0 -> succ (size p0)
  | XO p0 -> succ (size p0)
  | XH -> XH

  (** val compare_cont : comparison -> positive -> positive -> comparison **)

  let rec compare_cont r x y =
    match x with
    | XI p ->
      (match y with
       | XI q -> compare_cont r p q
       | XO q -> compare_cont Gt p q
       | XH -> Gt)
    | XO p ->
      (match y with
       | XI q -> compare_cont Lt p q
       | XO q -> compare_cont r p q
       | XH -> Gt)
    | XH -> (match y with
             | XH -> r
             | _ -> Lt)

  (** val compare : positive -> positive -> comparison **)

  let compare =
    compare_cont Eq

  (** val eqb : positive -> positive -> bool **)

  let rec eqb p q =
    match p with
    | XI p0 -> (match q with
                | XI q0 -> eqb p0 q0
                | _ -> false)
    | XO p0 -> (match q with
                | XO q0 -> eqb p0 q0
                | _ -> false)
    | XH -> (match q with
             | XH -> true
             | _ -> false)

  (** val iter_op : ('a1 -> 'a1 -> 'a1) -> positive -> 'a1 -> 'a1 **)

  let rec iter_op op p a =
    match p with
    | XI p0 -> op a (iter_op op p0 (op a a))
    | XO p0 -> iter_op op p0 (op a a)
    | XH -> a

  (** val to_nat : positive -> nat **)

  let to_nat x =
    iter_op Coq__1.add x (S O)

  (** val of_succ_nat : nat -> positive **)

  let rec of_succ_nat = function
  | O -> XH
  | S x -> succ (of_succ_nat x)

  (** val of_uint_acc : uint -> positive -> positive **)

  let rec of_uint_acc d acc =
    match d with
    | Nil -> acc
    | D0 l -> of_uint_acc l (mul (XO (XI (XO XH))) acc)
    | D1 l -> of_uint_acc l (add XH (mul (XO (XI (XO XH))) acc))
    | D2 l -> of_uint_acc l (add (XO XH) (mul (XO (XI (XO XH))) acc))
    | D3 l -> of_uint_acc l (add (XI XH) (mul (XO (XI (XO XH))) acc))
    | D4 l -> of_uint_acc l (add (XO (XO XH)) (mul (XO (XI (XO XH))) acc))
    | D5 l -> of_uint_acc l (add (XI (XO XH)) (mul (XO (XI (XO XH))) acc))
    | D6 l -> of_uint_acc l (add (XO (XI XH)) (mul (XO (XI (XO XH))) acc))
    | D7 l -> of_uint_acc l (add (XI (XI XH)) (mul (XO (XI (XO XH))) acc))
    | D8 l ->
      of_uint_acc l (add (XO (XO (XO XH))) (mul (XO (XI (XO XH))) acc))
    | D9 l ->
      of_uint_acc l (add (XI (XO (XO XH))) (mul (XO (XI (XO XH))) acc))

  (** val of_uint : uint -> n **)

  let rec of_uint = function
  | Nil -> N0
  | D0 l -> of_uint l
  | D1 l -> Npos (of_uint_acc l XH)
  | D2 l -> Npos (of_uint_acc l (XO XH))
  | D3 l -> Npos (of_uint_acc l (XI XH))
  | D4 l -> Npos (of_uint_acc l (XO (XO XH)))
  | D5 l -> Npos (of_uint_acc l (XI (XO XH)))
  | D6 l -> Npos (of_uint_acc l (XO (XI XH)))
  | D7 l -> Npos (of_uint_acc l (XI (XI XH)))
  | D8 l -> Npos (of_uint_acc l (XO (XO (XO XH))))
  | D9 l -> Npos (of_uint_acc l (XI (XO (XO XH))))

  (** val to_little_uint : positive -> uint **)

  let rec to_little_uint = function
  | XI p0 -> Little.succ_double (to_little_uint p0)
  | XO p0 -> Little.double (to_little_uint p0)
  | XH -> D1 Nil

  (** val to_uint : positive -> uint **)

  let to_uint p =
    rev (to_little_uint p)
 end

module N =
 struct
  (** val add : n -> n -> n **)

  let add n0 m =
    match n0 with
    | N0 -> m
    | Npos p -> (match m with
                 | N0 -> n0
                 | Npos q -> Npos (Pos.add p q))

  (** val mul : n -> n -> n **)

  let mul n0 m =
    match n0 with
    | N0 -> N0
    | Npos p -> (match m with
                 | N0 -> N0
                 | Npos q -> Npos (Pos.mul p q))

  (** val compare : n -> n -> comparison **)

  let compare n0 m =
    match n0 with
    | N0 -> (match m with
             | N0 -> Eq
             | Npos _ -> Lt)
    | Npos n' -> (match m with
                  | N0 -> Gt
                  | Npos m' -> Pos.compare n' m')

  (** val leb : n -> n -> bool **)

  let leb x y =
    match compare x y with
    | Gt -> false
    | _ -> true

  (** val ltb : n -> n -> bool **)

  let ltb x y =
    match compare x y with
    | Lt -> true
    | _ -> false
 end

(** val zero : char **)

let zero = '\000'

(** val one : char **)

let one = '\001'

(** val shift : bool -> char -> char **)

let shift = fun b c -> Char.chr (((Char.code c) lsl 1) land 255 + if b then 1 else 0)

(** val ascii_of_pos : positive -> char **)

let ascii_of_pos =
  let rec loop n0 p =
    match n0 with
    | O -> zero
    | S n' ->
      (match p with
       | XI p' -> shift true (loop n' p')
       | XO p' -> shift false (loop n' p')
       | XH -> one)
  in loop (S (S (S (S (S (S (S (S O))))))))

(** val ascii_of_N : n -> char **)

let ascii_of_N = function
| N0 -> zero
| Npos p -> ascii_of_pos p

(** val n_of_digits : bool list -> n **)

let rec n_of_digits = function
| [] -> N0
| b :: l' ->
  N.add (if b then Npos XH else N0) (N.mul (Npos (XO XH)) (n_of_digits l'))

(** val n_of_ascii : char -> n **)

let n_of_ascii a =
  (* If this appears, you're using Ascii internals. Please don't *)
 (fun f c ->
  let n = Char.code c in
  let h i = (n land (1 lsl i)) <> 0 in
  f (h 0) (h 1) (h 2) (h 3) (h 4) (h 5) (h 6) (h 7))
    (fun a0 a1 a2 a3 a4 a5 a6 a7 ->
    n_of_digits
      (a0 :: (a1 :: (a2 :: (a3 :: (a4 :: (a5 :: (a6 :: (a7 :: [])))))))))
    a

(** val hd : 'a1 -> 'a1 list -> 'a1 **)

let hd default = function
| [] -> default
| x :: _ -> x

(** val nth : nat -> 'a1 list -> 'a1 -> 'a1 **)

let rec nth n0 l default =
  match n0 with
  | O -> (match l with
          | [] -> default
          | x :: _ -> x)
  | S m -> (match l with
            | [] -> default
            | _ :: t -> nth m t default)

(** val nth_error : 'a1 list -> nat -> 'a1 option **)

let rec nth_error l = function
| O -> (match l with
        | [] -> None
        | x :: _ -> Some x)
| S n1 -> (match l with
           | [] -> None
           | _ :: l0 -> nth_error l0 n1)

(** val last : 'a1 list -> 'a1 -> 'a1 **)

let rec last l d =
  match l with
  | [] -> d
  | a :: l0 -> (match l0 with
                | [] -> a
                | _ :: _ -> last l0 d)

(** val concat : 'a1 list list -> 'a1 list **)

let rec concat = function
| [] -> []
| x :: l0 -> app x (concat l0)

(** val map : ('a1 -> 'a2) -> 'a1 list -> 'a2 list **)

let rec map f = function
| [] -> []
| a :: t -> (f a) :: (map f t)

(** val flat_map : ('a1 -> 'a2 list) -> 'a1 list -> 'a2 list **)

let rec flat_map f = function
| [] -> []
| x :: t -> app (f x) (flat_map f t)

(** val fold_left : ('a1 -> 'a2 -> 'a1) -> 'a2 list -> 'a1 -> 'a1 **)

let rec fold_left f l a0 =
  match l with
  | [] -> a0
  | b :: t -> fold_left f t (f a0 b)

(** val fold_right : ('a2 -> 'a1 -> 'a1) -> 'a1 -> 'a2 list -> 'a1 **)

let rec fold_right f a0 = function
| [] -> a0
| b :: t -> f b (fold_right f a0 t)

(** val existsb : ('a1 -> bool) -> 'a1 list -> bool **)

let rec existsb f = function
| [] -> false
| a :: l0 -> (||) (f a) (existsb f l0)

(** val forallb : ('a1 -> bool) -> 'a1 list -> bool **)

let rec forallb f = function
| [] -> true
| a :: l0 -> (&&) (f a) (forallb f l0)

(** val filter : ('a1 -> bool) -> 'a1 list -> 'a1 list **)

let rec filter f = function
| [] -> []
| x :: l0 -> if f x then x :: (filter f l0) else filter f l0

(** val find : ('a1 -> bool) -> 'a1 list -> 'a1 option **)

let rec find f = function
| [] -> None
| x :: tl -> if f x then Some x else find f tl

(** val combine : 'a1 list -> 'a2 list -> ('a1 * 'a2) list **)

let rec combine l l' =
  match l with
  | [] -> []
  | x :: tl ->
    (match l' with
     | [] -> []
     | y :: tl' -> (x, y) :: (combine tl tl'))

(** val firstn : nat -> 'a1 list -> 'a1 list **)

let rec firstn n0 l =
  match n0 with
  | O -> []
  | S n1 -> (match l with
             | [] -> []
             | a :: l0 -> a :: (firstn n1 l0))

(** val skipn : nat -> 'a1 list -> 'a1 list **)

let rec skipn n0 l =
  match n0 with
  | O -> l
  | S n1 -> (match l with
             | [] -> []
             | _ :: l0 -> skipn n1 l0)

(** val seq : nat -> nat -> nat list **)

let rec seq start = function
| O -> []
| S len0 -> start :: (seq (S start) len0)

(** val repeat : 'a1 -> nat -> 'a1 list **)

let rec repeat x = function
| O -> []
| S k -> x :: (repeat x k)

(** val list_sum : nat list -> nat **)

let list_sum l =
  fold_right add O l

module Z =
 struct
  (** val double : z -> z **)

  let double = function
  | Z0 -> Z0
  | Zpos p -> Zpos (XO p)
  | Zneg p -> Zneg (XO p)

  (** val succ_double : z -> z **)

  let succ_double = function
  | Z0 -> Zpos XH
  | Zpos p -> Zpos (XI p)
  | Zneg p -> Zneg (Pos.pred_double p)

  (** val pred_double : z -> z **)

  let pred_double = function
  | Z0 -> Zneg XH
  | Zpos p -> Zpos (Pos.pred_double p)
  | Zneg p -> Zneg (XI p)

  (** val pos_sub : positive -> positive -> z **)

  let rec pos_sub x y =
    match x with
    | XI p ->
      (match y with
       | XI q -> double (pos_sub p q)
       | XO q -> succ_double (pos_sub p q)
       | XH -> Zpos (XO p))
    | XO p ->
      (match y with
       | XI q -> pred_double (pos_sub p q)
       | XO q -> double (pos_sub p q)
       | XH -> Zpos (Pos.pred_double p))
    | XH ->
      (match y with
       | XI q -> Zneg (XO q)
       | XO q -> Zneg (Pos.pred_double q)
       | XH -> Z0)

  (** val add : z -> z -> z **)

  let add x y =
    match x with
    | Z0 -> y
    | Zpos x' ->
      (match y with
       | Z0 -> x
       | Zpos y' -> Zpos (Pos.add x' y')
       | Zneg y' -> pos_sub x' y')
    | Zneg x' ->
      (match y with
       | Z0 -> x
       | Zpos y' -> pos_sub y' x'
       | Zneg y' -> Zneg (Pos.add x' y'))

  (** val opp : z -> z **)

  let opp = function
  | Z0 -> Z0
  | Zpos x0 -> Zneg x0
  | Zneg x0 -> Zpos x0

  (** val sub : z -> z -> z **)

  let sub m n0 =
    add m (opp n0)

  (** val mul : z -> z -> z **)

  let mul x y =
    match x with
    | Z0 -> Z0
    | Zpos x' ->
      (match y with
       | Z0 -> Z0
       | Zpos y' -> Zpos (Pos.mul x' y')
       | Zneg y' -> Zneg (Pos.mul x' y'))
    | Zneg x' ->
      (match y with
       | Z0 -> Z0
       | Zpos y' -> Zneg (Pos.mul x' y')
       | Zneg y' -> Zpos (Pos.mul x' y'))

  (** val pow_pos : z -> positive -> z **)

  let pow_pos z0 =
    Pos.iter (mul z0) (Zpos XH)

  (** val pow : z -> z -> z **)

  let pow x = function
  | Z0 -> Zpos XH
  | Zpos p -> pow_pos x p
  | Zneg _ -> Z0

  (** val compare : z -> z -> comparison **)

  let compare x y =
    match x with
    | Z0 -> (match y with
             | Z0 -> Eq
             | Zpos _ -> Lt
             | Zneg _ -> Gt)
    | Zpos x' -> (match y with
                  | Zpos y' -> Pos.compare x' y'
                  | _ -> Gt)
    | Zneg x' ->
      (match y with
       | Zneg y' -> compOpp (Pos.compare x' y')
       | _ -> Lt)

  (** val leb : z -> z -> bool **)

  let leb x y =
    match compare x y with
    | Gt -> false
    | _ -> true

  (** val ltb : z -> z -> bool **)

  let ltb x y =
    match compare x y with
    | Lt -> true
    | _ -> false

  (** val eqb : z -> z -> bool **)

  let eqb x y =
    match x with
    | Z0 -> (match y with
             | Z0 -> true
             | _ -> false)
    | Zpos p -> (match y with
                 | Zpos q -> Pos.eqb p q
                 | _ -> false)
    | Zneg p -> (match y with
                 | Zneg q -> Pos.eqb p q
                 | _ -> false)

  (** val max : z -> z -> z **)

  let max n0 m =
    match compare n0 m with
    | Lt -> m
    | _ -> n0

  (** val min : z -> z -> z **)

  let min n0 m =
    match compare n0 m with
    | Gt -> m
    | _ -> n0

  (** val abs : z -> z **)

  let abs = function
  | Zneg p -> Zpos p
  | x -> x

  (** val to_nat : z -> nat **)

  let to_nat = function
  | Zpos p -> Pos.to_nat p
  | _ -> O

  (** val of_nat : nat -> z **)

  let of_nat = function
  | O -> Z0
  | S n1 -> Zpos (Pos.of_succ_nat n1)

  (** val of_N : n -> z **)

  let of_N = function
  | N0 -> Z0
  | Npos p -> Zpos p

  (** val of_uint : uint -> z **)

  let of_uint d =
    of_N (Pos.of_uint d)

  (** val of_int : signed_int -> z **)

  let of_int = function
  | Pos d0 -> of_uint d0
  | Neg d0 -> opp (of_uint d0)

  (** val to_int : z -> signed_int **)

  let to_int = function
  | Z0 -> Pos (D0 Nil)
  | Zpos p -> Pos (Pos.to_uint p)
  | Zneg p -> Neg (Pos.to_uint p)

  (** val pos_div_eucl : positive -> z -> z * z **)

  let rec pos_div_eucl a b =
    match a with
    | XI a' ->
      let (q, r) = pos_div_eucl a' b in
      let r' = add (mul (Zpos (XO XH)) r) (Zpos XH) in
      if ltb r' b
      then ((mul (Zpos (XO XH)) q), r')
      else ((add (mul (Zpos (XO XH)) q) (Zpos XH)), (sub r' b))
    | XO a' ->
      let (q, r) = pos_div_eucl a' b in
      let r' = mul (Zpos (XO XH)) r in
      if ltb r' b
      then ((mul (Zpos (XO XH)) q), r')
      else ((add (mul (Zpos (XO XH)) q) (Zpos XH)), (sub r' b))
    | XH -> if leb (Zpos (XO XH)) b then (Z0, (Zpos XH)) else ((Zpos XH), Z0)

  (** val div_eucl : z -> z -> z * z **)

  let div_eucl a b =
    match a with
    | Z0 -> (Z0, Z0)
    | Zpos a' ->
      (match b with
       | Z0 -> (Z0, a)
       | Zpos _ -> pos_div_eucl a' b
       | Zneg b' ->
         let (q, r) = pos_div_eucl a' (Zpos b') in
         (match r with
          | Z0 -> ((opp q), Z0)
          | _ -> ((opp (add q (Zpos XH))), (add b r))))
    | Zneg a' ->
      (match b with
       | Z0 -> (Z0, a)
       | Zpos _ ->
         let (q, r) = pos_div_eucl a' b in
         (match r with
          | Z0 -> ((opp q), Z0)
          | _ -> ((opp (add q (Zpos XH))), (sub b r)))
       | Zneg b' -> let (q, r) = pos_div_eucl a' (Zpos b') in (q, (opp r)))

  (** val div : z -> z -> z **)

  let div a b =
    let (q, _) = div_eucl a b in q

  (** val modulo : z -> z -> z **)

  let modulo a b =
    let (_, r) = div_eucl a b in r

  (** val even : z -> bool **)

  let even = function
  | Z0 -> true
  | Zpos p -> (match p with
               | XO _ -> true
               | _ -> false)
  | Zneg p -> (match p with
               | XO _ -> true
               | _ -> false)

  (** val log2 : z -> z **)

  let log2 = function
  | Zpos p0 ->
    (match p0 with
     | XI p -> Zpos (Pos.size p)
     | XO p -> Zpos (Pos.size p)
     | XH -> Z0)
  | _ -> Z0
 end

(** val eqb0 : char list -> char list -> bool **)

let rec eqb0 s1 s2 =
  match s1 with
  | [] -> (match s2 with
           | [] -> true
           | _::_ -> false)
  | c1::s1' ->
    (match s2 with
     | [] -> false
     | c2::s2' -> if (=) c1 c2 then eqb0 s1' s2' else false)

(** val append : char list -> char list -> char list **)

let rec append s1 s2 =
  match s1 with
  | [] -> s2
  | c::s1' -> c::(append s1' s2)

(** val length0 : char list -> nat **)

let rec length0 = function
| [] -> O
| _::s' -> S (length0 s')

type exn =
| FlamaException
| ParsingException
| DuplicatedFeature
| KeyError
| IndexError
| TypeError
| ValueError
| AttributeError
| UnboundLocalError
| ZeroDivisionError
| NotImplementedError
| UnicodeDecodeError
| StatisticsError
| RuntimeError
| OtherExn

type 'a result =
| Ok of 'a
| Err of exn

(** val mapM : ('a1 -> 'a2 result) -> 'a1 list -> 'a2 list result **)

let rec mapM f = function
| [] -> Ok []
| x :: xs ->
  (match f x with
   | Ok y -> (match mapM f xs with
              | Ok ys -> Ok (y :: ys)
              | Err e -> Err e)
   | Err e -> Err e)

(** val omap : ('a1 -> 'a2 option) -> 'a1 list -> 'a2 list option **)

let rec omap f = function
| [] -> Some []
| x :: xs ->
  (match f x with
   | Some y -> (match omap f xs with
                | Some ys -> Some (y :: ys)
                | None -> None)
   | None -> None)

(** val uint_of_char : char -> uint option -> uint option **)

let uint_of_char a = function
| Some d0 ->
  (* If this appears, you're using Ascii internals. Please don't *)
 (fun f c ->
  let n = Char.code c in
  let h i = (n land (1 lsl i)) <> 0 in
  f (h 0) (h 1) (h 2) (h 3) (h 4) (h 5) (h 6) (h 7))
    (fun b b0 b1 b2 b3 b4 b5 b6 ->
    if b
    then if b0
         then if b1
              then if b2
                   then None
                   else if b3
                        then if b4
                             then if b5
                                  then None
                                  else if b6 then None else Some (D7 d0)
                             else None
                        else None
              else if b2
                   then None
                   else if b3
                        then if b4
                             then if b5
                                  then None
                                  else if b6 then None else Some (D3 d0)
                             else None
                        else None
         else if b1
              then if b2
                   then None
                   else if b3
                        then if b4
                             then if b5
                                  then None
                                  else if b6 then None else Some (D5 d0)
                             else None
                        else None
              else if b2
                   then if b3
                        then if b4
                             then if b5
                                  then None
                                  else if b6 then None else Some (D9 d0)
                             else None
                        else None
                   else if b3
                        then if b4
                             then if b5
                                  then None
                                  else if b6 then None else Some (D1 d0)
                             else None
                        else None
    else if b0
         then if b1
              then if b2
                   then None
                   else if b3
                        then if b4
                             then if b5
                                  then None
                                  else if b6 then None else Some (D6 d0)
                             else None
                        else None
              else if b2
                   then None
                   else if b3
                        then if b4
                             then if b5
                                  then None
                                  else if b6 then None else Some (D2 d0)
                             else None
                        else None
         else if b1
              then if b2
                   then None
                   else if b3
                        then if b4
                             then if b5
                                  then None
                                  else if b6 then None else Some (D4 d0)
                             else None
                        else None
              else if b2
                   then if b3
                        then if b4
                             then if b5
                                  then None
                                  else if b6 then None else Some (D8 d0)
                             else None
                        else None
                   else if b3
                        then if b4
                             then if b5
                                  then None
                                  else if b6 then None else Some (D0 d0)
                             else None
                        else None)
    a
| None -> None

module NilEmpty =
 struct
  (** val string_of_uint : uint -> char list **)

  let rec string_of_uint = function
  | Nil -> []
  | D0 d0 -> '0'::(string_of_uint d0)
  | D1 d0 -> '1'::(string_of_uint d0)
  | D2 d0 -> '2'::(string_of_uint d0)
  | D3 d0 -> '3'::(string_of_uint d0)
  | D4 d0 -> '4'::(string_of_uint d0)
  | D5 d0 -> '5'::(string_of_uint d0)
  | D6 d0 -> '6'::(string_of_uint d0)
  | D7 d0 -> '7'::(string_of_uint d0)
  | D8 d0 -> '8'::(string_of_uint d0)
  | D9 d0 -> '9'::(string_of_uint d0)

  (** val uint_of_string : char list -> uint option **)

  let rec uint_of_string = function
  | [] -> Some Nil
  | a::s0 -> uint_of_char a (uint_of_string s0)
 end

module NilZero =
 struct
  (** val string_of_uint : uint -> char list **)

  let string_of_uint d = match d with
  | Nil -> '0'::[]
  | _ -> NilEmpty.string_of_uint d

  (** val uint_of_string : char list -> uint option **)

  let uint_of_string s = match s with
  | [] -> None
  | _::_ -> NilEmpty.uint_of_string s

  (** val string_of_int : signed_int -> char list **)

  let string_of_int = function
  | Pos d0 -> string_of_uint d0
  | Neg d0 -> '-'::(string_of_uint d0)

  (** val int_of_string : char list -> signed_int option **)

  let int_of_string s = match s with
  | [] -> None
  | a::s' ->
    if (=) a '-'
    then option_map (fun x -> Neg x) (uint_of_string s')
    else option_map (fun x -> Pos x) (uint_of_string s)
 end

(** val ascii_n : char -> n **)

let ascii_n =
  n_of_ascii

(** val between : n -> n -> char -> bool **)

let between lo hi c =
  (&&) (N.leb lo (ascii_n c)) (N.leb (ascii_n c) hi)

(** val is_upper : char -> bool **)

let is_upper c =
  between (Npos (XI (XO (XO (XO (XO (XO XH))))))) (Npos (XO (XI (XO (XI (XI
    (XO XH))))))) c

(** val is_lower : char -> bool **)

let is_lower c =
  between (Npos (XI (XO (XO (XO (XO (XI XH))))))) (Npos (XO (XI (XO (XI (XI
    (XI XH))))))) c

(** val is_digit : char -> bool **)

let is_digit c =
  between (Npos (XO (XO (XO (XO (XI XH)))))) (Npos (XI (XO (XO (XI (XI
    XH)))))) c

(** val is_alpha : char -> bool **)

let is_alpha c =
  (||) (is_upper c) (is_lower c)

(** val is_alnum : char -> bool **)

let is_alnum c =
  (||) (is_alpha c) (is_digit c)

(** val is_safechar : char -> bool **)

let is_safechar c =
  (||) (is_alnum c) ((=) c '_')

(** val str_forallb : (char -> bool) -> char list -> bool **)

let rec str_forallb p = function
| [] -> true
| c::s' -> (&&) (p c) (str_forallb p s')

(** val str_existsb : (char -> bool) -> char list -> bool **)

let rec str_existsb p = function
| [] -> false
| c::s' -> (||) (p c) (str_existsb p s')

(** val str_rev_acc : char list -> char list -> char list **)

let rec str_rev_acc s acc =
  match s with
  | [] -> acc
  | c::s' -> str_rev_acc s' (c::acc)

(** val str_rev : char list -> char list **)

let str_rev s =
  str_rev_acc s []

(** val str_first : char list -> char option **)

let str_first = function
| [] -> None
| c::_ -> Some c

(** val str_last : char list -> char option **)

let str_last s =
  str_first (str_rev s)

(** val starts_with_char : char -> char list -> bool **)

let starts_with_char c = function
| [] -> false
| d::_ -> (=) c d

(** val ends_with_char : char -> char list -> bool **)

let ends_with_char c s =
  match str_last s with
  | Some d -> (=) c d
  | None -> false

(** val ascii_lower : char -> char **)

let ascii_lower c =
  if is_upper c
  then ascii_of_N (N.add (ascii_n c) (Npos (XO (XO (XO (XO (XO XH)))))))
  else c

(** val str_map : (char -> char) -> char list -> char list **)

let rec str_map f = function
| [] -> []
| c::s' -> (f c)::(str_map f s')

(** val str_lower : char list -> char list **)

let str_lower =
  str_map ascii_lower

(** val str_join : char list -> char list list -> char list **)

let rec str_join sep = function
| [] -> []
| x :: xs ->
  (match xs with
   | [] -> x
   | _ :: _ -> append x (append sep (str_join sep xs)))

(** val str_concat : char list list -> char list **)

let str_concat l =
  fold_right append [] l

(** val str_split_aux : char -> char list -> char list -> char list list **)

let rec str_split_aux c s cur =
  match s with
  | [] -> (str_rev cur) :: []
  | d::s' ->
    if (=) c d
    then (str_rev cur) :: (str_split_aux c s' [])
    else str_split_aux c s' (d::cur)

(** val str_split : char -> char list -> char list list **)

let str_split c s =
  str_split_aux c s []

(** val str_remove_char : char -> char list -> char list **)

let rec str_remove_char c = function
| [] -> []
| d::s' -> if (=) c d then str_remove_char c s' else d::(str_remove_char c s')

(** val str_contains_char : char -> char list -> bool **)

let str_contains_char c s =
  str_existsb ((=) c) s

(** val str_ltb : char list -> char list -> bool **)

let rec str_ltb a b =
  match a with
  | [] -> (match b with
           | [] -> false
           | _::_ -> true)
  | x::a' ->
    (match b with
     | [] -> false
     | y::b' ->
       if N.ltb (ascii_n x) (ascii_n y)
       then true
       else if N.ltb (ascii_n y) (ascii_n x) then false else str_ltb a' b')

(** val z_to_string : z -> char list **)

let z_to_string z0 =
  NilZero.string_of_int (Z.to_int z0)

(** val string_to_z : char list -> z option **)

let string_to_z s =
  match NilZero.int_of_string s with
  | Some i -> Some (Z.of_int i)
  | None -> None

(** val quote : char list -> char list **)

let quote s =
  append ('"'::[]) (append s ('"'::[]))

(** val core_safe_simple_name : char list -> char list **)

let core_safe_simple_name name0 =
  if (&&) (starts_with_char '\'' name0) (ends_with_char '\'' name0)
  then name0
  else if str_forallb is_safechar name0 then name0 else quote name0

(** val core_safename : char list -> char list **)

let core_safename name0 =
  if str_contains_char '.' name0
  then str_join ('.'::[]) (map core_safe_simple_name (str_split '.' name0))
  else core_safe_simple_name name0

(** val list_existsb_eq : char list -> char list list -> bool **)

let rec list_existsb_eq s = function
| [] -> false
| x :: xs -> (||) (eqb0 s x) (list_existsb_eq s xs)

(** val nodupb : char list list -> bool **)

let rec nodupb = function
| [] -> true
| x :: xs -> (&&) (negb (list_existsb_eq x xs)) (nodupb xs)

(** val str_take : nat -> char list -> char list **)

let rec str_take n0 s =
  match n0 with
  | O -> []
  | S n' -> (match s with
             | [] -> []
             | c::r -> c::(str_take n' r))

(** val str_drop : nat -> char list -> char list **)

let rec str_drop n0 s =
  match n0 with
  | O -> s
  | S n' -> (match s with
             | [] -> []
             | _::r -> str_drop n' r)

(** val str_zeros : nat -> char list **)

let rec str_zeros = function
| O -> []
| S n' -> '0'::(str_zeros n')

(** val py_positional : char list -> char list option **)

let py_positional r =
  let neg = starts_with_char '-' r in
  let body = if neg then str_drop (S O) r else r in
  if str_forallb (fun c ->
       (||)
         ((||) ((||) ((||) (is_digit c) ((=) c '.')) ((=) c 'e')) ((=) c '+'))
         ((=) c '-')) body
  then (match str_split 'e' body with
        | [] -> None
        | m :: l ->
          (match l with
           | [] -> Some r
           | ex :: l0 ->
             (match l0 with
              | [] ->
                (match string_to_z (str_remove_char '+' ex) with
                 | Some e ->
                   let parts = str_split '.' m in
                   let ip = match parts with
                            | [] -> []
                            | x :: _ -> x in
                   let fp =
                     match parts with
                     | [] -> []
                     | _ :: l1 -> (match l1 with
                                   | [] -> []
                                   | y :: _ -> y)
                   in
                   let digits = append ip fp in
                   let pos = Z.add (Z.of_nat (length0 ip)) e in
                   let len = Z.of_nat (length0 digits) in
                   let text =
                     if Z.leb len pos
                     then append digits
                            (append (str_zeros (Z.to_nat (Z.sub pos len)))
                              ('.'::('0'::[])))
                     else if Z.ltb Z0 pos
                          then append (str_take (Z.to_nat pos) digits)
                                 (append ('.'::[])
                                   (str_drop (Z.to_nat pos) digits))
                          else append ('0'::('.'::[]))
                                 (append (str_zeros (Z.to_nat (Z.opp pos)))
                                   digits)
                   in
                   Some (if neg then '-'::text else text)
                 | None -> None)
              | _ :: _ -> None)))
  else None

type sexp =
| SAtom of char list
| SStr of char list
| SList of sexp list

(** val e_z : z -> sexp **)

let e_z z0 =
  SAtom (z_to_string z0)

(** val e_nat : nat -> sexp **)

let e_nat n0 =
  e_z (Z.of_nat n0)

(** val e_bool : bool -> sexp **)

let e_bool b =
  SAtom
    (if b
     then 't'::('r'::('u'::('e'::[])))
     else 'f'::('a'::('l'::('s'::('e'::[])))))

(** val e_list : ('a1 -> sexp) -> 'a1 list -> sexp **)

let e_list f l =
  SList (map f l)

(** val e_opt : ('a1 -> sexp) -> 'a1 option -> sexp **)

let e_opt f = function
| Some a -> f a
| None -> SAtom ('n'::('i'::('l'::[])))

(** val e_tag : char list -> sexp list -> sexp **)

let e_tag t l =
  SList ((SAtom t) :: l)

(** val e_bits : bool list -> sexp **)

let e_bits l =
  SAtom (str_concat (map (fun b -> if b then '1'::[] else '0'::[]) l))

(** val exn_name : exn -> char list **)

let exn_name = function
| FlamaException ->
  'F'::('l'::('a'::('m'::('a'::('E'::('x'::('c'::('e'::('p'::('t'::('i'::('o'::('n'::[])))))))))))))
| ParsingException ->
  'P'::('a'::('r'::('s'::('i'::('n'::('g'::('E'::('x'::('c'::('e'::('p'::('t'::('i'::('o'::('n'::[])))))))))))))))
| DuplicatedFeature ->
  'D'::('u'::('p'::('l'::('i'::('c'::('a'::('t'::('e'::('d'::('F'::('e'::('a'::('t'::('u'::('r'::('e'::[]))))))))))))))))
| KeyError -> 'K'::('e'::('y'::('E'::('r'::('r'::('o'::('r'::[])))))))
| IndexError ->
  'I'::('n'::('d'::('e'::('x'::('E'::('r'::('r'::('o'::('r'::[])))))))))
| TypeError -> 'T'::('y'::('p'::('e'::('E'::('r'::('r'::('o'::('r'::[]))))))))
| ValueError ->
  'V'::('a'::('l'::('u'::('e'::('E'::('r'::('r'::('o'::('r'::[])))))))))
| AttributeError ->
  'A'::('t'::('t'::('r'::('i'::('b'::('u'::('t'::('e'::('E'::('r'::('r'::('o'::('r'::[])))))))))))))
| UnboundLocalError ->
  'U'::('n'::('b'::('o'::('u'::('n'::('d'::('L'::('o'::('c'::('a'::('l'::('E'::('r'::('r'::('o'::('r'::[]))))))))))))))))
| ZeroDivisionError ->
  'Z'::('e'::('r'::('o'::('D'::('i'::('v'::('i'::('s'::('i'::('o'::('n'::('E'::('r'::('r'::('o'::('r'::[]))))))))))))))))
| NotImplementedError ->
  'N'::('o'::('t'::('I'::('m'::('p'::('l'::('e'::('m'::('e'::('n'::('t'::('e'::('d'::('E'::('r'::('r'::('o'::('r'::[]))))))))))))))))))
| UnicodeDecodeError ->
  'U'::('n'::('i'::('c'::('o'::('d'::('e'::('D'::('e'::('c'::('o'::('d'::('e'::('E'::('r'::('r'::('o'::('r'::[])))))))))))))))))
| StatisticsError ->
  'S'::('t'::('a'::('t'::('i'::('s'::('t'::('i'::('c'::('s'::('E'::('r'::('r'::('o'::('r'::[]))))))))))))))
| RuntimeError ->
  'R'::('u'::('n'::('t'::('i'::('m'::('e'::('E'::('r'::('r'::('o'::('r'::[])))))))))))
| OtherExn -> 'O'::('t'::('h'::('e'::('r'::[]))))

(** val e_result : ('a1 -> sexp) -> 'a1 result -> sexp **)

let e_result f = function
| Ok a -> e_tag ('o'::('k'::[])) ((f a) :: [])
| Err e -> e_tag ('e'::('r'::('r'::[]))) ((SAtom (exn_name e)) :: [])

(** val d_str : sexp -> char list option **)

let d_str = function
| SStr x -> Some x
| _ -> None

(** val d_z : sexp -> z option **)

let d_z = function
| SAtom x -> string_to_z x
| _ -> None

(** val d_nat : sexp -> nat option **)

let d_nat s =
  match d_z s with
  | Some z0 -> if Z.leb Z0 z0 then Some (Z.to_nat z0) else None
  | None -> None

(** val d_bool : sexp -> bool option **)

let d_bool = function
| SAtom x ->
  if eqb0 x ('t'::('r'::('u'::('e'::[]))))
  then Some true
  else if eqb0 x ('f'::('a'::('l'::('s'::('e'::[])))))
       then Some false
       else None
| _ -> None

(** val is_nil : sexp -> bool **)

let is_nil = function
| SAtom x -> eqb0 x ('n'::('i'::('l'::[])))
| _ -> false

type astop =
| REQUIRES
| EXCLUDES
| AND
| OR
| XOR
| IMPLIES
| NOT
| EQUIVALENCE
| EQUALS
| LOWER
| GREATER
| LOWER_EQUALS
| GREATER_EQUALS
| NOT_EQUALS
| ADD
| SUB
| MUL
| DIV
| SUM
| AVG
| LEN
| FLOOR
| CEIL

(** val astop_eqb : astop -> astop -> bool **)

let astop_eqb a b =
  match a with
  | REQUIRES -> (match b with
                 | REQUIRES -> true
                 | _ -> false)
  | EXCLUDES -> (match b with
                 | EXCLUDES -> true
                 | _ -> false)
  | AND -> (match b with
            | AND -> true
            | _ -> false)
  | OR -> (match b with
           | OR -> true
           | _ -> false)
  | XOR -> (match b with
            | XOR -> true
            | _ -> false)
  | IMPLIES -> (match b with
                | IMPLIES -> true
                | _ -> false)
  | NOT -> (match b with
            | NOT -> true
            | _ -> false)
  | EQUIVALENCE -> (match b with
                    | EQUIVALENCE -> true
                    | _ -> false)
  | EQUALS -> (match b with
               | EQUALS -> true
               | _ -> false)
  | LOWER -> (match b with
              | LOWER -> true
              | _ -> false)
  | GREATER -> (match b with
                | GREATER -> true
                | _ -> false)
  | LOWER_EQUALS -> (match b with
                     | LOWER_EQUALS -> true
                     | _ -> false)
  | GREATER_EQUALS -> (match b with
                       | GREATER_EQUALS -> true
                       | _ -> false)
  | NOT_EQUALS -> (match b with
                   | NOT_EQUALS -> true
                   | _ -> false)
  | ADD -> (match b with
            | ADD -> true
            | _ -> false)
  | SUB -> (match b with
            | SUB -> true
            | _ -> false)
  | MUL -> (match b with
            | MUL -> true
            | _ -> false)
  | DIV -> (match b with
            | DIV -> true
            | _ -> false)
  | SUM -> (match b with
            | SUM -> true
            | _ -> false)
  | AVG -> (match b with
            | AVG -> true
            | _ -> false)
  | LEN -> (match b with
            | LEN -> true
            | _ -> false)
  | FLOOR -> (match b with
              | FLOOR -> true
              | _ -> false)
  | CEIL -> (match b with
             | CEIL -> true
             | _ -> false)

(** val astop_value : astop -> char list **)

let astop_value = function
| REQUIRES -> 'R'::('E'::('Q'::('U'::('I'::('R'::('E'::('S'::[])))))))
| EXCLUDES -> 'E'::('X'::('C'::('L'::('U'::('D'::('E'::('S'::[])))))))
| AND -> 'A'::('N'::('D'::[]))
| OR -> 'O'::('R'::[])
| XOR -> 'X'::('O'::('R'::[]))
| IMPLIES -> 'I'::('M'::('P'::('L'::('I'::('E'::('S'::[]))))))
| NOT -> 'N'::('O'::('T'::[]))
| EQUIVALENCE ->
  'E'::('Q'::('U'::('I'::('V'::('A'::('L'::('E'::('N'::('C'::('E'::[]))))))))))
| EQUALS -> 'E'::('Q'::('U'::('A'::('L'::('S'::[])))))
| LOWER -> 'L'::('O'::('W'::('E'::('R'::[]))))
| GREATER -> 'G'::('R'::('E'::('A'::('T'::('E'::('R'::[]))))))
| LOWER_EQUALS ->
  'L'::('O'::('W'::('E'::('R'::('_'::('E'::('Q'::('U'::('A'::('L'::('S'::[])))))))))))
| GREATER_EQUALS ->
  'G'::('R'::('E'::('A'::('T'::('E'::('R'::('_'::('E'::('Q'::('U'::('A'::('L'::('S'::[])))))))))))))
| NOT_EQUALS ->
  'N'::('O'::('T'::('_'::('E'::('Q'::('U'::('A'::('L'::('S'::[])))))))))
| ADD -> 'A'::('D'::('D'::[]))
| SUB -> 'S'::('U'::('B'::[]))
| MUL -> 'M'::('U'::('L'::[]))
| DIV -> 'D'::('I'::('V'::[]))
| SUM -> 'S'::('U'::('M'::[]))
| AVG -> 'A'::('V'::('G'::[]))
| LEN -> 'L'::('E'::('N'::[]))
| FLOOR -> 'F'::('L'::('O'::('O'::('R'::[]))))
| CEIL -> 'C'::('E'::('I'::('L'::[])))

(** val all_astops : astop list **)

let all_astops =
  REQUIRES :: (EXCLUDES :: (AND :: (OR :: (XOR :: (IMPLIES :: (NOT :: (EQUIVALENCE :: (EQUALS :: (LOWER :: (GREATER :: (LOWER_EQUALS :: (GREATER_EQUALS :: (NOT_EQUALS :: (ADD :: (SUB :: (MUL :: (DIV :: (SUM :: (AVG :: (LEN :: (FLOOR :: (CEIL :: []))))))))))))))))))))))

(** val astop_of_value : char list -> astop option **)

let astop_of_value s =
  find (fun o -> eqb0 (astop_value o) s) all_astops

(** val op_in : astop -> astop list -> bool **)

let op_in o l =
  existsb (astop_eqb o) l

(** val logical_ops : astop list **)

let logical_ops =
  REQUIRES :: (EXCLUDES :: (AND :: (OR :: (XOR :: (IMPLIES :: (NOT :: (EQUIVALENCE :: [])))))))

(** val arithmetic_ops : astop list **)

let arithmetic_ops =
  ADD :: (SUB :: (MUL :: (DIV :: (EQUALS :: (LOWER :: (GREATER :: (LOWER_EQUALS :: (GREATER_EQUALS :: (NOT_EQUALS :: [])))))))))

(** val aggregation_ops : astop list **)

let aggregation_ops =
  SUM :: (AVG :: (LEN :: (FLOOR :: (CEIL :: []))))

type ndata =
| DOp of astop
| DStr of char list
| DInt of z
| DFloat of char list
| DBool of bool

type node =
| Node of ndata * node option * node option

(** val n_data : node -> ndata **)

let n_data = function
| Node (d, _, _) -> d

(** val n_left : node -> node option **)

let n_left = function
| Node (_, l, _) -> l

(** val n_right : node -> node option **)

let n_right = function
| Node (_, _, r) -> r

(** val term : char list -> node **)

let term s =
  Node ((DStr s), None, None)

(** val un : astop -> node -> node **)

let un o a =
  Node ((DOp o), (Some a), None)

(** val bin : astop -> node -> node -> node **)

let bin o a b =
  Node ((DOp o), (Some a), (Some b))

(** val data_str : ndata -> char list **)

let data_str = function
| DOp o ->
  append
    ('A'::('S'::('T'::('O'::('p'::('e'::('r'::('a'::('t'::('i'::('o'::('n'::('.'::[])))))))))))))
    (astop_value o)
| DStr s -> s
| DInt z0 -> z_to_string z0
| DFloat r -> r
| DBool b ->
  if b
  then 'T'::('r'::('u'::('e'::[])))
  else 'F'::('a'::('l'::('s'::('e'::[]))))

(** val is_op : node -> bool **)

let is_op n0 =
  match n_data n0 with
  | DOp _ -> true
  | _ -> false

(** val is_term : node -> bool **)

let is_term n0 =
  negb (is_op n0)

(** val is_unary_op : node -> bool **)

let is_unary_op n0 =
  match n_data n0 with
  | DOp o -> op_in o (NOT :: [])
  | _ -> false

(** val is_unique_term : node -> bool **)

let is_unique_term n0 =
  (&&) (negb (is_op n0)) (match n_left n0 with
                          | Some _ -> false
                          | None -> true)

(** val is_aggregate_op : node -> bool **)

let is_aggregate_op n0 =
  match n_data n0 with
  | DOp o -> op_in o aggregation_ops
  | _ -> false

(** val is_binary_op : node -> bool **)

let is_binary_op n0 =
  (&&) ((&&) (negb (is_unique_term n0)) (negb (is_unary_op n0)))
    (negb (is_aggregate_op n0))

(** val data_label : ndata -> char list **)

let data_label d = match d with
| DOp o -> astop_value o
| _ -> core_safename (data_str d)

(** val node_str : node -> char list **)

let rec node_str = function
| Node (d, l, r) ->
  let data = data_label d in
  (match l with
   | Some a ->
     (match r with
      | Some b ->
        append data
          (append ('['::[])
            (append (node_str a)
              (append (']'::('['::[])) (append (node_str b) (']'::[])))))
      | None ->
        append data
          (append ('['::[]) (append (node_str a) (']'::('['::(']'::[]))))))
   | None ->
     (match r with
      | Some b ->
        append data
          (append ('['::(']'::('['::[]))) (append (node_str b) (']'::[])))
      | None -> data))

(** val pretty_str : node -> char list result **)

let rec pretty_str n0 = match n0 with
| Node (d, l, r) ->
  let sub0 = fun c ->
    match c with
    | Some x ->
      if is_op x
      then (match pretty_str x with
            | Ok s ->
              if is_binary_op x
              then Ok (append ('('::[]) (append s (')'::[])))
              else Ok s
            | Err e -> Err e)
      else Ok (node_str x)
    | None -> Ok []
  in
  (match sub0 l with
   | Ok sl ->
     (match sub0 r with
      | Ok sr ->
        let data = data_label d in
        if is_unique_term n0
        then Ok data
        else if is_unary_op n0
             then Ok (append data (append (' '::[]) sl))
             else if is_aggregate_op n0
                  then (match r with
                        | Some _ ->
                          Ok
                            (append data
                              (append ('('::[])
                                (append sl
                                  (append (','::(' '::[]))
                                    (append sr (')'::[]))))))
                        | None -> Err UnboundLocalError)
                  else Ok
                         (append sl
                           (append (' '::[])
                             (append data (append (' '::[]) sr))))
      | Err e -> Err e)
   | Err e -> Err e)

(** val self_op : node -> astop list **)

let self_op n0 =
  match n_data n0 with
  | DOp o -> o :: []
  | _ -> []

(** val get_operators : node -> astop list **)

let rec get_operators n0 = match n0 with
| Node (_, l, r) ->
  let ol = match l with
           | Some a -> get_operators a
           | None -> [] in
  let or_ = match r with
            | Some b -> get_operators b
            | None -> [] in
  if is_unary_op n0
  then app (self_op n0) ol
  else if is_binary_op n0 then app (self_op n0) (app ol or_) else self_op n0

(** val get_operands : node -> ndata list **)

let rec get_operands n0 = match n0 with
| Node (d, l, r) ->
  let ol = match l with
           | Some a -> get_operands a
           | None -> [] in
  let or_ = match r with
            | Some b -> get_operands b
            | None -> [] in
  if is_term n0
  then d :: []
  else if is_unary_op n0
       then ol
       else if is_binary_op n0 then app ol or_ else []

(** val data_is : astop -> node -> bool **)

let data_is o n0 =
  match n_data n0 with
  | DOp o' -> astop_eqb o o'
  | _ -> false

(** val nsize : node -> nat **)

let rec nsize = function
| Node (_, l, r) ->
  S
    (add (match l with
          | Some a -> nsize a
          | None -> O) (match r with
                        | Some b -> nsize b
                        | None -> O))

(** val need : node option -> node result **)

let need = function
| Some x -> Ok x
| None -> Err AttributeError

(** val simplify_fuel : nat -> node -> node result **)

let rec simplify_fuel fuel n0 =
  match fuel with
  | O -> Err OtherExn
  | S fuel' ->
    let s' = simplify_fuel fuel' in
    let sub0 = fun c -> match need c with
                        | Ok x -> s' x
                        | Err e -> Err e in
    let Node (d, l, r) = n0 in
    (match d with
     | DOp o ->
       (match o with
        | REQUIRES ->
          (match sub0 l with
           | Ok l' ->
             (match sub0 r with
              | Ok r' -> Ok (bin OR (un NOT l') r')
              | Err e -> Err e)
           | Err e -> Err e)
        | EXCLUDES ->
          (match sub0 l with
           | Ok l' ->
             (match sub0 r with
              | Ok r' -> Ok (bin OR (un NOT l') (un NOT r'))
              | Err e -> Err e)
           | Err e -> Err e)
        | AND ->
          (match sub0 l with
           | Ok l' ->
             (match sub0 r with
              | Ok r' -> Ok (bin AND l' r')
              | Err e -> Err e)
           | Err e -> Err e)
        | OR ->
          (match sub0 l with
           | Ok l' ->
             (match sub0 r with
              | Ok r' -> Ok (bin OR l' r')
              | Err e -> Err e)
           | Err e -> Err e)
        | XOR ->
          (match s' (Node ((DOp AND), l, (Some (Node ((DOp NOT), r, None))))) with
           | Ok l1 ->
             (match s' (Node ((DOp AND), (Some (Node ((DOp NOT), (Some l1),
                      None))), r)) with
              | Ok l2 -> Ok (Node ((DOp OR), (Some l2), r))
              | Err e -> Err e)
           | Err e -> Err e)
        | IMPLIES ->
          (match sub0 l with
           | Ok l' ->
             (match sub0 r with
              | Ok r' -> Ok (bin OR (un NOT l') r')
              | Err e -> Err e)
           | Err e -> Err e)
        | NOT -> (match sub0 l with
                  | Ok l' -> Ok (un NOT l')
                  | Err e -> Err e)
        | EQUIVALENCE ->
          (match s' (Node ((DOp IMPLIES), l, r)) with
           | Ok l' ->
             (match s' (Node ((DOp IMPLIES), r, (Some l'))) with
              | Ok r' -> Ok (bin AND l' r')
              | Err e -> Err e)
           | Err e -> Err e)
        | _ -> Ok n0)
     | _ -> Ok n0)

(** val propagate_negation : node -> bool -> node result **)

let rec propagate_negation n0 negated =
  let Node (d, l, r) = n0 in
  (match d with
   | DOp o ->
     (match o with
      | AND ->
        (match l with
         | Some a ->
           (match r with
            | Some b ->
              (match propagate_negation a negated with
               | Ok a' ->
                 (match propagate_negation b negated with
                  | Ok b' -> Ok (bin (if negated then OR else AND) a' b')
                  | Err e -> Err e)
               | Err e -> Err e)
            | None -> Err AttributeError)
         | None -> Err AttributeError)
      | OR ->
        (match l with
         | Some a ->
           (match r with
            | Some b ->
              (match propagate_negation a negated with
               | Ok a' ->
                 (match propagate_negation b negated with
                  | Ok b' -> Ok (bin (if negated then AND else OR) a' b')
                  | Err e -> Err e)
               | Err e -> Err e)
            | None -> Err AttributeError)
         | None -> Err AttributeError)
      | NOT ->
        (match l with
         | Some a -> propagate_negation a (negb negated)
         | None -> Err AttributeError)
      | _ -> Ok (if negated then un NOT n0 else n0))
   | _ -> Ok (if negated then un NOT n0 else n0))

(** val to_cnf_fuel : nat -> node -> node result **)

let rec to_cnf_fuel fuel n0 =
  match fuel with
  | O -> Err OtherExn
  | S fuel' ->
    let c = to_cnf_fuel fuel' in
    let sub0 = fun c0 -> match need c0 with
                         | Ok x -> c x
                         | Err e -> Err e in
    let Node (d, l, r) = n0 in
    (match d with
     | DOp o ->
       (match o with
        | AND ->
          (match sub0 l with
           | Ok l' ->
             (match sub0 r with
              | Ok r' -> Ok (bin AND l' r')
              | Err e -> Err e)
           | Err e -> Err e)
        | OR ->
          (match sub0 l with
           | Ok l' ->
             (match sub0 r with
              | Ok r' ->
                if data_is AND l'
                then c
                       (bin AND (Node ((DOp OR), (n_left l'), (Some r')))
                         (Node ((DOp OR), (n_right l'), (Some r'))))
                else if data_is AND r'
                     then c
                            (bin AND (Node ((DOp OR), (Some l'),
                              (n_left r'))) (Node ((DOp OR), (Some l'),
                              (n_right r'))))
                     else Ok (bin OR l' r')
              | Err e -> Err e)
           | Err e -> Err e)
        | _ -> Ok n0)
     | _ -> Ok n0)

(** val default_fuel : node -> nat **)

let default_fuel n0 =
  add (S (S (S (S (S (S (S (S (S (S (S (S (S (S (S (S (S (S (S (S (S (S (S (S
    (S (S (S (S (S (S (S (S (S (S (S (S (S (S (S (S (S (S (S (S (S (S (S (S
    (S (S (S (S (S (S (S (S (S (S (S (S (S (S (S (S
    O))))))))))))))))))))))))))))))))))))))))))))))))))))))))))))))))
    (mul
      (mul (S (S (S (S (S (S (S (S (S (S (S (S (S (S (S (S O))))))))))))))))
        (nsize n0)) (nsize n0))

(** val convert_into_cnf : node -> node result **)

let convert_into_cnf n0 =
  match simplify_fuel (default_fuel n0) n0 with
  | Ok s ->
    (match propagate_negation s false with
     | Ok p -> to_cnf_fuel (default_fuel p) p
     | Err e -> Err e)
  | Err e -> Err e

(** val neg_lit_plus : ndata -> ndata result **)

let neg_lit_plus = function
| DStr s -> Ok (DStr (append ('-'::[]) s))
| _ -> Err TypeError

(** val neg_lit_fmt : ndata -> ndata **)

let neg_lit_fmt d =
  DStr (append ('-'::[]) (data_str d))

(** val clause_from_or : node -> ndata list result **)

let rec clause_from_or = function
| Node (_, l, r) ->
  let side = fun c ->
    match c with
    | Some x ->
      if (&&) (is_op x) (data_is OR x)
      then clause_from_or x
      else if is_term x
           then Ok ((n_data x) :: [])
           else (match n_left x with
                 | Some y -> Ok ((neg_lit_fmt (n_data y)) :: [])
                 | None -> Err AttributeError)
    | None -> Err AttributeError
  in
  (match side l with
   | Ok a -> (match side r with
              | Ok b -> Ok (app a b)
              | Err e -> Err e)
   | Err e -> Err e)

(** val clauses_of : node -> ndata list list result **)

let rec clauses_of n0 = match n0 with
| Node (d, l, r) ->
  if is_term n0
  then Ok ((d :: []) :: [])
  else if data_is NOT n0
       then (match l with
             | Some a ->
               (match neg_lit_plus (n_data a) with
                | Ok x -> Ok ((x :: []) :: [])
                | Err e -> Err e)
             | None -> Err AttributeError)
       else if data_is OR n0
            then (match clause_from_or n0 with
                  | Ok c -> Ok (c :: [])
                  | Err e -> Err e)
            else if data_is AND n0
                 then (match l with
                       | Some a ->
                         (match r with
                          | Some b ->
                            (match clauses_of a with
                             | Ok ca ->
                               (match clauses_of b with
                                | Ok cb -> Ok (app ca cb)
                                | Err e -> Err e)
                             | Err e -> Err e)
                          | None -> Err AttributeError)
                       | None -> Err AttributeError)
                 else Ok []

(** val get_clauses : node -> ndata list list result **)

let get_clauses n0 =
  match convert_into_cnf n0 with
  | Ok c -> clauses_of c
  | Err e -> Err e

type ftype =
| TBoolean
| TInteger
| TReal
| TString

(** val ftype_eqb : ftype -> ftype -> bool **)

let ftype_eqb a b =
  match a with
  | TBoolean -> (match b with
                 | TBoolean -> true
                 | _ -> false)
  | TInteger -> (match b with
                 | TInteger -> true
                 | _ -> false)
  | TReal -> (match b with
              | TReal -> true
              | _ -> false)
  | TString -> (match b with
                | TString -> true
                | _ -> false)

type aval =
| VNone
| VBool of bool
| VInt of z
| VFloat of char list
| VStr of char list
| VList of aval list
| VMap of (char list * aval) list

type range = { rg_min : aval; rg_max : aval }

type domain = { dom_ranges : range list; dom_elems : aval list }

type attr = { a_name : char list; a_dom : domain option; a_default : 
              aval; a_null : aval }

type finfo = { f_name : char list; f_abstract : aval; f_type : ftype;
               f_cmin : z; f_cmax : z; f_attrs : attr list }

type feature =
| Feature of finfo * relation list
and relation =
| Relation of z * z * feature list

(** val info : feature -> finfo **)

let info = function
| Feature (i, _) -> i

(** val rels : feature -> relation list **)

let rels = function
| Feature (_, rs) -> rs

(** val name : feature -> char list **)

let name f =
  (info f).f_name

(** val r_min : relation -> z **)

let r_min = function
| Relation (a, _, _) -> a

(** val r_max : relation -> z **)

let r_max = function
| Relation (_, b, _) -> b

(** val r_children : relation -> feature list **)

let r_children = function
| Relation (_, _, cs) -> cs

type ctc = { c_name : char list; c_ast : node }

type fm = { root : feature; ctcs : ctc list }

(** val mk_info : char list -> finfo **)

let mk_info n0 =
  { f_name = n0; f_abstract = (VBool false); f_type = TBoolean; f_cmin =
    (Zpos XH); f_cmax = (Zpos XH); f_attrs = [] }

(** val leaf : char list -> feature **)

let leaf n0 =
  Feature ((mk_info n0), [])

(** val fsize : feature -> nat **)

let rec fsize = function
| Feature (_, rs) ->
  S
    (list_sum
      (map (fun r -> let Relation (_, _, cs) = r in list_sum (map fsize cs))
        rs))

(** val subfeatures : feature -> feature list **)

let rec subfeatures f = match f with
| Feature (_, rs) ->
  f :: (flat_map (fun r ->
         let Relation (_, _, cs) = r in flat_map subfeatures cs) rs)

(** val subrelations : feature -> relation list **)

let rec subrelations = function
| Feature (_, rs) ->
  flat_map (fun r ->
    let Relation (_, _, cs) = r in r :: (flat_map subrelations cs)) rs

(** val children : feature -> feature list **)

let children f =
  flat_map r_children (rels f)

(** val names : feature -> char list list **)

let names f =
  map name (subfeatures f)

(** val fld : node option -> node result **)

let fld =
  need

(** val add_once : char list -> char list list -> char list list **)

let add_once s acc =
  if list_existsb_eq s acc then acc else app acc (s :: [])

(** val ctc_features_acc : node -> char list list -> char list list **)

let rec ctc_features_acc n0 acc =
  let Node (d, l, r) = n0 in
  if is_unique_term n0
  then (match d with
        | DStr s -> if starts_with_char '\'' s then acc else add_once s acc
        | _ -> acc)
  else let acc1 = match l with
                  | Some a -> ctc_features_acc a acc
                  | None -> acc
       in
       (match r with
        | Some b -> ctc_features_acc b acc1
        | None -> acc1)

(** val ctc_features : node -> char list list **)

let ctc_features n0 =
  ctc_features_acc n0 []

(** val is_logical : node -> bool **)

let is_logical n0 =
  forallb (fun o -> op_in o logical_ops) (get_operators n0)

(** val is_arithmetic : node -> bool **)

let is_arithmetic n0 =
  existsb (fun o -> op_in o arithmetic_ops) (get_operators n0)

(** val is_aggregation : node -> bool **)

let is_aggregation n0 =
  existsb (fun o -> op_in o aggregation_ops) (get_operators n0)

(** val is_single_feature : node -> bool **)

let is_single_feature n0 =
  if is_term n0
  then true
  else if data_is NOT n0
       then (match n_left n0 with
             | Some a -> is_term a
             | None ->
               (match n_right n0 with
                | Some b -> is_term b
                | None -> false))
       else false

(** val neg_of_term : node -> bool result **)

let neg_of_term x =
  if data_is NOT x
  then (match fld (n_left x) with
        | Ok y -> Ok (is_term y)
        | Err e -> Err e)
  else Ok false

(** val is_requires : node -> bool result **)

let is_requires n0 =
  if is_binary_op n0
  then if (||) (data_is REQUIRES n0) (data_is IMPLIES n0)
       then (match fld (n_left n0) with
             | Ok a ->
               if is_term a
               then (match fld (n_right n0) with
                     | Ok b -> Ok (is_term b)
                     | Err e -> Err e)
               else Ok false
             | Err e -> Err e)
       else if data_is OR n0
            then (match fld (n_left n0) with
                  | Ok a ->
                    (match neg_of_term a with
                     | Ok neg_left ->
                       (match fld (n_right n0) with
                        | Ok b ->
                          (match neg_of_term b with
                           | Ok neg_right ->
                             Ok
                               ((||) ((&&) neg_left (is_term b))
                                 ((&&) neg_right (is_term a)))
                           | Err e -> Err e)
                        | Err e -> Err e)
                     | Err e -> Err e)
                  | Err e -> Err e)
            else Ok false
  else Ok false

(** val is_excludes : node -> bool result **)

let is_excludes n0 =
  if is_binary_op n0
  then if data_is EXCLUDES n0
       then (match fld (n_left n0) with
             | Ok a ->
               if is_term a
               then (match fld (n_right n0) with
                     | Ok b -> Ok (is_term b)
                     | Err e -> Err e)
               else Ok false
             | Err e -> Err e)
       else if (||) (data_is REQUIRES n0) (data_is IMPLIES n0)
            then (match fld (n_right n0) with
                  | Ok b ->
                    (match neg_of_term b with
                     | Ok neg_right ->
                       (match fld (n_left n0) with
                        | Ok a -> Ok ((&&) (is_term a) neg_right)
                        | Err e -> Err e)
                     | Err e -> Err e)
                  | Err e -> Err e)
            else if data_is OR n0
                 then (match fld (n_left n0) with
                       | Ok a ->
                         (match neg_of_term a with
                          | Ok neg_left ->
                            (match fld (n_right n0) with
                             | Ok b ->
                               (match neg_of_term b with
                                | Ok neg_right -> Ok ((&&) neg_left neg_right)
                                | Err e -> Err e)
                             | Err e -> Err e)
                          | Err e -> Err e)
                       | Err e -> Err e)
                 else Ok false
  else Ok false

(** val is_simple : node -> bool result **)

let is_simple n0 =
  match is_requires n0 with
  | Ok a -> if a then Ok true else is_excludes n0
  | Err e -> Err e

(** val is_complex : node -> bool result **)

let is_complex n0 =
  if is_logical n0
  then (match is_simple n0 with
        | Ok b -> Ok (negb b)
        | Err e -> Err e)
  else Ok false

(** val split_formula : node -> node list result **)

let rec split_formula n0 = match n0 with
| Node (d, l, r) ->
  (match d with
   | DOp o ->
     (match o with
      | AND ->
        (match l with
         | Some a ->
           (match split_formula a with
            | Ok la ->
              (match r with
               | Some b ->
                 (match split_formula b with
                  | Ok lb -> Ok (app la lb)
                  | Err e -> Err e)
               | None -> Err AttributeError)
            | Err e -> Err e)
         | None -> Err AttributeError)
      | _ -> Ok (n0 :: []))
   | _ -> Ok (n0 :: []))

(** val flat_mapM :
    ('a1 -> 'a2 list result) -> 'a1 list -> 'a2 list result **)

let flat_mapM f l =
  match mapM f l with
  | Ok ls -> Ok (concat ls)
  | Err e -> Err e

(** val split_asts : node -> node list result **)

let split_asts n0 =
  match split_formula n0 with
  | Ok l0 ->
    (match mapM (fun a -> simplify_fuel (default_fuel a) a) l0 with
     | Ok l1 ->
       (match flat_mapM split_formula l1 with
        | Ok l2 ->
          (match mapM (fun a -> propagate_negation a false) l2 with
           | Ok l3 ->
             (match flat_mapM split_formula l3 with
              | Ok l4 ->
                (match mapM (fun a -> to_cnf_fuel (default_fuel a) a) l4 with
                 | Ok l5 -> flat_mapM split_formula l5
                 | Err e -> Err e)
              | Err e -> Err e)
           | Err e -> Err e)
        | Err e -> Err e)
     | Err e -> Err e)
  | Err e -> Err e

(** val forallM : ('a1 -> bool result) -> 'a1 list -> bool result **)

let rec forallM f = function
| [] -> Ok true
| x :: xs ->
  (match f x with
   | Ok a -> if a then forallM f xs else Ok false
   | Err e -> Err e)

(** val existsM : ('a1 -> bool result) -> 'a1 list -> bool result **)

let rec existsM f = function
| [] -> Ok false
| x :: xs ->
  (match f x with
   | Ok a -> if a then Ok true else existsM f xs
   | Err e -> Err e)

(** val is_pseudocomplex : node -> bool result **)

let is_pseudocomplex n0 =
  match is_complex n0 with
  | Ok a ->
    if a
    then (match split_asts n0 with
          | Ok l -> forallM is_simple l
          | Err e -> Err e)
    else Ok false
  | Err e -> Err e

(** val is_strictcomplex : node -> bool result **)

let is_strictcomplex n0 =
  match is_complex n0 with
  | Ok a ->
    if a
    then (match split_asts n0 with
          | Ok l -> existsM is_complex l
          | Err e -> Err e)
    else Ok false
  | Err e -> Err e

(** val left_right : node -> (ndata * ndata) result **)

let left_right n0 =
  let is_not = fun d ->
    match d with
    | DOp o -> (match o with
                | NOT -> true
                | _ -> false)
    | _ -> false
  in
  if (||) ((||) (data_is REQUIRES n0) (data_is IMPLIES n0))
       (data_is EXCLUDES n0)
  then (match fld (n_left n0) with
        | Ok a ->
          (match fld (n_right n0) with
           | Ok b ->
             if is_not (n_data b)
             then (match fld (n_left b) with
                   | Ok y -> Ok ((n_data a), (n_data y))
                   | Err e -> Err e)
             else Ok ((n_data a), (n_data b))
           | Err e -> Err e)
        | Err e -> Err e)
  else if data_is OR n0
       then (match fld (n_left n0) with
             | Ok a ->
               (match fld (n_right n0) with
                | Ok b ->
                  if (&&) (is_not (n_data a)) (is_not (n_data b))
                  then (match fld (n_left a) with
                        | Ok x ->
                          (match fld (n_left b) with
                           | Ok y -> Ok ((n_data x), (n_data y))
                           | Err e -> Err e)
                        | Err e -> Err e)
                  else if is_not (n_data a)
                       then (match fld (n_left a) with
                             | Ok x -> Ok ((n_data x), (n_data b))
                             | Err e -> Err e)
                       else if is_not (n_data b)
                            then (match fld (n_left b) with
                                  | Ok y -> Ok ((n_data y), (n_data a))
                                  | Err e -> Err e)
                            else Ok ((n_data a), (n_data b))
                | Err e -> Err e)
             | Err e -> Err e)
       else Err UnboundLocalError

(** val nchildren : relation -> z **)

let nchildren r =
  Z.of_nat (length (r_children r))

(** val rel_is_mandatory : relation -> bool **)

let rel_is_mandatory r =
  (&&) ((&&) (Z.eqb (r_min r) (Zpos XH)) (Z.eqb (r_max r) (Zpos XH)))
    (Z.eqb (nchildren r) (Zpos XH))

(** val rel_is_optional : relation -> bool **)

let rel_is_optional r =
  (&&) ((&&) (Z.eqb (r_min r) Z0) (Z.eqb (r_max r) (Zpos XH)))
    (Z.eqb (nchildren r) (Zpos XH))

(** val rel_is_or : relation -> bool **)

let rel_is_or r =
  (&&) ((&&) (Z.eqb (r_min r) (Zpos XH)) (Z.eqb (r_max r) (nchildren r)))
    (Z.ltb (Zpos XH) (nchildren r))

(** val rel_is_alternative : relation -> bool **)

let rel_is_alternative r =
  (&&) ((&&) (Z.eqb (r_min r) (Zpos XH)) (Z.eqb (r_max r) (Zpos XH)))
    (Z.ltb (Zpos XH) (nchildren r))

(** val rel_is_mutex : relation -> bool **)

let rel_is_mutex r =
  (&&) ((&&) (Z.eqb (r_min r) Z0) (Z.eqb (r_max r) (Zpos XH)))
    (Z.ltb (Zpos XH) (nchildren r))

(** val rel_is_group : relation -> bool **)

let rel_is_group r =
  Z.ltb (Zpos XH) (nchildren r)

(** val rel_is_cardinal : relation -> bool **)

let rel_is_cardinal r =
  (&&)
    ((&&)
      ((&&) ((&&) (negb (rel_is_mandatory r)) (negb (rel_is_optional r)))
        (negb (rel_is_alternative r))) (negb (rel_is_or r)))
    (negb (rel_is_mutex r))

(** val rel_type_str : relation -> char list **)

let rel_type_str r =
  if rel_is_alternative r
  then 'a'::('l'::('t'::('e'::('r'::('n'::('a'::('t'::('i'::('v'::('e'::[]))))))))))
  else if rel_is_or r
       then 'o'::('r'::[])
       else if rel_is_mandatory r
            then 'm'::('a'::('n'::('d'::('a'::('t'::('o'::('r'::('y'::[]))))))))
            else if rel_is_optional r
                 then 'o'::('p'::('t'::('i'::('o'::('n'::('a'::('l'::[])))))))
                 else if rel_is_mutex r
                      then 'm'::('u'::('t'::('e'::('x'::[]))))
                      else if rel_is_cardinal r
                           then 'c'::('a'::('r'::('d'::('i'::('n'::('a'::('l'::('i'::('t'::('y'::[]))))))))))
                           else 'O'::('t'::('h'::('e'::('r'::[]))))

(** val strip_last_space : char list -> char list **)

let strip_last_space s =
  if ends_with_char ' ' s
  then str_rev (match str_rev s with
                | [] -> []
                | _::t -> t)
  else s

(** val rel_str : char list -> relation -> char list **)

let rel_str owner r =
  let res =
    append owner
      (append ('['::[])
        (append (z_to_string (r_min r))
          (append (','::[])
            (append (z_to_string (r_max r))
              (append (']'::[])
                (str_concat
                  (map (fun c -> append (name c) (' '::[])) (r_children r))))))))
  in
  strip_last_space
    (append ('('::[]) (append (rel_type_str r) (append (')'::(' '::[])) res)))

(** val subrelations_ctx : feature -> (feature * relation) list **)

let rec subrelations_ctx f = match f with
| Feature (_, rs) ->
  flat_map (fun r ->
    let Relation (_, _, cs) = r in (f, r) :: (flat_map subrelations_ctx cs))
    rs

(** val get_relations : fm -> relation list **)

let get_relations m =
  subrelations m.root

(** val get_features : fm -> feature list **)

let get_features m =
  m.root :: (flat_map r_children (get_relations m))

(** val get_features_ctx : fm -> (feature option * feature) list **)

let get_features_ctx m =
  (None,
    m.root) :: (flat_map (fun pr ->
                 map (fun c -> ((Some (fst pr)), c)) (r_children (snd pr)))
                 (subrelations_ctx m.root))

(** val in_children : feature -> relation -> bool **)

let in_children f r =
  existsb (fun c -> eqb0 (name c) (name f)) (r_children r)

(** val feat_is_root : feature option -> bool **)

let feat_is_root = function
| Some _ -> false
| None -> true

(** val feat_is_mandatory : feature option -> feature -> bool **)

let feat_is_mandatory p f =
  match p with
  | Some q ->
    existsb (fun r -> (&&) (rel_is_mandatory r) (in_children f r)) (rels q)
  | None -> false

(** val feat_is_optional : feature option -> feature -> bool **)

let feat_is_optional p f =
  match p with
  | Some q ->
    existsb (fun r -> (&&) (rel_is_optional r) (in_children f r)) (rels q)
  | None -> false

(** val feat_is_or_group : feature -> bool **)

let feat_is_or_group f =
  existsb rel_is_or (rels f)

(** val feat_is_alternative_group : feature -> bool **)

let feat_is_alternative_group f =
  existsb rel_is_alternative (rels f)

(** val feat_is_mutex_group : feature -> bool **)

let feat_is_mutex_group f =
  existsb rel_is_mutex (rels f)

(** val feat_is_cardinality_group : feature -> bool **)

let feat_is_cardinality_group f =
  existsb rel_is_cardinal (rels f)

(** val feat_is_group : feature -> bool **)

let feat_is_group f =
  existsb rel_is_group (rels f)

(** val feat_is_multiple_group_decomposition : feature -> bool **)

let feat_is_multiple_group_decomposition f =
  Nat.ltb (S O) (length (filter rel_is_group (rels f)))

(** val feat_is_leaf : feature -> bool **)

let feat_is_leaf f =
  Nat.eqb (length (rels f)) O

(** val feat_is_boolean : feature -> bool **)

let feat_is_boolean f =
  ftype_eqb (info f).f_type TBoolean

(** val feat_is_numerical : feature -> bool **)

let feat_is_numerical f =
  (||) (ftype_eqb (info f).f_type TInteger) (ftype_eqb (info f).f_type TReal)

(** val feat_is_string : feature -> bool **)

let feat_is_string f =
  ftype_eqb (info f).f_type TString

(** val feat_is_multifeature : feature -> bool **)

let feat_is_multifeature f =
  (||) (negb (Z.eqb (info f).f_cmin (Zpos XH)))
    (negb (Z.eqb (info f).f_cmax (Zpos XH)))

(** val feat_is_empty : feature option -> feature -> bool **)

let feat_is_empty p f =
  (&&) (feat_is_root p) (Nat.eqb (length (rels f)) O)

(** val filter_ctx :
    (feature option -> feature -> bool) -> fm -> feature list **)

let filter_ctx p m =
  map snd (filter (fun x -> p (fst x) (snd x)) (get_features_ctx m))

(** val get_boolean_features : fm -> feature list **)

let get_boolean_features m =
  filter feat_is_boolean (get_features m)

(** val get_numerical_features : fm -> feature list **)

let get_numerical_features m =
  filter feat_is_numerical (get_features m)

(** val get_string_features : fm -> feature list **)

let get_string_features m =
  filter feat_is_string (get_features m)

(** val get_mandatory_features : fm -> feature list **)

let get_mandatory_features m =
  filter_ctx feat_is_mandatory m

(** val get_optional_features : fm -> feature list **)

let get_optional_features m =
  filter_ctx feat_is_optional m

(** val get_alternative_group_features : fm -> feature list **)

let get_alternative_group_features m =
  filter feat_is_alternative_group (get_features m)

(** val get_or_group_features : fm -> feature list **)

let get_or_group_features m =
  filter feat_is_or_group (get_features m)

(** val filterM_idx : ('a1 -> bool result) -> 'a1 list -> nat list result **)

let filterM_idx p l =
  let rec go i = function
  | [] -> Ok []
  | x :: xs ->
    (match p x with
     | Ok b ->
       (match go (S i) xs with
        | Ok r -> Ok (if b then i :: r else r)
        | Err e -> Err e)
     | Err e -> Err e)
  in go O l

(** val ctc_listing : (node -> bool result) -> fm -> nat list result **)

let ctc_listing p m =
  filterM_idx (fun c -> p c.c_ast) m.ctcs

(** val get_logical_constraints : fm -> nat list result **)

let get_logical_constraints =
  ctc_listing (fun n0 -> Ok (is_logical n0))

(** val get_arithmetic_constraints : fm -> nat list result **)

let get_arithmetic_constraints =
  ctc_listing (fun n0 -> Ok (is_arithmetic n0))

(** val get_aggregations_constraints : fm -> nat list result **)

let get_aggregations_constraints =
  ctc_listing (fun n0 -> Ok (is_aggregation n0))

(** val get_complex_constraints : fm -> nat list result **)

let get_complex_constraints =
  ctc_listing is_complex

(** val get_simple_constraints : fm -> nat list result **)

let get_simple_constraints =
  ctc_listing is_simple

(** val get_pseudocomplex_constraints : fm -> nat list result **)

let get_pseudocomplex_constraints =
  ctc_listing is_pseudocomplex

(** val get_strictcomplex_constraints : fm -> nat list result **)

let get_strictcomplex_constraints =
  ctc_listing is_strictcomplex

(** val get_excludes_constraints : fm -> nat list result **)

let get_excludes_constraints =
  ctc_listing is_excludes

(** val get_requires_constraints : fm -> nat list result **)

let get_requires_constraints =
  ctc_listing is_requires

(** val eff_max : z -> nat -> z **)

let eff_max mx n0 =
  if Z.eqb mx (Zneg XH) then Z.of_nat n0 else mx

(** val card_okb : z -> z -> nat -> z -> bool **)

let card_okb mn mx n0 k =
  (&&) (Z.leb mn k) (Z.leb k (eff_max mx n0))

(** val none_selected : (char list -> bool) -> feature -> bool **)

let rec none_selected _UU03c3_ = function
| Feature (i, rs) ->
  (&&) (negb (_UU03c3_ i.f_name))
    (forallb (fun r ->
      let Relation (_, _, cs) = r in forallb (none_selected _UU03c3_) cs) rs)

(** val count_sel : (char list -> bool) -> feature list -> z **)

let count_sel _UU03c3_ cs =
  Z.of_nat (length (filter (fun c -> _UU03c3_ (name c)) cs))

(** val sem : (char list -> bool) -> feature -> bool **)

let rec sem _UU03c3_ = function
| Feature (i, rs) ->
  (&&) (_UU03c3_ i.f_name)
    (forallb (fun r ->
      let Relation (mn, mx, cs) = r in
      (&&) (card_okb mn mx (length cs) (count_sel _UU03c3_ cs))
        (forallb (fun c ->
          if _UU03c3_ (name c)
          then sem _UU03c3_ c
          else none_selected _UU03c3_ c) cs)) rs)

(** val eval : (char list -> bool) -> node -> bool option **)

let rec eval _UU03c3_ = function
| Node (d, l, r) ->
  (match d with
   | DOp o ->
     (match o with
      | NOT ->
        (match l with
         | Some a ->
           (match r with
            | Some b ->
              (match eval _UU03c3_ a with
               | Some x ->
                 (match eval _UU03c3_ b with
                  | Some y ->
                    (match o with
                     | REQUIRES -> Some (implb x y)
                     | EXCLUDES -> Some (negb ((&&) x y))
                     | AND -> Some ((&&) x y)
                     | OR -> Some ((||) x y)
                     | XOR -> Some (xorb x y)
                     | IMPLIES -> Some (implb x y)
                     | EQUIVALENCE -> Some (eqb x y)
                     | _ -> None)
                  | None -> None)
               | None -> None)
            | None -> option_map negb (eval _UU03c3_ a))
         | None -> None)
      | _ ->
        (match l with
         | Some a ->
           (match r with
            | Some b ->
              (match eval _UU03c3_ a with
               | Some x ->
                 (match eval _UU03c3_ b with
                  | Some y ->
                    (match o with
                     | REQUIRES -> Some (implb x y)
                     | EXCLUDES -> Some (negb ((&&) x y))
                     | AND -> Some ((&&) x y)
                     | OR -> Some ((||) x y)
                     | XOR -> Some (xorb x y)
                     | IMPLIES -> Some (implb x y)
                     | EQUIVALENCE -> Some (eqb x y)
                     | _ -> None)
                  | None -> None)
               | None -> None)
            | None -> None)
         | None -> None))
   | DStr s ->
     (match l with
      | Some _ -> None
      | None -> (match r with
                 | Some _ -> None
                 | None -> Some (_UU03c3_ s)))
   | _ -> None)

(** val valid : fm -> (char list -> bool) -> bool **)

let valid m _UU03c3_ =
  (&&) (sem _UU03c3_ m.root)
    (forallb (fun c ->
      match eval _UU03c3_ c.c_ast with
      | Some b -> b
      | None -> false) m.ctcs)

(** val zeros : nat -> bool list **)

let zeros n0 =
  repeat false n0

(** val prod_app : 'a1 list list -> 'a1 list list -> 'a1 list list **)

let prod_app xs ys =
  flat_map (fun x -> map (fun y -> app x y) ys) xs

(** val confs : feature -> bool list list **)

let rec confs = function
| Feature (_, rs) ->
  map (fun x -> true :: x)
    (let rec go = function
     | [] -> [] :: []
     | r :: rs' ->
       prod_app
         (let Relation (mn, mx, cs) = r in
          map snd
            (filter (fun kb -> card_okb mn mx (length cs) (fst kb))
              (let rec goc = function
               | [] -> (Z0, []) :: []
               | c :: cs' ->
                 let rest = goc cs' in
                 app
                   (map (fun kb -> ((fst kb),
                     (app (zeros (fsize c)) (snd kb)))) rest)
                   (flat_map (fun x ->
                     map (fun kb -> ((Z.add (fst kb) (Zpos XH)),
                       (app x (snd kb)))) rest) (confs c))
               in goc cs))) (go rs')
     in go rs)

(** val selected_names : feature -> bool list -> char list list **)

let selected_names f bits =
  map fst (filter snd (combine (names f) bits))

(** val sigma_of : char list list -> char list -> bool **)

let sigma_of sel n0 =
  list_existsb_eq n0 sel

(** val all_subsets : char list list -> char list list list **)

let rec all_subsets = function
| [] -> [] :: []
| x :: xs -> let r = all_subsets xs in app (map (fun x0 -> x :: x0) r) r

(** val valid_selections : fm -> char list list list **)

let valid_selections m =
  filter (fun sel -> valid m (sigma_of sel)) (all_subsets (names m.root))

(** val div_rne : z -> z -> z **)

let div_rne n0 d =
  let q = Z.div n0 d in
  let r = Z.modulo n0 d in
  if Z.ltb (Z.mul (Zpos (XO XH)) r) d
  then q
  else if Z.ltb d (Z.mul (Zpos (XO XH)) r)
       then Z.add q (Zpos XH)
       else if Z.even q then q else Z.add q (Zpos XH)

(** val fdiv : z -> z -> z * z **)

let fdiv a b =
  if Z.eqb a Z0
  then (Z0, Z0)
  else let e0 =
         Z.sub (Z.sub (Z.log2 a) (Z.log2 b)) (Zpos (XO (XO (XI (XO (XI
           XH))))))
       in
       let fl = fun e ->
         if Z.leb Z0 e
         then Z.div a (Z.mul b (Z.pow (Zpos (XO XH)) e))
         else Z.div (Z.mul a (Z.pow (Zpos (XO XH)) (Z.opp e))) b
       in
       let e =
         if Z.ltb (fl e0)
              (Z.pow (Zpos (XO XH)) (Zpos (XO (XO (XI (XO (XI XH)))))))
         then Z.sub e0 (Zpos XH)
         else e0
       in
       let m =
         if Z.leb Z0 e
         then div_rne a (Z.mul b (Z.pow (Zpos (XO XH)) e))
         else div_rne (Z.mul a (Z.pow (Zpos (XO XH)) (Z.opp e))) b
       in
       (m, e)

(** val scale_round : (z * z) -> z -> z **)

let scale_round me nd =
  let (m, e) = me in
  if Z.leb Z0 e
  then Z.mul (Z.mul m (Z.pow (Zpos (XO (XI (XO XH)))) nd))
         (Z.pow (Zpos (XO XH)) e)
  else div_rne (Z.mul m (Z.pow (Zpos (XO (XI (XO XH)))) nd))
         (Z.pow (Zpos (XO XH)) (Z.opp e))

(** val pyround_div : z -> z -> z -> z **)

let pyround_div a b nd =
  scale_round (fdiv a b) nd

(** val zprod : z list -> z **)

let zprod l =
  fold_right Z.mul (Zpos XH) l

(** val zsum : z list -> z **)

let zsum l =
  fold_right Z.add Z0 l

(** val poly_step : z list -> z -> z list **)

let poly_step coeffs count =
  map (fun cp -> Z.add (fst cp) (Z.mul count (snd cp)))
    (combine (app coeffs (Z0 :: [])) (Z0 :: coeffs))

(** val poly : z list -> z list **)

let poly counts =
  fold_left poly_step counts ((Zpos XH) :: [])

(** val slice : z list -> z -> z -> z list **)

let slice l a b =
  let n0 = Z.of_nat (length l) in
  let norm = fun x -> if Z.ltb x Z0 then Z.max Z0 (Z.add x n0) else Z.min x n0
  in
  let a' = norm a in
  let b' = norm b in firstn (Z.to_nat (Z.sub b' a')) (skipn (Z.to_nat a') l)

(** val estimate : feature -> z **)

let rec estimate = function
| Feature (_, rs) ->
  (match rs with
   | [] -> Zpos XH
   | _ :: _ ->
     zprod
       (flat_map (fun r ->
         let Relation (mn, mx, cs) = r in
         if rel_is_mandatory r
         then (match cs with
               | [] -> Z0
               | c :: _ -> estimate c) :: []
         else if rel_is_optional r
              then (Z.add (match cs with
                           | [] -> Z0
                           | c :: _ -> estimate c) (Zpos XH)) :: []
              else if rel_is_alternative r
                   then (zsum (map estimate cs)) :: []
                   else if rel_is_or r
                        then (Z.sub
                               (zprod
                                 (map (fun c -> Z.add (estimate c) (Zpos XH))
                                   cs)) (Zpos XH)) :: []
                        else let counts = map estimate cs in
                             let card_max =
                               if Z.eqb mx (Zneg XH)
                               then Z.of_nat (length counts)
                               else mx
                             in
                             (zsum
                               (slice (poly counts) mn
                                 (Z.add card_max (Zpos XH)))) :: []) rs))

(** val forces_all : relation -> bool **)

let forces_all r =
  (||) (rel_is_mandatory r)
    ((&&) (Z.eqb (r_min r) (nchildren r)) (Z.ltb Z0 (nchildren r)))

(** val core_features : feature -> feature list **)

let rec core_features f = match f with
| Feature (_, rs) ->
  f :: (flat_map (fun r ->
         let Relation (_, _, cs) = r in
         if forces_all r then flat_map core_features cs else []) rs)

(** val child_is_mandatory : feature -> feature -> bool **)

let child_is_mandatory f c =
  feat_is_mandatory (Some f) c

(** val closure : feature -> char list list **)

let rec closure c = match c with
| Feature (i, rs) ->
  i.f_name :: (flat_map (fun r ->
                let Relation (_, _, cs) = r in
                flat_map (fun d ->
                  if child_is_mandatory c d then closure d else []) cs) rs)

(** val starters : feature -> feature list **)

let rec starters f = match f with
| Feature (_, rs) ->
  flat_map (fun r ->
    let Relation (_, _, cs) = r in
    flat_map (fun d ->
      app (if child_is_mandatory f d then [] else d :: []) (starters d)) cs)
    rs

(** val atomic_sets : fm -> char list list list **)

let atomic_sets m =
  map closure (m.root :: (starters m.root))

(** val count_leafs : fm -> z **)

let count_leafs m =
  Z.of_nat (length (filter feat_is_leaf (get_features m)))

(** val leaf_features : fm -> feature list **)

let leaf_features m =
  filter feat_is_leaf (get_features m)

(** val with_ancestors :
    feature -> feature list -> (feature * feature list) list **)

let rec with_ancestors f anc =
  let Feature (_, rs) = f in
  (f,
  anc) :: (flat_map (fun r ->
            let Relation (_, _, cs) = r in
            flat_map (fun c -> with_ancestors c (f :: anc)) cs) rs)

(** val ancestors_table : fm -> (feature * feature list) list **)

let ancestors_table m =
  with_ancestors m.root []

(** val max_depth_tree : fm -> z **)

let max_depth_tree m =
  fold_right Z.max Z0
    (map (fun fa -> Z.of_nat (length (snd fa)))
      (filter (fun fa -> feat_is_leaf (fst fa)) (ancestors_table m)))

(** val branch_counts : fm -> z * z **)

let branch_counts m =
  let fs = filter (fun f -> negb (feat_is_leaf f)) (get_features m) in
  ((Z.of_nat (length fs)),
  (zsum (map (fun f -> zsum (map nchildren (rels f))) fs)))

(** val average_branching_factor : fm -> z **)

let average_branching_factor m =
  let (branches, nchild) = branch_counts m in
  if Z.eqb branches Z0 then Z0 else pyround_div nchild branches (Zpos (XO XH))

(** val variants : feature -> feature list **)

let variants f =
  flat_map (fun r -> if rel_is_mandatory r then [] else r_children r) (rels f)

(** val variation_points : fm -> (feature * feature list) list **)

let variation_points m =
  filter (fun fv -> negb (Nat.eqb (length (snd fv)) O))
    (map (fun f -> (f, (variants f))) (subfeatures m.root))

(** val insert :
    ('a1 -> 'a2) -> ('a2 -> 'a2 -> bool) -> 'a1 -> 'a1 list -> 'a1 list **)

let rec insert key ltb0 x l = match l with
| [] -> x :: []
| y :: ys ->
  if ltb0 (key x) (key y) then x :: l else y :: (insert key ltb0 x ys)

(** val sort_by :
    ('a1 -> 'a2) -> ('a2 -> 'a2 -> bool) -> 'a1 list -> 'a1 list **)

let sort_by key ltb0 l =
  fold_left (fun acc x -> insert key ltb0 x acc) l []

(** val list_eqb : ('a1 -> 'a1 -> bool) -> 'a1 list -> 'a1 list -> bool **)

let rec list_eqb eqb1 l1 l2 =
  match l1 with
  | [] -> (match l2 with
           | [] -> true
           | _ :: _ -> false)
  | x :: xs ->
    (match l2 with
     | [] -> false
     | y :: ys -> (&&) (eqb1 x y) (list_eqb eqb1 xs ys))

(** val strs_ltb : char list list -> char list list -> bool **)

let rec strs_ltb a b =
  match a with
  | [] -> (match b with
           | [] -> false
           | _ :: _ -> true)
  | x :: xs ->
    (match b with
     | [] -> false
     | y :: ys ->
       if str_ltb x y
       then true
       else if str_ltb y x then false else strs_ltb xs ys)

(** val sort_strs : char list list -> char list list **)

let sort_strs l =
  sort_by (fun s -> s) str_ltb l

(** val dedup_sorted : char list list -> char list list **)

let rec dedup_sorted l = match l with
| [] -> l
| x :: rest ->
  (match rest with
   | [] -> l
   | y :: _ ->
     if eqb0 x y then dedup_sorted rest else x :: (dedup_sorted rest))

(** val strset : char list list -> char list list **)

let strset l =
  dedup_sorted (sort_strs l)

(** val feature_eqb : feature -> feature -> bool **)

let feature_eqb a b =
  eqb0 (name a) (name b)

type orel = char list * relation

(** val child_names : relation -> char list list **)

let child_names r =
  map name (r_children r)

(** val relation_eqb : orel -> orel -> bool **)

let relation_eqb a b =
  (&&)
    ((&&)
      ((&&) (eqb0 (fst a) (fst b))
        (list_eqb eqb0 (sort_strs (child_names (snd a)))
          (sort_strs (child_names (snd b)))))
      (Z.eqb (r_min (snd a)) (r_min (snd b))))
    (Z.eqb (r_max (snd a)) (r_max (snd b)))

type rkey = ((char list * char list list) * z) * z

(** val relation_hash_key : orel -> rkey **)

let relation_hash_key a =
  ((((fst a), (strset (child_names (snd a)))), (r_min (snd a))),
    (r_max (snd a)))

(** val relation_sort_key : orel -> rkey **)

let relation_sort_key a =
  ((((fst a), (sort_strs (child_names (snd a)))), (r_min (snd a))),
    (r_max (snd a)))

(** val rkey_ltb : rkey -> rkey -> bool **)

let rkey_ltb a b =
  let (p, mx1) = a in
  let (p0, mn1) = p in
  let (p1, c1) = p0 in
  let (p3, mx2) = b in
  let (p4, mn2) = p3 in
  let (p2, c2) = p4 in
  if str_ltb p1 p2
  then true
  else if str_ltb p2 p1
       then false
       else if strs_ltb c1 c2
            then true
            else if strs_ltb c2 c1
                 then false
                 else if Z.ltb mn1 mn2
                      then true
                      else if Z.ltb mn2 mn1 then false else Z.ltb mx1 mx2

(** val ctc_key : (char list -> char list) -> ctc -> char list **)

let ctc_key lower c =
  lower (node_str c.c_ast)

(** val ctc_eqb : (char list -> char list) -> ctc -> ctc -> bool **)

let ctc_eqb lower a b =
  eqb0 (ctc_key lower a) (ctc_key lower b)

(** val fm_relations : fm -> orel list **)

let fm_relations m =
  map (fun pr -> ((name (fst pr)), (snd pr))) (subrelations_ctx m.root)

(** val fm_eqb : (char list -> char list) -> fm -> fm -> bool **)

let fm_eqb lower a b =
  (&&)
    ((&&)
      ((&&) (feature_eqb a.root b.root)
        (list_eqb feature_eqb (sort_by name str_ltb (get_features a))
          (sort_by name str_ltb (get_features b))))
      (list_eqb relation_eqb
        (sort_by relation_sort_key rkey_ltb (fm_relations a))
        (sort_by relation_sort_key rkey_ltb (fm_relations b))))
    (list_eqb (ctc_eqb lower) (sort_by (ctc_key lower) str_ltb a.ctcs)
      (sort_by (ctc_key lower) str_ltb b.ctcs))

(** val rkey_eqb : rkey -> rkey -> bool **)

let rkey_eqb a b =
  let (p, mx1) = a in
  let (p0, mn1) = p in
  let (p1, c1) = p0 in
  let (p3, mx2) = b in
  let (p4, mn2) = p3 in
  let (p2, c2) = p4 in
  (&&) ((&&) ((&&) (eqb0 p1 p2) (list_eqb eqb0 c1 c2)) (Z.eqb mn1 mn2))
    (Z.eqb mx1 mx2)

(** val dedup_rkeys : rkey list -> rkey list **)

let rec dedup_rkeys l = match l with
| [] -> l
| x :: rest ->
  (match rest with
   | [] -> l
   | y :: _ ->
     if rkey_eqb x y then dedup_rkeys rest else x :: (dedup_rkeys rest))

(** val rkeyset : rkey list -> rkey list **)

let rkeyset l =
  dedup_rkeys (sort_by (fun k -> k) rkey_ltb l)

(** val fm_hash_key :
    (char list -> char list) -> fm -> ((char list * char list list) * rkey
    list) * char list list **)

let fm_hash_key lower m =
  ((((name m.root), (strset (map name (get_features m)))),
    (rkeyset (map relation_hash_key (fm_relations m)))),
    (strset (map (ctc_key lower) m.ctcs)))

type path = (nat * nat) list

type ptr =
| PNone
| PPath of path
| PExt

type pfeature =
| PFeature of finfo * ptr * ptr list * prelation list
and prelation =
| PRelation of ptr * z * z * pfeature list

type pfm = { proot : pfeature; pctcs : ctc list }

(** val annotate : path -> ptr -> feature -> pfeature **)

let rec annotate here parent = function
| Feature (i, rs) ->
  PFeature (i, parent, (map (fun _ -> PPath here) i.f_attrs),
    (let rec go k = function
     | [] -> []
     | r :: rs' ->
       let Relation (a, b, cs) = r in
       (PRelation ((PPath here), a, b,
       (let rec goc j = function
        | [] -> []
        | c :: cs' ->
          (annotate (app here ((k, j) :: [])) (PPath here) c) :: (goc (S j)
                                                                   cs')
        in goc O cs))) :: (go (S k) rs')
     in go O rs))

(** val annotate_fm : fm -> pfm **)

let annotate_fm m =
  { proot = (annotate [] PNone m.root); pctcs = m.ctcs }

type hrel = { hr_owner : nat; hr_min : z; hr_max : z; hr_children : nat list }

type hfeat = { hf_name : char list; hf_parent : nat option;
               hf_rels : hrel list }

type heap = hfeat list

type hop =
| HNew of char list * nat option
| HAddRel of nat * nat * z * z * nat list
| HDelRel of nat * nat
| HAddChild of nat * nat * nat
| HSetParent of nat * nat option

(** val update_nth : nat -> ('a1 -> 'a1) -> 'a1 list -> 'a1 list **)

let rec update_nth n0 g = function
| [] -> []
| x :: xs ->
  (match n0 with
   | O -> (g x) :: xs
   | S n' -> x :: (update_nth n' g xs))

(** val remove_nth : nat -> 'a1 list -> 'a1 list **)

let rec remove_nth n0 = function
| [] -> []
| x :: xs -> (match n0 with
              | O -> xs
              | S n' -> x :: (remove_nth n' xs))

(** val set_parent : nat option -> hfeat -> hfeat **)

let set_parent p x =
  { hf_name = x.hf_name; hf_parent = p; hf_rels = x.hf_rels }

(** val set_rels : (hrel list -> hrel list) -> hfeat -> hfeat **)

let set_rels g x =
  { hf_name = x.hf_name; hf_parent = x.hf_parent; hf_rels = (g x.hf_rels) }

(** val add_child_rel : nat -> hrel -> hrel **)

let add_child_rel c r =
  { hr_owner = r.hr_owner; hr_min = r.hr_min; hr_max = r.hr_max;
    hr_children = (app r.hr_children (c :: [])) }

(** val step : heap -> hop -> heap **)

let step h = function
| HNew (name0, parent) ->
  app h ({ hf_name = name0; hf_parent = parent; hf_rels = [] } :: [])
| HAddRel (f, rp, mn, mx, cs) ->
  if Nat.ltb f (length h)
  then fold_left (fun h' c -> update_nth c (set_parent (Some f)) h') cs
         (update_nth f
           (set_rels (fun rs ->
             app rs ({ hr_owner = rp; hr_min = mn; hr_max = mx; hr_children =
               cs } :: []))) h)
  else h
| HDelRel (f, k) -> update_nth f (set_rels (remove_nth k)) h
| HAddChild (f, k, c) ->
  update_nth f (set_rels (update_nth k (add_child_rel c))) h
| HSetParent (c, p) -> update_nth c (set_parent p) h

(** val run : heap -> hop list -> heap **)

let run h ops =
  fold_left step ops h

(** val h_name : heap -> nat -> char list **)

let h_name h i =
  match nth_error h i with
  | Some x -> x.hf_name
  | None -> []

(** val h_parent : heap -> nat -> nat option **)

let h_parent h i =
  match nth_error h i with
  | Some x -> x.hf_parent
  | None -> None

(** val h_rels : heap -> nat -> hrel list **)

let h_rels h i =
  match nth_error h i with
  | Some x -> x.hf_rels
  | None -> []

(** val h_children : heap -> nat -> nat list **)

let h_children h i =
  flat_map (fun h0 -> h0.hr_children) (h_rels h i)

(** val h_is_root : heap -> nat -> bool **)

let h_is_root h i =
  match h_parent h i with
  | Some _ -> false
  | None -> true

(** val h_is_leaf : heap -> nat -> bool **)

let h_is_leaf h i =
  match h_rels h i with
  | [] -> true
  | _ :: _ -> false

(** val hrel_is_mandatory : hrel -> bool **)

let hrel_is_mandatory r =
  (&&) ((&&) (Z.eqb r.hr_min (Zpos XH)) (Z.eqb r.hr_max (Zpos XH)))
    (Nat.eqb (length r.hr_children) (S O))

(** val hrel_is_optional : hrel -> bool **)

let hrel_is_optional r =
  (&&) ((&&) (Z.eqb r.hr_min Z0) (Z.eqb r.hr_max (Zpos XH)))
    (Nat.eqb (length r.hr_children) (S O))

(** val named_in : heap -> nat -> hrel -> bool **)

let named_in h c r =
  existsb (fun d -> eqb0 (h_name h d) (h_name h c)) r.hr_children

(** val h_is_kind : (hrel -> bool) -> heap -> nat -> bool **)

let h_is_kind kind h c =
  match h_parent h c with
  | Some p -> existsb (fun r -> (&&) (kind r) (named_in h c r)) (h_rels h p)
  | None -> false

(** val h_is_mandatory : heap -> nat -> bool **)

let h_is_mandatory =
  h_is_kind hrel_is_mandatory

(** val h_is_optional : heap -> nat -> bool **)

let h_is_optional =
  h_is_kind hrel_is_optional

(** val occurs : heap -> nat -> bool **)

let occurs h c =
  existsb (fun x ->
    existsb (fun r -> existsb (Nat.eqb c) r.hr_children) x.hf_rels) h

(** val nodupb_nat : nat list -> bool **)

let rec nodupb_nat = function
| [] -> true
| x :: xs -> (&&) (negb (existsb (Nat.eqb x) xs)) (nodupb_nat xs)

(** val guard : heap -> hop -> bool **)

let guard h = function
| HAddRel (f, rp, _, _, cs) ->
  (&&)
    ((&&) ((&&) (Nat.ltb f (length h)) (Nat.eqb rp f))
      (forallb (fun c -> (&&) (Nat.ltb c (length h)) (negb (occurs h c))) cs))
    (nodupb_nat cs)
| HAddChild (f, _, c) ->
  (&&) ((&&) (Nat.ltb c (length h)) (negb (occurs h c)))
    (match h_parent h c with
     | Some p -> Nat.eqb p f
     | None -> false)
| HSetParent (c, _) -> negb (occurs h c)
| _ -> true

(** val guards : heap -> hop list -> bool **)

let rec guards h = function
| [] -> true
| o :: rest -> (&&) (guard h o) (guards (step h o) rest)

(** val jt_FEATURE : char list **)

let jt_FEATURE =
  'F'::('E'::('A'::('T'::('U'::('R'::('E'::[]))))))

(** val jt_XOR : char list **)

let jt_XOR =
  'X'::('O'::('R'::[]))

(** val jt_OR : char list **)

let jt_OR =
  'O'::('R'::[])

(** val jt_MUTEX : char list **)

let jt_MUTEX =
  'M'::('U'::('T'::('E'::('X'::[]))))

(** val jt_CARDINALITY : char list **)

let jt_CARDINALITY =
  'C'::('A'::('R'::('D'::('I'::('N'::('A'::('L'::('I'::('T'::('Y'::[]))))))))))

(** val jt_OPTIONAL : char list **)

let jt_OPTIONAL =
  'O'::('P'::('T'::('I'::('O'::('N'::('A'::('L'::[])))))))

(** val jt_MANDATORY : char list **)

let jt_MANDATORY =
  'M'::('A'::('N'::('D'::('A'::('T'::('O'::('R'::('Y'::[]))))))))

(** val json_relation_type : relation -> char list **)

let json_relation_type r =
  if rel_is_alternative r
  then jt_XOR
  else if rel_is_or r
       then jt_OR
       else if rel_is_mutex r
            then jt_MUTEX
            else if rel_is_cardinal r
                 then jt_CARDINALITY
                 else if rel_is_mandatory r
                      then jt_MANDATORY
                      else if rel_is_optional r
                           then jt_OPTIONAL
                           else jt_FEATURE

(** val json_attributes : attr list -> aval list **)

let json_attributes attrs =
  map (fun a -> VMap ((('n'::('a'::('m'::('e'::[])))), (VStr
    a.a_name)) :: (match a.a_default with
                   | VNone -> []
                   | x -> (('v'::('a'::('l'::('u'::('e'::[]))))), x) :: [])))
    attrs

(** val json_tree : feature -> aval **)

let rec json_tree = function
| Feature (i, rs) ->
  VMap
    (app ((('n'::('a'::('m'::('e'::[])))), (VStr
      i.f_name)) :: ((('a'::('b'::('s'::('t'::('r'::('a'::('c'::('t'::[])))))))),
      i.f_abstract) :: ((('r'::('e'::('l'::('a'::('t'::('i'::('o'::('n'::('s'::[]))))))))),
      (VList
      (map (fun r ->
        let Relation (a, b, cs) = r in
        VMap ((('t'::('y'::('p'::('e'::[])))), (VStr
        (json_relation_type r))) :: ((('c'::('a'::('r'::('d'::('_'::('m'::('i'::('n'::[])))))))),
        (VInt
        a)) :: ((('c'::('a'::('r'::('d'::('_'::('m'::('a'::('x'::[])))))))),
        (VInt
        b)) :: ((('c'::('h'::('i'::('l'::('d'::('r'::('e'::('n'::[])))))))),
        (VList (map json_tree cs))) :: []))))) rs))) :: [])))
      (match i.f_attrs with
       | [] -> []
       | a :: l ->
         (('a'::('t'::('t'::('r'::('i'::('b'::('u'::('t'::('e'::('s'::[])))))))))),
           (VList (json_attributes (a :: l)))) :: []))

(** val json_of_data : ndata -> aval **)

let json_of_data = function
| DOp o -> VStr (astop_value o)
| DStr s -> VStr s
| DInt z0 -> VInt z0
| DFloat r -> VFloat r
| DBool b -> VBool b

(** val json_ctc : node -> aval result **)

let rec json_ctc n0 = match n0 with
| Node (d, l, r) ->
  if is_term n0
  then Ok (VMap ((('t'::('y'::('p'::('e'::[])))), (VStr
         jt_FEATURE)) :: ((('o'::('p'::('e'::('r'::('a'::('n'::('d'::('s'::[])))))))),
         (VList ((json_of_data d) :: []))) :: [])))
  else (match l with
        | Some a ->
          (match json_ctc a with
           | Ok ja ->
             (match r with
              | Some b ->
                (match json_ctc b with
                 | Ok jb ->
                   Ok (VMap ((('t'::('y'::('p'::('e'::[])))), (VStr
                     (data_label d))) :: ((('o'::('p'::('e'::('r'::('a'::('n'::('d'::('s'::[])))))))),
                     (VList (ja :: (jb :: [])))) :: [])))
                 | Err e -> Err e)
              | None ->
                Ok (VMap ((('t'::('y'::('p'::('e'::[])))), (VStr
                  (data_label d))) :: ((('o'::('p'::('e'::('r'::('a'::('n'::('d'::('s'::[])))))))),
                  (VList (ja :: []))) :: []))))
           | Err e -> Err e)
        | None -> Err AttributeError)

(** val json_constraints : ctc list -> aval list result **)

let json_constraints cs =
  mapM (fun c ->
    match pretty_str c.c_ast with
    | Ok expr ->
      (match json_ctc c.c_ast with
       | Ok j ->
         Ok (VMap ((('n'::('a'::('m'::('e'::[])))), (VStr
           c.c_name)) :: ((('e'::('x'::('p'::('r'::[])))), (VStr
           expr)) :: ((('a'::('s'::('t'::[]))), j) :: []))))
       | Err e -> Err e)
    | Err e -> Err e) cs

(** val json_write : fm -> aval result **)

let json_write m =
  let tree = json_tree m.root in
  (match json_constraints m.ctcs with
   | Ok cs ->
     Ok (VMap ((('f'::('e'::('a'::('t'::('u'::('r'::('e'::('s'::[])))))))),
       tree) :: ((('c'::('o'::('n'::('s'::('t'::('r'::('a'::('i'::('n'::('t'::('s'::[]))))))))))),
       (VList cs)) :: [])))
   | Err e -> Err e)

(** val assoc : char list -> (char list * aval) list -> aval option **)

let rec assoc k = function
| [] -> None
| p :: rest -> let (k', v) = p in if eqb0 k k' then Some v else assoc k rest

(** val jget : char list -> aval -> aval result **)

let jget k = function
| VMap kv -> (match assoc k kv with
              | Some x -> Ok x
              | None -> Err KeyError)
| _ -> Err TypeError

(** val jhas : char list -> aval -> bool **)

let jhas k = function
| VMap kv -> (match assoc k kv with
              | Some _ -> true
              | None -> false)
| _ -> false

(** val jlist : aval -> aval list result **)

let jlist = function
| VList l -> Ok l
| _ -> Err OtherExn

(** val jstr : aval -> char list result **)

let jstr = function
| VStr s -> Ok s
| _ -> Err OtherExn

(** val jint : aval -> z result **)

let jint = function
| VInt z0 -> Ok z0
| _ -> Err OtherExn

(** val json_read_attributes : aval -> attr list result **)

let json_read_attributes node0 =
  if jhas
       ('a'::('t'::('t'::('r'::('i'::('b'::('u'::('t'::('e'::('s'::[]))))))))))
       node0
  then (match jget
                ('a'::('t'::('t'::('r'::('i'::('b'::('u'::('t'::('e'::('s'::[]))))))))))
                node0 with
        | Ok al ->
          (match jlist al with
           | Ok l ->
             mapM (fun a ->
               match jget ('n'::('a'::('m'::('e'::[])))) a with
               | Ok n0 ->
                 (match jstr n0 with
                  | Ok name0 ->
                    let v =
                      match a with
                      | VMap kv ->
                        (match assoc ('v'::('a'::('l'::('u'::('e'::[]))))) kv with
                         | Some x -> x
                         | None -> VNone)
                      | _ -> VNone
                    in
                    Ok { a_name = name0; a_dom = None; a_default = v;
                    a_null = VNone }
                  | Err e -> Err e)
               | Err e -> Err e) l
           | Err e -> Err e)
        | Err e -> Err e)
  else Ok []

(** val json_abstract : aval -> aval **)

let json_abstract v = match v with
| VStr s -> VBool (eqb0 s ('T'::('r'::('u'::('e'::[])))))
| _ -> v

(** val json_relation_cards : char list -> aval -> nat -> (z * z) result **)

let json_relation_cards rtype rel n0 =
  if eqb0 rtype jt_OPTIONAL
  then Ok (Z0, (Zpos XH))
  else if eqb0 rtype jt_MANDATORY
       then Ok ((Zpos XH), (Zpos XH))
       else if eqb0 rtype jt_XOR
            then Ok ((Zpos XH), (Zpos XH))
            else if eqb0 rtype jt_OR
                 then Ok ((Zpos XH), (Z.of_nat n0))
                 else if eqb0 rtype jt_MUTEX
                      then Ok (Z0, (Zpos XH))
                      else if eqb0 rtype jt_CARDINALITY
                           then (match jget
                                         ('c'::('a'::('r'::('d'::('_'::('m'::('i'::('n'::[]))))))))
                                         rel with
                                 | Ok a ->
                                   (match jget
                                            ('c'::('a'::('r'::('d'::('_'::('m'::('a'::('x'::[]))))))))
                                            rel with
                                    | Ok b ->
                                      (match jint a with
                                       | Ok a' ->
                                         (match jint b with
                                          | Ok b' -> Ok (a', b')
                                          | Err _ -> Err ParsingException)
                                       | Err _ -> Err ParsingException)
                                    | Err e -> Err e)
                                 | Err e -> Err e)
                           else Err ParsingException

(** val json_parse_tree : nat -> path -> ptr -> aval -> pfeature result **)

let rec json_parse_tree fuel here parent node0 =
  match fuel with
  | O -> Err OtherExn
  | S fuel' ->
    (match jget ('n'::('a'::('m'::('e'::[])))) node0 with
     | Ok n0 ->
       (match jget ('a'::('b'::('s'::('t'::('r'::('a'::('c'::('t'::[]))))))))
                node0 with
        | Ok ab ->
          (match jstr n0 with
           | Ok name0 ->
             (match json_read_attributes node0 with
              | Ok attrs ->
                let info0 = { f_name = name0; f_abstract =
                  (json_abstract ab); f_type = TBoolean; f_cmin = (Zpos XH);
                  f_cmax = (Zpos XH); f_attrs = attrs }
                in
                let relsr =
                  if jhas
                       ('r'::('e'::('l'::('a'::('t'::('i'::('o'::('n'::('s'::[])))))))))
                       node0
                  then (match jget
                                ('r'::('e'::('l'::('a'::('t'::('i'::('o'::('n'::('s'::[])))))))))
                                node0 with
                        | Ok rl ->
                          (match jlist rl with
                           | Ok rels0 ->
                             let rec go k = function
                             | [] -> Ok []
                             | rel :: rest ->
                               (match jget
                                        ('c'::('h'::('i'::('l'::('d'::('r'::('e'::('n'::[]))))))))
                                        rel with
                                | Ok chv ->
                                  (match jlist chv with
                                   | Ok chl ->
                                     (match let rec goc j = function
                                            | [] -> Ok []
                                            | c :: cs ->
                                              (match json_parse_tree fuel'
                                                       (app here ((k,
                                                         j) :: [])) (PPath
                                                       here) c with
                                               | Ok pc ->
                                                 (match goc (S j) cs with
                                                  | Ok pcs -> Ok (pc :: pcs)
                                                  | Err e -> Err e)
                                               | Err e -> Err e)
                                            in goc O chl with
                                      | Ok children0 ->
                                        (match children0 with
                                         | [] -> Err ParsingException
                                         | _ :: _ ->
                                           (match jget
                                                    ('t'::('y'::('p'::('e'::[]))))
                                                    rel with
                                            | Ok tv ->
                                              (match jstr tv with
                                               | Ok rtype ->
                                                 (match json_relation_cards
                                                          rtype rel
                                                          (length children0) with
                                                  | Ok a0 ->
                                                    let (a, b) = a0 in
                                                    (match go (S k) rest with
                                                     | Ok prs ->
                                                       Ok ((PRelation ((PPath
                                                         here), a, b,
                                                         children0)) :: prs)
                                                     | Err e -> Err e)
                                                  | Err e -> Err e)
                                               | Err e -> Err e)
                                            | Err e -> Err e))
                                      | Err e -> Err e)
                                   | Err e -> Err e)
                                | Err e -> Err e)
                             in go O rels0
                           | Err e -> Err e)
                        | Err e -> Err e)
                  else Ok []
                in
                (match relsr with
                 | Ok prs ->
                   Ok (PFeature (info0, parent,
                     (map (fun _ -> PPath here) attrs), prs))
                 | Err e -> Err e)
              | Err e -> Err e)
           | Err _ -> Err ParsingException)
        | Err e -> Err e)
     | Err e -> Err e)

(** val data_of_json : aval -> ndata result **)

let data_of_json = function
| VBool b -> Ok (DBool b)
| VInt z0 -> Ok (DInt z0)
| VFloat r -> Ok (DFloat r)
| VStr s -> Ok (DStr s)
| _ -> Err ParsingException

(** val reduce_op : astop -> node list -> node result **)

let reduce_op o = function
| [] -> Err TypeError
| x :: xs -> Ok (fold_left (fun acc y -> bin o acc y) xs x)

(** val nth_operand : aval list -> nat -> aval result **)

let nth_operand l i =
  match nth_error l i with
  | Some x -> Ok x
  | None -> Err IndexError

(** val json_parse_ctc : nat -> aval -> node result **)

let rec json_parse_ctc fuel info0 =
  match fuel with
  | O -> Err OtherExn
  | S fuel' ->
    (match jget ('t'::('y'::('p'::('e'::[])))) info0 with
     | Ok tv ->
       (match jget ('o'::('p'::('e'::('r'::('a'::('n'::('d'::('s'::[]))))))))
                info0 with
        | Ok ov ->
          (match jlist ov with
           | Ok ops ->
             (match jstr tv with
              | Ok ty ->
                let sub0 = fun i ->
                  match nth_operand ops i with
                  | Ok x -> json_parse_ctc fuel' x
                  | Err e -> Err e
                in
                let bin2 = fun o ->
                  match sub0 O with
                  | Ok a ->
                    (match sub0 (S O) with
                     | Ok b -> Ok (bin o a b)
                     | Err e -> Err e)
                  | Err e -> Err e
                in
                if eqb0 ty jt_FEATURE
                then (match nth_operand ops O with
                      | Ok x ->
                        (match data_of_json x with
                         | Ok d -> Ok (Node (d, None, None))
                         | Err e -> Err e)
                      | Err e -> Err e)
                else if eqb0 ty (astop_value NOT)
                     then (match sub0 O with
                           | Ok a -> Ok (un NOT a)
                           | Err e -> Err e)
                     else if eqb0 ty (astop_value IMPLIES)
                          then bin2 IMPLIES
                          else if eqb0 ty (astop_value REQUIRES)
                               then bin2 REQUIRES
                               else if eqb0 ty (astop_value EXCLUDES)
                                    then bin2 EXCLUDES
                                    else if eqb0 ty (astop_value EQUIVALENCE)
                                         then bin2 EQUIVALENCE
                                         else if eqb0 ty (astop_value AND)
                                              then (match mapM
                                                            (json_parse_ctc
                                                              fuel') ops with
                                                    | Ok l -> reduce_op AND l
                                                    | Err e -> Err e)
                                              else if eqb0 ty (astop_value OR)
                                                   then (match mapM
                                                                 (json_parse_ctc
                                                                   fuel') ops with
                                                         | Ok l ->
                                                           reduce_op OR l
                                                         | Err e -> Err e)
                                                   else if eqb0 ty
                                                             (astop_value XOR)
                                                        then (match mapM
                                                                    (json_parse_ctc
                                                                    fuel') ops with
                                                              | Ok l ->
                                                                reduce_op XOR
                                                                  l
                                                              | Err e -> Err e)
                                                        else Err
                                                               ParsingException
              | Err _ -> Err ParsingException)
           | Err _ -> Err ParsingException)
        | Err e -> Err e)
     | Err e -> Err e)

(** val aval_depth : aval -> nat **)

let rec aval_depth = function
| VList l -> S (fold_right Nat.max O (map aval_depth l))
| VMap kv -> S (fold_right Nat.max O (map (fun p -> aval_depth (snd p)) kv))
| _ -> S O

(** val json_read : aval -> pfm result **)

let json_read doc =
  match jget ('f'::('e'::('a'::('t'::('u'::('r'::('e'::('s'::[])))))))) doc with
  | Ok fv ->
    (match jget
             ('c'::('o'::('n'::('s'::('t'::('r'::('a'::('i'::('n'::('t'::('s'::[])))))))))))
             doc with
     | Ok cv ->
       (match json_parse_tree (aval_depth fv) [] PNone fv with
        | Ok proot_ ->
          (match jlist cv with
           | Ok cl ->
             (match mapM (fun ci ->
                      match jget ('n'::('a'::('m'::('e'::[])))) ci with
                      | Ok nv ->
                        (match jget ('a'::('s'::('t'::[]))) ci with
                         | Ok av ->
                           (match jstr nv with
                            | Ok name0 ->
                              (match json_parse_ctc (aval_depth av) av with
                               | Ok n0 -> Ok { c_name = name0; c_ast = n0 }
                               | Err e -> Err e)
                            | Err e -> Err e)
                         | Err e -> Err e)
                      | Err e -> Err e) cl with
              | Ok cs -> Ok { proot = proot_; pctcs = cs }
              | Err e -> Err e)
           | Err e -> Err e)
        | Err e -> Err e)
     | Err e -> Err e)
  | Err e -> Err e

(** val glencoe_ctc_type : astop -> char list option **)

let glencoe_ctc_type = function
| REQUIRES ->
  Some
    ('I'::('m'::('p'::('l'::('i'::('e'::('s'::('T'::('e'::('r'::('m'::[])))))))))))
| EXCLUDES ->
  Some
    ('E'::('x'::('c'::('l'::('u'::('d'::('e'::('s'::('T'::('e'::('r'::('m'::[]))))))))))))
| AND -> Some ('A'::('n'::('d'::('T'::('e'::('r'::('m'::[])))))))
| OR -> Some ('O'::('r'::('T'::('e'::('r'::('m'::[]))))))
| XOR -> Some ('X'::('o'::('r'::('T'::('e'::('r'::('m'::[])))))))
| IMPLIES ->
  Some
    ('I'::('m'::('p'::('l'::('i'::('e'::('s'::('T'::('e'::('r'::('m'::[])))))))))))
| NOT -> Some ('N'::('o'::('t'::('T'::('e'::('r'::('m'::[])))))))
| EQUIVALENCE ->
  Some
    ('E'::('q'::('u'::('i'::('v'::('a'::('l'::('e'::('n'::('t'::('T'::('e'::('r'::('m'::[]))))))))))))))
| _ -> None

(** val dict_set :
    (char list * aval) list -> char list -> aval -> (char list * aval) list **)

let rec dict_set kv k v =
  match kv with
  | [] -> (k, v) :: []
  | p :: rest ->
    let (k', v') = p in
    if eqb0 k k' then (k, v) :: rest else (k', v') :: (dict_set rest k v)

(** val glencoe_feature_type : feature -> char list **)

let glencoe_feature_type f =
  if feat_is_alternative_group f
  then 'X'::('O'::('R'::[]))
  else if feat_is_or_group f
       then 'O'::('R'::[])
       else if (||) (feat_is_cardinality_group f) (feat_is_mutex_group f)
            then 'G'::('E'::('N'::('O'::('R'::[]))))
            else 'F'::('E'::('A'::('T'::('U'::('R'::('E'::[]))))))

(** val glencoe_feature_info : feature option -> feature -> aval **)

let glencoe_feature_info p f =
  let ty = glencoe_feature_type f in
  VMap
  (app ((('n'::('a'::('m'::('e'::[])))), (VStr
    (name f))) :: ((('o'::('p'::('t'::('i'::('o'::('n'::('a'::('l'::[])))))))),
    (VBool
    (negb (feat_is_mandatory p f)))) :: ((('t'::('y'::('p'::('e'::[])))),
    (VStr ty)) :: ((('n'::('o'::('t'::('e'::[])))), (VStr [])) :: []))))
    (if eqb0 ty ('G'::('E'::('N'::('O'::('R'::[])))))
     then (match find (fun r -> (||) (rel_is_cardinal r) (rel_is_mutex r))
                   (rels f) with
           | Some r ->
             (('m'::('i'::('n'::[]))), (VInt
               (r_min r))) :: ((('m'::('a'::('x'::[]))), (VInt
               (r_max r))) :: [])
           | None -> [])
     else []))

(** val glencoe_features : fm -> aval **)

let glencoe_features m =
  VMap
    (fold_left (fun acc pf ->
      dict_set acc (name (snd pf)) (glencoe_feature_info (fst pf) (snd pf)))
      (sort_by (fun pf -> name (snd pf)) str_ltb (get_features_ctx m)) [])

(** val glencoe_tree : feature -> aval **)

let rec glencoe_tree = function
| Feature (i, rs) ->
  let kid_trees =
    sort_by fst str_ltb
      (flat_map (fun r ->
        let Relation (_, _, cs) = r in
        map (fun c -> ((name c), (glencoe_tree c))) cs) rs)
  in
  VMap ((('i'::('d'::[])), (VStr
  i.f_name)) :: (match kid_trees with
                 | [] -> []
                 | _ :: _ ->
                   (('c'::('h'::('i'::('l'::('d'::('r'::('e'::('n'::[])))))))),
                     (VList (map snd kid_trees))) :: []))

(** val glencoe_ctc : node -> aval result **)

let rec glencoe_ctc n0 = match n0 with
| Node (d, l, r) ->
  if is_term n0
  then Ok (VMap ((('t'::('y'::('p'::('e'::[])))), (VStr
         ('F'::('e'::('a'::('t'::('u'::('r'::('e'::('T'::('e'::('r'::('m'::[]))))))))))))) :: ((('o'::('p'::('e'::('r'::('a'::('n'::('d'::('s'::[])))))))),
         (VList ((VStr (data_str d)) :: []))) :: [])))
  else (match d with
        | DOp o ->
          (match glencoe_ctc_type o with
           | Some ty ->
             (match l with
              | Some a ->
                (match glencoe_ctc a with
                 | Ok ja ->
                   (match r with
                    | Some b ->
                      (match glencoe_ctc b with
                       | Ok jb ->
                         Ok (VMap ((('t'::('y'::('p'::('e'::[])))), (VStr
                           ty)) :: ((('o'::('p'::('e'::('r'::('a'::('n'::('d'::('s'::[])))))))),
                           (VList (ja :: (jb :: [])))) :: [])))
                       | Err e -> Err e)
                    | None ->
                      Ok (VMap ((('t'::('y'::('p'::('e'::[])))), (VStr
                        ty)) :: ((('o'::('p'::('e'::('r'::('a'::('n'::('d'::('s'::[])))))))),
                        (VList (ja :: []))) :: []))))
                 | Err e -> Err e)
              | None -> Err AttributeError)
           | None -> Err KeyError)
        | _ -> Err OtherExn)

(** val glencoe_write : fm -> aval result **)

let glencoe_write m =
  let fid = VStr
    (append ('F'::('M'::('_'::[]))) (str_remove_char ' ' (name m.root)))
  in
  let feats0 = glencoe_features m in
  let tree = glencoe_tree m.root in
  (match let rec go cs acc =
           match cs with
           | [] -> Ok acc
           | c :: cs' ->
             (match glencoe_ctc c.c_ast with
              | Ok j -> go cs' (dict_set acc c.c_name j)
              | Err e -> Err e)
         in go m.ctcs [] with
   | Ok cinfo0 ->
     Ok (VMap ((('i'::('d'::[])), fid) :: ((('n'::('a'::('m'::('e'::[])))),
       fid) :: ((('f'::('e'::('a'::('t'::('u'::('r'::('e'::('s'::[])))))))),
       feats0) :: ((('t'::('r'::('e'::('e'::[])))),
       tree) :: ((('c'::('o'::('n'::('s'::('t'::('r'::('a'::('i'::('n'::('t'::('s'::[]))))))))))),
       (VMap cinfo0)) :: []))))))
   | Err e -> Err e)

(** val jtruthy : aval -> bool **)

let jtruthy = function
| VNone -> false
| VBool b -> b
| VInt z0 -> negb (Z.eqb z0 Z0)
| VFloat r ->
  negb
    ((||) (eqb0 r ('0'::('.'::('0'::[]))))
      (eqb0 r ('-'::('0'::('.'::('0'::[]))))))
| VStr s -> negb (eqb0 s [])
| VList l -> (match l with
              | [] -> false
              | _ :: _ -> true)
| VMap kv -> (match kv with
              | [] -> false
              | _ :: _ -> true)

(** val finfo_get : aval -> aval -> char list -> aval result **)

let finfo_get features_info id key =
  match jstr id with
  | Ok ids ->
    (match jget ids features_info with
     | Ok fi -> jget key fi
     | Err e -> Err e)
  | Err e -> Err e

(** val count_true_prefix : bool list -> nat -> nat **)

let rec count_true_prefix l = function
| O -> O
| S n' ->
  (match l with
   | [] -> O
   | b :: l' -> add (if b then S O else O) (count_true_prefix l' n'))

(** val gl_known_type : char list -> bool **)

let gl_known_type ty =
  (||)
    ((||)
      ((||) (eqb0 ty ('F'::('E'::('A'::('T'::('U'::('R'::('E'::[]))))))))
        (eqb0 ty ('X'::('O'::('R'::[]))))) (eqb0 ty ('O'::('R'::[]))))
    (eqb0 ty ('G'::('E'::('N'::('O'::('R'::[]))))))

(** val glencoe_parse_tree :
    nat -> aval -> path -> ptr -> aval -> pfeature result **)

let rec glencoe_parse_tree fuel finfo_ here parent node0 =
  match fuel with
  | O -> Err OtherExn
  | S fuel' ->
    (match jget ('i'::('d'::[])) node0 with
     | Ok fid ->
       (match finfo_get finfo_ fid ('t'::('y'::('p'::('e'::[])))) with
        | Ok tyv ->
          (match finfo_get finfo_ fid ('n'::('a'::('m'::('e'::[])))) with
           | Ok nmv ->
             (match jstr tyv with
              | Ok fty ->
                (match jstr nmv with
                 | Ok fname ->
                   let info0 = mk_info fname in
                   let is_plain =
                     eqb0 fty
                       ('F'::('E'::('A'::('T'::('U'::('R'::('E'::[])))))))
                   in
                   if negb (gl_known_type fty)
                   then Err FlamaException
                   else if jhas
                             ('c'::('h'::('i'::('l'::('d'::('r'::('e'::('n'::[]))))))))
                             node0
                        then (match jget
                                      ('c'::('h'::('i'::('l'::('d'::('r'::('e'::('n'::[]))))))))
                                      node0 with
                              | Ok chv ->
                                (match jlist chv with
                                 | Ok chl ->
                                   let flags =
                                     map (fun c ->
                                       match jget ('i'::('d'::[])) c with
                                       | Ok cid ->
                                         (match finfo_get finfo_ cid
                                                  ('o'::('p'::('t'::('i'::('o'::('n'::('a'::('l'::[])))))))) with
                                          | Ok ov -> Some (jtruthy ov)
                                          | Err _ -> None)
                                       | Err _ -> None) chl
                                   in
                                   let mand =
                                     map (fun o ->
                                       match o with
                                       | Some y -> if y then false else true
                                       | None -> false) flags
                                   in
                                   let n_mand =
                                     length (filter (fun b -> b) mand)
                                   in
                                   let where_ = fun p ->
                                     if is_plain
                                     then (p, O)
                                     else if nth p mand false
                                          then ((count_true_prefix mand p), O)
                                          else (n_mand,
                                                 (sub p
                                                   (count_true_prefix mand p)))
                                   in
                                   (match let rec goc p = function
                                          | [] -> Ok []
                                          | c :: cs ->
                                            (match glencoe_parse_tree fuel'
                                                     finfo_
                                                     (app here
                                                       ((where_ p) :: []))
                                                     (PPath here) c with
                                             | Ok pc ->
                                               (match jget ('i'::('d'::[])) c with
                                                | Ok cid ->
                                                  (match finfo_get finfo_ cid
                                                           ('o'::('p'::('t'::('i'::('o'::('n'::('a'::('l'::[])))))))) with
                                                   | Ok ov ->
                                                     let opt = jtruthy ov in
                                                     (match goc (S p) cs with
                                                      | Ok rest ->
                                                        Ok ((pc, opt) :: rest)
                                                      | Err e -> Err e)
                                                   | Err e -> Err e)
                                                | Err e -> Err e)
                                             | Err e -> Err e)
                                          in goc O chl with
                                    | Ok kids ->
                                      if is_plain
                                      then Ok (PFeature (info0, parent, [],
                                             (map (fun ko -> PRelation
                                               ((PPath here),
                                               (if snd ko then Z0 else Zpos XH),
                                               (Zpos XH), ((fst ko) :: [])))
                                               kids)))
                                      else let singles =
                                             map (fun ko -> PRelation ((PPath
                                               here), (Zpos XH), (Zpos XH),
                                               ((fst ko) :: [])))
                                               (filter (fun ko ->
                                                 negb (snd ko)) kids)
                                           in
                                           let group =
                                             map fst (filter snd kids)
                                           in
                                           (match group with
                                            | [] ->
                                              Ok (PFeature (info0, parent,
                                                [], singles))
                                            | _ :: _ ->
                                              let grp =
                                                if eqb0 fty
                                                     ('X'::('O'::('R'::[])))
                                                then Ok ((Zpos XH), (Zpos XH))
                                                else if eqb0 fty
                                                          ('O'::('R'::[]))
                                                     then Ok ((Zpos XH),
                                                            (Z.of_nat
                                                              (length group)))
                                                     else (match finfo_get
                                                                   finfo_ fid
                                                                   ('m'::('i'::('n'::[]))) with
                                                           | Ok a ->
                                                             (match finfo_get
                                                                    finfo_
                                                                    fid
                                                                    ('m'::('a'::('x'::[]))) with
                                                              | Ok b ->
                                                                (match 
                                                                 jint a with
                                                                 | Ok a' ->
                                                                   (match 
                                                                    jint b with
                                                                    | Ok b' ->
                                                                    Ok (a',
                                                                    b')
                                                                    | Err _ ->
                                                                    Err
                                                                    FlamaException)
                                                                 | Err _ ->
                                                                   Err
                                                                    FlamaException)
                                                              | Err e -> Err e)
                                                           | Err e -> Err e)
                                              in
                                              (match grp with
                                               | Ok a0 ->
                                                 let (a, b) = a0 in
                                                 Ok (PFeature (info0, parent,
                                                 [],
                                                 (app singles ((PRelation
                                                   ((PPath here), a, b,
                                                   group)) :: []))))
                                               | Err e -> Err e))
                                    | Err e -> Err e)
                                 | Err e -> Err e)
                              | Err e -> Err e)
                        else Ok (PFeature (info0, parent, [], []))
                 | Err _ -> Err FlamaException)
              | Err _ -> Err FlamaException)
           | Err e -> Err e)
        | Err e -> Err e)
     | Err e -> Err e)

(** val glencoe_parse_ctc : nat -> aval -> aval -> node result **)

let rec glencoe_parse_ctc fuel finfo_ info0 =
  match fuel with
  | O -> Err OtherExn
  | S fuel' ->
    (match jget ('t'::('y'::('p'::('e'::[])))) info0 with
     | Ok tv ->
       (match jget ('o'::('p'::('e'::('r'::('a'::('n'::('d'::('s'::[]))))))))
                info0 with
        | Ok ov ->
          (match jstr tv with
           | Ok ty ->
             (match jlist ov with
              | Ok ops ->
                let sub0 = fun i ->
                  match nth_operand ops i with
                  | Ok x -> glencoe_parse_ctc fuel' finfo_ x
                  | Err e -> Err e
                in
                let bin2 = fun o ->
                  match sub0 O with
                  | Ok a ->
                    (match sub0 (S O) with
                     | Ok b -> Ok (bin o a b)
                     | Err e -> Err e)
                  | Err e -> Err e
                in
                let nary = fun o ->
                  match mapM (glencoe_parse_ctc fuel' finfo_) ops with
                  | Ok l -> reduce_op o l
                  | Err e -> Err e
                in
                if eqb0 ty
                     ('F'::('e'::('a'::('t'::('u'::('r'::('e'::('T'::('e'::('r'::('m'::[])))))))))))
                then (match nth_operand ops O with
                      | Ok x ->
                        (match finfo_get finfo_ x
                                 ('n'::('a'::('m'::('e'::[])))) with
                         | Ok nv ->
                           (match jstr nv with
                            | Ok nm -> Ok (term nm)
                            | Err _ -> Err FlamaException)
                         | Err e -> Err e)
                      | Err e -> Err e)
                else if eqb0 ty
                          ('N'::('o'::('t'::('T'::('e'::('r'::('m'::[])))))))
                     then (match sub0 O with
                           | Ok a -> Ok (un NOT a)
                           | Err e -> Err e)
                     else if eqb0 ty
                               ('I'::('m'::('p'::('l'::('i'::('e'::('s'::('T'::('e'::('r'::('m'::[])))))))))))
                          then bin2 IMPLIES
                          else if eqb0 ty
                                    ('E'::('x'::('c'::('l'::('u'::('d'::('e'::('s'::('T'::('e'::('r'::('m'::[]))))))))))))
                               then bin2 EXCLUDES
                               else if eqb0 ty
                                         ('E'::('q'::('u'::('i'::('v'::('a'::('l'::('e'::('n'::('t'::('T'::('e'::('r'::('m'::[]))))))))))))))
                                    then bin2 EQUIVALENCE
                                    else if eqb0 ty
                                              ('A'::('n'::('d'::('T'::('e'::('r'::('m'::[])))))))
                                         then nary AND
                                         else if eqb0 ty
                                                   ('O'::('r'::('T'::('e'::('r'::('m'::[]))))))
                                              then nary OR
                                              else if eqb0 ty
                                                        ('X'::('o'::('r'::('T'::('e'::('r'::('m'::[])))))))
                                                   then nary XOR
                                                   else Err FlamaException
              | Err e -> Err e)
           | Err e -> Err e)
        | Err e -> Err e)
     | Err e -> Err e)

(** val glencoe_read : aval -> pfm result **)

let glencoe_read doc =
  match jget ('f'::('e'::('a'::('t'::('u'::('r'::('e'::('s'::[])))))))) doc with
  | Ok fv ->
    (match jget ('t'::('r'::('e'::('e'::[])))) doc with
     | Ok tv ->
       (match doc with
        | VMap kv ->
          (match assoc
                   ('c'::('o'::('n'::('s'::('t'::('r'::('a'::('i'::('n'::('t'::('s'::[])))))))))))
                   kv with
           | Some x ->
             (match glencoe_parse_tree (aval_depth tv) fv [] PNone tv with
              | Ok proot_ ->
                (match x with
                 | VMap ckv ->
                   (match mapM (fun kc ->
                            match glencoe_parse_ctc (aval_depth (snd kc)) fv
                                    (snd kc) with
                            | Ok n0 -> Ok { c_name = (fst kc); c_ast = n0 }
                            | Err e -> Err e) ckv with
                    | Ok cs -> Ok { proot = proot_; pctcs = cs }
                    | Err e -> Err e)
                 | _ -> Err AttributeError)
              | Err e -> Err e)
           | None ->
             let cv = VMap [] in
             (match glencoe_parse_tree (aval_depth tv) fv [] PNone tv with
              | Ok proot_ ->
                (match cv with
                 | VMap ckv ->
                   (match mapM (fun kc ->
                            match glencoe_parse_ctc (aval_depth (snd kc)) fv
                                    (snd kc) with
                            | Ok n0 -> Ok { c_name = (fst kc); c_ast = n0 }
                            | Err e -> Err e) ckv with
                    | Ok cs -> Ok { proot = proot_; pctcs = cs }
                    | Err e -> Err e)
                 | _ -> Err AttributeError)
              | Err e -> Err e))
        | _ -> let e = AttributeError in Err e)
     | Err e -> Err e)
  | Err e -> Err e

(** val fide_TAG_FEATUREMODEL : char list **)

let fide_TAG_FEATUREMODEL =
  'f'::('e'::('a'::('t'::('u'::('r'::('e'::('M'::('o'::('d'::('e'::('l'::[])))))))))))

(** val fide_TAG_STRUCT : char list **)

let fide_TAG_STRUCT =
  's'::('t'::('r'::('u'::('c'::('t'::[])))))

(** val fide_TAG_FEATURE : char list **)

let fide_TAG_FEATURE =
  'f'::('e'::('a'::('t'::('u'::('r'::('e'::[]))))))

(** val fide_TAG_CONSTRAINTS : char list **)

let fide_TAG_CONSTRAINTS =
  'c'::('o'::('n'::('s'::('t'::('r'::('a'::('i'::('n'::('t'::('s'::[]))))))))))

(** val fide_TAG_GRAPHICS : char list **)

let fide_TAG_GRAPHICS =
  'g'::('r'::('a'::('p'::('h'::('i'::('c'::('s'::[])))))))

(** val fide_TAG_DESCRIPTION : char list **)

let fide_TAG_DESCRIPTION =
  'd'::('e'::('s'::('c'::('r'::('i'::('p'::('t'::('i'::('o'::('n'::[]))))))))))

(** val fide_TAG_AND : char list **)

let fide_TAG_AND =
  'a'::('n'::('d'::[]))

(** val fide_TAG_OR : char list **)

let fide_TAG_OR =
  'o'::('r'::[])

(** val fide_TAG_ALT : char list **)

let fide_TAG_ALT =
  'a'::('l'::('t'::[]))

(** val fide_TAG_RULE : char list **)

let fide_TAG_RULE =
  'r'::('u'::('l'::('e'::[])))

(** val fide_TAG_VAR : char list **)

let fide_TAG_VAR =
  'v'::('a'::('r'::[]))

(** val fide_TAG_NOT : char list **)

let fide_TAG_NOT =
  'n'::('o'::('t'::[]))

(** val fide_TAG_IMP : char list **)

let fide_TAG_IMP =
  'i'::('m'::('p'::[]))

(** val fide_TAG_DISJ : char list **)

let fide_TAG_DISJ =
  'd'::('i'::('s'::('j'::[])))

(** val fide_TAG_CONJ : char list **)

let fide_TAG_CONJ =
  'c'::('o'::('n'::('j'::[])))

(** val fide_TAG_EQ : char list **)

let fide_TAG_EQ =
  'e'::('q'::[])

(** val fide_ATTRIB_NAME : char list **)

let fide_ATTRIB_NAME =
  'n'::('a'::('m'::('e'::[])))

(** val fide_ATTRIB_ABSTRACT : char list **)

let fide_ATTRIB_ABSTRACT =
  'a'::('b'::('s'::('t'::('r'::('a'::('c'::('t'::[])))))))

(** val fide_ATTRIB_MANDATORY : char list **)

let fide_ATTRIB_MANDATORY =
  'm'::('a'::('n'::('d'::('a'::('t'::('o'::('r'::('y'::[]))))))))

(** val fide_ctc_type : astop -> char list option **)

let fide_ctc_type = function
| REQUIRES -> Some ('i'::('m'::('p'::[])))
| EXCLUDES -> Some ('i'::('m'::('p'::('n'::[]))))
| AND -> Some ('c'::('o'::('n'::('j'::[]))))
| OR -> Some ('d'::('i'::('s'::('j'::[]))))
| XOR -> Some ('a'::('l'::('t'::[])))
| IMPLIES -> Some ('i'::('m'::('p'::[])))
| NOT -> Some ('n'::('o'::('t'::[])))
| EQUIVALENCE -> Some ('e'::('q'::[]))
| _ -> None

type xml =
| Elem of char list * (char list * char list) list * char list option
   * xml list

(** val x_tag : xml -> char list **)

let x_tag = function
| Elem (t, _, _, _) -> t

(** val x_attrs : xml -> (char list * char list) list **)

let x_attrs = function
| Elem (_, a, _, _) -> a

(** val x_children : xml -> xml list **)

let x_children = function
| Elem (_, _, _, c) -> c

(** val sassoc :
    char list -> (char list * char list) list -> char list option **)

let rec sassoc k = function
| [] -> None
| p :: rest -> let (k', v) = p in if eqb0 k k' then Some v else sassoc k rest

(** val aval_truthy : aval -> bool **)

let aval_truthy = function
| VNone -> false
| VBool b -> b
| VInt z0 -> negb (Z.eqb z0 Z0)
| VFloat r ->
  negb
    ((||) (eqb0 r ('0'::('.'::('0'::[]))))
      (eqb0 r ('-'::('0'::('.'::('0'::[]))))))
| VStr s -> negb (eqb0 s [])
| VList l -> negb (Nat.eqb (length l) O)
| VMap kv -> negb (Nat.eqb (length kv) O)

(** val fide_tag : feature -> char list **)

let fide_tag f =
  if feat_is_leaf f
  then fide_TAG_FEATURE
  else if feat_is_or_group f
       then fide_TAG_OR
       else if feat_is_alternative_group f then fide_TAG_ALT else fide_TAG_AND

(** val fide_attributes :
    feature option -> feature -> (char list * char list) list **)

let fide_attributes p f =
  app
    (if feat_is_mandatory p f
     then (('m'::('a'::('n'::('d'::('a'::('t'::('o'::('r'::('y'::[]))))))))),
            ('t'::('r'::('u'::('e'::[]))))) :: []
     else [])
    (app
      (if aval_truthy (info f).f_abstract
       then (('a'::('b'::('s'::('t'::('r'::('a'::('c'::('t'::[])))))))),
              ('t'::('r'::('u'::('e'::[]))))) :: []
       else []) ((('n'::('a'::('m'::('e'::[])))), (name f)) :: []))

(** val fide_elem : feature option -> feature -> xml **)

let rec fide_elem p f = match f with
| Feature (_, rs) ->
  Elem ((fide_tag f), (fide_attributes p f), None,
    (flat_map (fun r ->
      let Relation (_, _, cs) = r in map (fide_elem (Some f)) cs) rs))

type cinfo =
| CVar of char list
| COp of char list * cinfo list

(** val fide_ctc_info : node -> cinfo result **)

let rec fide_ctc_info n0 = match n0 with
| Node (d, l, r) ->
  if is_term n0
  then Ok (CVar (data_str d))
  else (match d with
        | DOp o ->
          (match o with
           | EXCLUDES ->
             (match l with
              | Some a ->
                (match fide_ctc_info a with
                 | Ok ja ->
                   (match r with
                    | Some b ->
                      (match fide_ctc_info b with
                       | Ok jb ->
                         Ok (COp (fide_TAG_IMP, (ja :: ((COp (fide_TAG_NOT,
                           (jb :: []))) :: []))))
                       | Err e -> Err e)
                    | None -> Err AttributeError)
                 | Err e -> Err e)
              | None -> Err AttributeError)
           | _ ->
             (match fide_ctc_type o with
              | Some ty ->
                (match l with
                 | Some a ->
                   (match fide_ctc_info a with
                    | Ok ja ->
                      (match r with
                       | Some b ->
                         (match fide_ctc_info b with
                          | Ok jb -> Ok (COp (ty, (ja :: (jb :: []))))
                          | Err e -> Err e)
                       | None -> Ok (COp (ty, (ja :: []))))
                    | Err e -> Err e)
                 | None -> Err AttributeError)
              | None -> Err KeyError))
        | _ -> Err OtherExn)

(** val fide_ctc_elem : cinfo -> xml **)

let rec fide_ctc_elem = function
| CVar nm -> Elem (fide_TAG_VAR, [], (Some nm), [])
| COp (ty, ops) ->
  Elem (ty, [], None,
    (if (||) (Nat.ltb (S O) (length ops)) (eqb0 ty fide_TAG_NOT)
     then map fide_ctc_elem ops
     else []))

(** val fide_write : fm -> xml result **)

let fide_write m =
  match mapM (fun c ->
          match pretty_str c.c_ast with
          | Ok _ -> fide_ctc_info c.c_ast
          | Err e -> Err e) m.ctcs with
  | Ok infos ->
    Ok (Elem (fide_TAG_FEATUREMODEL, [], None, ((Elem (fide_TAG_STRUCT, [],
      None, ((fide_elem None m.root) :: []))) :: ((Elem
      (fide_TAG_CONSTRAINTS, [], None,
      (map (fun ci -> Elem (fide_TAG_RULE, [], None,
        ((fide_ctc_elem ci) :: []))) infos))) :: []))))
  | Err e -> Err e

(** val fide_skipped : xml -> bool **)

let fide_skipped x =
  (||) (eqb0 (x_tag x) fide_TAG_GRAPHICS)
    (eqb0 (x_tag x) fide_TAG_DESCRIPTION)

(** val fide_read_features :
    xml -> path -> ptr -> bool -> (pfeature * bool) list result **)

let rec fide_read_features root_tree here parent is_struct =
  let Elem (rtag, _, _, kids) = root_tree in
  let parent_is_and = (&&) (eqb0 rtag fide_TAG_AND) (negb is_struct) in
  (match let rec go p = function
         | [] -> Ok []
         | child :: rest ->
           if fide_skipped child
           then go p rest
           else (match sassoc fide_ATTRIB_NAME (x_attrs child) with
                 | Some nm ->
                   let is_abs =
                     match sassoc fide_ATTRIB_ABSTRACT (x_attrs child) with
                     | Some v -> eqb0 v ('t'::('r'::('u'::('e'::[]))))
                     | None -> false
                   in
                   let mand =
                     match sassoc fide_ATTRIB_MANDATORY (x_attrs child) with
                     | Some v -> eqb0 v ('t'::('r'::('u'::('e'::[]))))
                     | None -> false
                   in
                   let info0 = { f_name = nm; f_abstract = (VBool is_abs);
                     f_type = TBoolean; f_cmin = (Zpos XH); f_cmax = (Zpos
                     XH); f_attrs = [] }
                   in
                   let my_path =
                     if is_struct
                     then []
                     else if parent_is_and
                          then app here ((p, O) :: [])
                          else app here ((O, p) :: [])
                   in
                   let own =
                     let ctag = x_tag child in
                     if (||) (eqb0 ctag fide_TAG_ALT) (eqb0 ctag fide_TAG_OR)
                     then (match fide_read_features child my_path (PPath
                                   my_path) false with
                           | Ok dc ->
                             let cs = map fst dc in
                             Ok ((PRelation ((PPath my_path), (Zpos XH),
                             (if eqb0 ctag fide_TAG_ALT
                              then Zpos XH
                              else Z.of_nat (length cs)), cs)) :: [])
                           | Err e -> Err e)
                     else if eqb0 ctag fide_TAG_AND
                          then (match fide_read_features child my_path (PPath
                                        my_path) false with
                                | Ok dc ->
                                  Ok
                                    (map (fun fm_ -> PRelation ((PPath
                                      my_path),
                                      (if snd fm_ then Zpos XH else Z0),
                                      (Zpos XH), ((fst fm_) :: []))) dc)
                                | Err e -> Err e)
                          else Ok []
                   in
                   (match own with
                    | Ok rels_ ->
                      (match go (S p) rest with
                       | Ok others ->
                         Ok (((PFeature (info0, parent, [], rels_)),
                           mand) :: others)
                       | Err e -> Err e)
                    | Err e -> Err e)
                 | None -> Err KeyError)
         in go O kids with
   | Ok l -> (match l with
              | [] -> Err FlamaException
              | _ :: _ -> Ok l)
   | Err e -> Err e)

(** val fide_parse_rule : xml -> node result **)

let rec fide_parse_rule = function
| Elem (tag, _, text, kids) ->
  let sub0 = fun i ->
    match i with
    | O ->
      (match kids with
       | [] -> Err IndexError
       | k0 :: _ -> fide_parse_rule k0)
    | S n0 ->
      (match n0 with
       | O ->
         (match kids with
          | [] -> Err IndexError
          | _ :: l ->
            (match l with
             | [] -> Err IndexError
             | k1 :: _ -> fide_parse_rule k1))
       | S _ -> Err IndexError)
  in
  if eqb0 tag fide_TAG_VAR
  then (match text with
        | Some t -> Ok (term t)
        | None -> Err FlamaException)
  else if eqb0 tag fide_TAG_NOT
       then (match sub0 O with
             | Ok a -> Ok (un NOT a)
             | Err e -> Err e)
       else if eqb0 tag fide_TAG_IMP
            then (match sub0 O with
                  | Ok a ->
                    (match sub0 (S O) with
                     | Ok b -> Ok (bin IMPLIES a b)
                     | Err e -> Err e)
                  | Err e -> Err e)
            else if eqb0 tag fide_TAG_EQ
                 then (match sub0 O with
                       | Ok a ->
                         (match sub0 (S O) with
                          | Ok b ->
                            Ok (bin AND (bin IMPLIES a b) (bin IMPLIES b a))
                          | Err e -> Err e)
                       | Err e -> Err e)
                 else if (||) (eqb0 tag fide_TAG_DISJ)
                           (eqb0 tag fide_TAG_CONJ)
                      then let o = if eqb0 tag fide_TAG_DISJ then OR else AND
                           in
                           (match kids with
                            | [] -> Err IndexError
                            | k0 :: ks ->
                              (match fide_parse_rule k0 with
                               | Ok n0 ->
                                 let rec go acc = function
                                 | [] -> Ok acc
                                 | k :: ks' ->
                                   (match fide_parse_rule k with
                                    | Ok n1 -> go (bin o acc n1) ks'
                                    | Err e -> Err e)
                                 in go n0 ks
                               | Err e -> Err e))
                      else Err UnboundLocalError

(** val fide_read_constraints : xml -> ctc list result **)

let fide_read_constraints ctcs_root =
  let rec go number = function
  | [] -> Ok []
  | r :: rest ->
    (match let rec skip = function
           | [] -> Err IndexError
           | x :: l' -> if fide_skipped x then skip l' else Ok x
           in skip (x_children r) with
     | Ok rule ->
       (match fide_parse_rule rule with
        | Ok n0 ->
          (match go (Z.add number (Zpos XH)) rest with
           | Ok cs -> Ok ({ c_name = (z_to_string number); c_ast = n0 } :: cs)
           | Err e -> Err e)
        | Err e -> Err e)
     | Err e -> Err e)
  in go (Zpos XH) (x_children ctcs_root)

(** val fide_read : xml -> pfm result **)

let fide_read doc =
  let rec go kids root_ cs =
    match kids with
    | [] ->
      (match root_ with
       | Some r -> Ok { proot = r; pctcs = cs }
       | None -> Err FlamaException)
    | k :: rest ->
      if eqb0 (x_tag k) fide_TAG_STRUCT
      then (match fide_read_features k [] PNone true with
            | Ok l ->
              go rest (option_map fst (last (map (fun x -> Some x) l) None))
                cs
            | Err e -> Err e)
      else if eqb0 (x_tag k) fide_TAG_CONSTRAINTS
           then (match fide_read_constraints k with
                 | Ok c -> go rest root_ (app cs c)
                 | Err e -> Err e)
           else go rest root_ cs
  in go (x_children doc) None []

(** val xattr : char list -> xml -> char list option **)

let xattr k x =
  sassoc k (x_attrs x)

(** val tag_is : char list -> xml -> bool **)

let tag_is t x =
  eqb0 (str_lower (x_tag x)) t

(** val xint : char list -> xml -> z result **)

let xint k x =
  match xattr k x with
  | Some s ->
    (match string_to_z s with
     | Some z0 -> Ok z0
     | None -> Err ValueError)
  | None -> Err ValueError

(** val fama_parse_feature :
    xml -> path -> ptr -> char list list -> (pfeature * char list list) result **)

let rec fama_parse_feature el here parent seen =
  let Elem (_, attrs, _, kids) = el in
  let nm =
    match sassoc ('n'::('a'::('m'::('e'::[])))) attrs with
    | Some s -> s
    | None -> 'N'::('o'::('n'::('e'::[])))
  in
  if list_existsb_eq nm seen
  then Err DuplicatedFeature
  else let info0 = mk_info nm in
       (match let rec go k kids0 seen0 =
                match kids0 with
                | [] -> Ok ([], seen0)
                | rel :: rest ->
                  let is_bin =
                    tag_is
                      ('b'::('i'::('n'::('a'::('r'::('y'::('r'::('e'::('l'::('a'::('t'::('i'::('o'::('n'::[]))))))))))))))
                      rel
                  in
                  let is_set =
                    tag_is
                      ('s'::('e'::('t'::('r'::('e'::('l'::('a'::('t'::('i'::('o'::('n'::[])))))))))))
                      rel
                  in
                  if (||) is_bin is_set
                  then let child_tag =
                         if is_bin
                         then 's'::('o'::('l'::('i'::('t'::('a'::('r'::('y'::('f'::('e'::('a'::('t'::('u'::('r'::('e'::[]))))))))))))))
                         else 'g'::('r'::('o'::('u'::('p'::('e'::('d'::('f'::('e'::('a'::('t'::('u'::('r'::('e'::[])))))))))))))
                       in
                       (match let rec gor j items mn mx seen1 =
                                match items with
                                | [] -> Ok ((([], mn), mx), seen1)
                                | it :: its ->
                                  if tag_is child_tag it
                                  then (match fama_parse_feature it
                                                (app here ((k, j) :: []))
                                                (PPath here) seen1 with
                                        | Ok a ->
                                          let (pc, seen') = a in
                                          (match gor (S j) its mn mx seen' with
                                           | Ok a0 ->
                                             let (p, s2) = a0 in
                                             let (p0, b) = p in
                                             let (pcs, a1) = p0 in
                                             Ok ((((pc :: pcs), a1), b), s2)
                                           | Err e -> Err e)
                                        | Err e -> Err e)
                                  else if tag_is
                                            ('c'::('a'::('r'::('d'::('i'::('n'::('a'::('l'::('i'::('t'::('y'::[])))))))))))
                                            it
                                       then (match xint
                                                     ('m'::('i'::('n'::[])))
                                                     it with
                                             | Ok a ->
                                               (match xint
                                                        ('m'::('a'::('x'::[])))
                                                        it with
                                                | Ok b -> gor j its a b seen1
                                                | Err e -> Err e)
                                             | Err e -> Err e)
                                       else gor j its mn mx seen1
                              in gor O (x_children rel) Z0 Z0 seen0 with
                        | Ok a0 ->
                          let (p, seen') = a0 in
                          let (p0, b) = p in
                          let (cs, a) = p0 in
                          (match cs with
                           | [] -> Err FlamaException
                           | _ :: _ ->
                             (match go (S k) rest seen' with
                              | Ok a1 ->
                                let (prs, s3) = a1 in
                                Ok (((PRelation ((PPath here), a, b,
                                cs)) :: prs), s3)
                              | Err e -> Err e))
                        | Err e -> Err e)
                  else go k rest seen0
              in go O kids (nm :: seen) with
        | Ok a ->
          let (prs, seen') = a in
          Ok ((PFeature (info0, parent, [], prs)), seen')
        | Err e -> Err e)

(** val fama_parse_ctc : xml -> char list list -> ctc result **)

let fama_parse_ctc el seen =
  match xattr ('n'::('a'::('m'::('e'::[])))) el with
  | Some nm ->
    let known = fun o ->
      match o with
      | Some s -> list_existsb_eq s seen
      | None -> false
    in
    let origin =
      if known (xattr ('f'::('e'::('a'::('t'::('u'::('r'::('e'::[]))))))) el)
      then xattr ('f'::('e'::('a'::('t'::('u'::('r'::('e'::[]))))))) el
      else None
    in
    let dest_op =
      if (&&)
           (tag_is ('e'::('x'::('c'::('l'::('u'::('d'::('e'::('s'::[]))))))))
             el)
           (known
             (xattr
               ('e'::('x'::('c'::('l'::('u'::('d'::('e'::('s'::[])))))))) el))
      then (match xattr
                    ('e'::('x'::('c'::('l'::('u'::('d'::('e'::('s'::[]))))))))
                    el with
            | Some d -> Some (d, EXCLUDES)
            | None -> None)
      else if (&&)
                (tag_is
                  ('r'::('e'::('q'::('u'::('i'::('r'::('e'::('s'::[]))))))))
                  el)
                (known
                  (xattr
                    ('r'::('e'::('q'::('u'::('i'::('r'::('e'::('s'::[]))))))))
                    el))
           then (match xattr
                         ('r'::('e'::('q'::('u'::('i'::('r'::('e'::('s'::[]))))))))
                         el with
                 | Some d -> Some (d, REQUIRES)
                 | None -> None)
           else None
    in
    (match origin with
     | Some o ->
       (match dest_op with
        | Some p ->
          let (d, op) = p in
          Ok { c_name = nm; c_ast = (bin op (term o) (term d)) }
        | None -> Err FlamaException)
     | None -> Err FlamaException)
  | None -> Err FlamaException

(** val fama_read : xml -> pfm result **)

let fama_read doc =
  let rec go kids cur seen =
    match kids with
    | [] ->
      (match cur with
       | Some p -> let (r, cs) = p in Ok { proot = r; pctcs = cs }
       | None -> Err UnboundLocalError)
    | k :: rest ->
      if tag_is ('f'::('e'::('a'::('t'::('u'::('r'::('e'::[]))))))) k
      then (match fama_parse_feature k [] PNone seen with
            | Ok a -> let (r, seen') = a in go rest (Some (r, [])) seen'
            | Err e -> Err e)
      else if (||)
                (tag_is
                  ('e'::('x'::('c'::('l'::('u'::('d'::('e'::('s'::[]))))))))
                  k)
                (tag_is
                  ('r'::('e'::('q'::('u'::('i'::('r'::('e'::('s'::[]))))))))
                  k)
           then (match fama_parse_ctc k seen with
                 | Ok c ->
                   (match cur with
                    | Some p ->
                      let (r, cs) = p in
                      go rest (Some (r, (app cs (c :: [])))) seen
                    | None -> Err UnboundLocalError)
                 | Err e -> Err e)
           else go rest cur seen
  in go (x_children doc) None []

(** val uvl_operator : astop -> char list option **)

let uvl_operator = function
| EXCLUDES -> Some ('='::('>'::(' '::('!'::[]))))
| AND -> Some ('&'::[])
| OR -> Some ('|'::[])
| XOR -> Some ('X'::('O'::('R'::[])))
| NOT -> Some ('!'::[])
| EQUIVALENCE -> Some ('<'::('='::('>'::[])))
| EQUALS -> Some ('='::('='::[]))
| LOWER -> Some ('<'::[])
| GREATER -> Some ('>'::[])
| LOWER_EQUALS -> Some ('<'::('='::[]))
| GREATER_EQUALS -> Some ('>'::('='::[]))
| NOT_EQUALS -> Some ('!'::('='::[]))
| ADD -> Some ('+'::[])
| SUB -> Some ('-'::[])
| MUL -> Some ('*'::[])
| DIV -> Some ('/'::[])
| SUM -> Some ('s'::('u'::('m'::[])))
| AVG -> Some ('a'::('v'::('g'::[])))
| LEN -> Some ('l'::('e'::('n'::[])))
| FLOOR -> Some ('f'::('l'::('o'::('o'::('r'::[])))))
| CEIL -> Some ('c'::('e'::('i'::('l'::[]))))
| _ -> Some ('='::('>'::[]))

(** val uvl_keywords : char list list **)

let uvl_keywords =
  ('A'::('r'::('i'::('t'::('h'::('m'::('e'::('t'::('i'::('c'::[])))))))))) :: (('B'::('o'::('o'::('l'::('e'::('a'::('n'::[]))))))) :: (('I'::('n'::('t'::('e'::('g'::('e'::('r'::[]))))))) :: (('R'::('e'::('a'::('l'::[])))) :: (('S'::('t'::('r'::('i'::('n'::('g'::[])))))) :: (('T'::('y'::('p'::('e'::[])))) :: (('a'::('l'::('t'::('e'::('r'::('n'::('a'::('t'::('i'::('v'::('e'::[]))))))))))) :: (('a'::('s'::[])) :: (('a'::('v'::('g'::[]))) :: (('c'::('a'::('r'::('d'::('i'::('n'::('a'::('l'::('i'::('t'::('y'::[]))))))))))) :: (('c'::('e'::('i'::('l'::[])))) :: (('c'::('o'::('n'::('s'::('t'::('r'::('a'::('i'::('n'::('t'::[])))))))))) :: (('c'::('o'::('n'::('s'::('t'::('r'::('a'::('i'::('n'::('t'::('s'::[]))))))))))) :: (('f'::('a'::('l'::('s'::('e'::[]))))) :: (('f'::('e'::('a'::('t'::('u'::('r'::('e'::('s'::[])))))))) :: (('f'::('l'::('o'::('o'::('r'::[]))))) :: (('i'::('m'::('p'::('o'::('r'::('t'::('s'::[]))))))) :: (('i'::('n'::('c'::('l'::('u'::('d'::('e'::[]))))))) :: (('l'::('e'::('n'::[]))) :: (('m'::('a'::('n'::('d'::('a'::('t'::('o'::('r'::('y'::[]))))))))) :: (('n'::('a'::('m'::('e'::('s'::('p'::('a'::('c'::('e'::[]))))))))) :: (('o'::('p'::('t'::('i'::('o'::('n'::('a'::('l'::[])))))))) :: (('o'::('r'::[])) :: (('s'::('u'::('m'::[]))) :: (('t'::('r'::('u'::('e'::[])))) :: []))))))))))))))))))))))))

type uvalue =
| UVBool of char list
| UVFloat of char list * char list
| UVInt of char list
| UVStr of char list
| UVAttrs of uattr list
| UVVector of uvalue list
and uattr =
| UAValue of char list * uvalue option
| UAConstraint
| UAOther

type gkind =
| GOr
| GAlt
| GOpt
| GMand
| GCard of char list

type ufeature =
| UFeature of char list option * char list * char list option
   * uattr list option * ugroup list
and ugroup =
| UGroup of gkind * ufeature list

type aggr =
| AgSum
| AgAvg
| AgLen
| AgFloor
| AgCeil

type ucst =
| KLiteral of char list
| KNot of ucst
| KBin of astop * ucst * ucst
| KParen of ucst
| KInt of char list
| KFloat of char list * char list
| KStr of char list
| KAggr of aggr * char list list

type udoc = { d_root : ufeature option; d_ctcs : ucst list option }

(** val is_plain_id : char list -> bool **)

let is_plain_id = function
| [] -> false
| c::rest -> (&&) (is_alpha c) (str_forallb is_safechar rest)

(** val uvl_safe_simple_name : char list -> char list **)

let uvl_safe_simple_name nm =
  if (&&) (starts_with_char '\'' nm) (ends_with_char '\'' nm)
  then nm
  else if (&&) (is_plain_id nm) (negb (list_existsb_eq nm uvl_keywords))
       then nm
       else quote nm

(** val uvl_safename : char list -> char list **)

let uvl_safename nm =
  if str_contains_char '.' nm
  then str_join ('.'::[]) (map uvl_safe_simple_name (str_split '.' nm))
  else uvl_safe_simple_name nm

(** val card_text : z -> z -> char list **)

let card_text mn mx =
  append ('['::[])
    (append (z_to_string mn)
      (append ('.'::('.'::[]))
        (append (if Z.eqb mx (Zneg XH) then '*'::[] else z_to_string mx)
          (']'::[]))))

(** val float_text : char list -> char list option **)

let float_text r =
  if (||) ((||) (str_contains_char 'e' r) (str_contains_char 'E' r))
       (str_contains_char 'n' r)
  then None
  else Some (if str_contains_char '.' r then r else append r ('.'::('0'::[])))

(** val value_cst : aval -> uvalue result **)

let rec value_cst = function
| VNone -> Ok (UVStr ('N'::('o'::('n'::('e'::[])))))
| VBool b ->
  Ok (UVBool
    (if b
     then 't'::('r'::('u'::('e'::[])))
     else 'f'::('a'::('l'::('s'::('e'::[]))))))
| VInt z0 -> Ok (UVInt (z_to_string z0))
| VFloat r ->
  (match float_text r with
   | Some t -> Ok (UVFloat (t, r))
   | None -> Err OtherExn)
| VStr s -> Ok (UVStr (append ('\''::[]) (append s ('\''::[]))))
| VList l ->
  (match mapM value_cst l with
   | Ok l' -> Ok (UVVector l')
   | Err e -> Err e)
| VMap kv ->
  (match mapM (fun p ->
           let (k, x) = p in
           (match x with
            | VNone -> Ok (UAValue ((uvl_safename k), None))
            | _ ->
              (match value_cst x with
               | Ok x' -> Ok (UAValue ((uvl_safename k), (Some x')))
               | Err e -> Err e))) kv with
   | Ok l -> Ok (UVAttrs l)
   | Err e -> Err e)

(** val attrs_cst : feature -> uattr list option result **)

let attrs_cst f =
  let abs0 =
    if aval_truthy (info f).f_abstract
    then (UAValue
           (('a'::('b'::('s'::('t'::('r'::('a'::('c'::('t'::[])))))))),
           None)) :: []
    else []
  in
  (match mapM (fun a ->
           match a.a_default with
           | VNone -> Ok (UAValue ((uvl_safename a.a_name), None))
           | x ->
             (match value_cst x with
              | Ok v' -> Ok (UAValue ((uvl_safename a.a_name), (Some v')))
              | Err e -> Err e)) (info f).f_attrs with
   | Ok l -> Ok (match app abs0 l with
                 | [] -> None
                 | u :: l0 -> Some (u :: l0))
   | Err e -> Err e)

(** val group_kind : relation -> gkind **)

let group_kind r =
  if rel_is_alternative r
  then GAlt
  else if rel_is_mandatory r
       then GMand
       else if rel_is_optional r
            then GOpt
            else if rel_is_or r
                 then GOr
                 else if Z.eqb (r_min r) (r_max r)
                      then GCard
                             (append ('['::[])
                               (append (z_to_string (r_min r)) (']'::[])))
                      else GCard (card_text (r_min r) (r_max r))

(** val ftype_value : ftype -> char list **)

let ftype_value = function
| TBoolean -> 'B'::('o'::('o'::('l'::('e'::('a'::('n'::[]))))))
| TInteger -> 'I'::('n'::('t'::('e'::('g'::('e'::('r'::[]))))))
| TReal -> 'R'::('e'::('a'::('l'::[])))
| TString -> 'S'::('t'::('r'::('i'::('n'::('g'::[])))))

(** val feature_cst : feature -> ufeature result **)

let rec feature_cst f = match f with
| Feature (i, rs) ->
  (match attrs_cst f with
   | Ok at_ ->
     (match mapM (fun r ->
              let Relation (_, _, cs) = r in
              (match mapM feature_cst cs with
               | Ok cs' -> Ok (UGroup ((group_kind r), cs'))
               | Err e -> Err e)) rs with
      | Ok gs ->
        Ok (UFeature
          ((if feat_is_boolean f then None else Some (ftype_value i.f_type)),
          (uvl_safename i.f_name),
          (if feat_is_multifeature f
           then Some (card_text i.f_cmin i.f_cmax)
           else None), at_, gs))
      | Err e -> Err e)
   | Err e -> Err e)

(** val aggr_of : astop -> aggr option **)

let aggr_of = function
| SUM -> Some AgSum
| AVG -> Some AgAvg
| LEN -> Some AgLen
| FLOOR -> Some AgFloor
| CEIL -> Some AgCeil
| _ -> None

(** val is_compound : node -> bool **)

let is_compound n0 =
  match n_data n0 with
  | DOp o ->
    (&&) (negb (astop_eqb o NOT))
      (negb (op_in o (SUM :: (AVG :: (LEN :: (FLOOR :: (CEIL :: [])))))))
  | _ -> false

(** val node_cst : node -> ucst result **)

let rec node_cst = function
| Node (d, l, r) ->
  let operand = fun c ->
    match c with
    | Some x ->
      (match node_cst x with
       | Ok cx -> Ok (if is_compound x then KParen cx else cx)
       | Err e -> Err e)
    | None -> Err AttributeError
  in
  (match d with
   | DOp o ->
     (match o with
      | REQUIRES ->
        (match aggr_of o with
         | Some ag ->
           let arg = fun c ->
             match c with
             | Some n1 ->
               let Node (d0, _, _) = n1 in
               (match d0 with
                | DOp _ -> Err OtherExn
                | DStr s ->
                  Ok
                    ((if starts_with_char '\'' s then s else uvl_safename s) :: [])
                | _ -> Err OtherExn)
             | None -> Ok []
           in
           (match arg l with
            | Ok a1 ->
              (match arg r with
               | Ok a2 -> Ok (KAggr (ag, (app a1 a2)))
               | Err e -> Err e)
            | Err e -> Err e)
         | None ->
           (match operand l with
            | Ok cl ->
              (match operand r with
               | Ok cr ->
                 (match o with
                  | REQUIRES -> Ok (KBin (IMPLIES, cl, cr))
                  | EXCLUDES -> Ok (KBin (IMPLIES, cl, (KNot cr)))
                  | _ -> Ok (KBin (o, cl, cr)))
               | Err e -> Err e)
            | Err e -> Err e))
      | EXCLUDES ->
        (match aggr_of o with
         | Some ag ->
           let arg = fun c ->
             match c with
             | Some n1 ->
               let Node (d0, _, _) = n1 in
               (match d0 with
                | DOp _ -> Err OtherExn
                | DStr s ->
                  Ok
                    ((if starts_with_char '\'' s then s else uvl_safename s) :: [])
                | _ -> Err OtherExn)
             | None -> Ok []
           in
           (match arg l with
            | Ok a1 ->
              (match arg r with
               | Ok a2 -> Ok (KAggr (ag, (app a1 a2)))
               | Err e -> Err e)
            | Err e -> Err e)
         | None ->
           (match operand l with
            | Ok cl ->
              (match operand r with
               | Ok cr ->
                 (match o with
                  | REQUIRES -> Ok (KBin (IMPLIES, cl, cr))
                  | EXCLUDES -> Ok (KBin (IMPLIES, cl, (KNot cr)))
                  | _ -> Ok (KBin (o, cl, cr)))
               | Err e -> Err e)
            | Err e -> Err e))
      | AND ->
        (match aggr_of o with
         | Some ag ->
           let arg = fun c ->
             match c with
             | Some n1 ->
               let Node (d0, _, _) = n1 in
               (match d0 with
                | DOp _ -> Err OtherExn
                | DStr s ->
                  Ok
                    ((if starts_with_char '\'' s then s else uvl_safename s) :: [])
                | _ -> Err OtherExn)
             | None -> Ok []
           in
           (match arg l with
            | Ok a1 ->
              (match arg r with
               | Ok a2 -> Ok (KAggr (ag, (app a1 a2)))
               | Err e -> Err e)
            | Err e -> Err e)
         | None ->
           (match operand l with
            | Ok cl ->
              (match operand r with
               | Ok cr ->
                 (match o with
                  | REQUIRES -> Ok (KBin (IMPLIES, cl, cr))
                  | EXCLUDES -> Ok (KBin (IMPLIES, cl, (KNot cr)))
                  | _ -> Ok (KBin (o, cl, cr)))
               | Err e -> Err e)
            | Err e -> Err e))
      | OR ->
        (match aggr_of o with
         | Some ag ->
           let arg = fun c ->
             match c with
             | Some n1 ->
               let Node (d0, _, _) = n1 in
               (match d0 with
                | DOp _ -> Err OtherExn
                | DStr s ->
                  Ok
                    ((if starts_with_char '\'' s then s else uvl_safename s) :: [])
                | _ -> Err OtherExn)
             | None -> Ok []
           in
           (match arg l with
            | Ok a1 ->
              (match arg r with
               | Ok a2 -> Ok (KAggr (ag, (app a1 a2)))
               | Err e -> Err e)
            | Err e -> Err e)
         | None ->
           (match operand l with
            | Ok cl ->
              (match operand r with
               | Ok cr ->
                 (match o with
                  | REQUIRES -> Ok (KBin (IMPLIES, cl, cr))
                  | EXCLUDES -> Ok (KBin (IMPLIES, cl, (KNot cr)))
                  | _ -> Ok (KBin (o, cl, cr)))
               | Err e -> Err e)
            | Err e -> Err e))
      | XOR -> Err FlamaException
      | IMPLIES ->
        (match aggr_of o with
         | Some ag ->
           let arg = fun c ->
             match c with
             | Some n1 ->
               let Node (d0, _, _) = n1 in
               (match d0 with
                | DOp _ -> Err OtherExn
                | DStr s ->
                  Ok
                    ((if starts_with_char '\'' s then s else uvl_safename s) :: [])
                | _ -> Err OtherExn)
             | None -> Ok []
           in
           (match arg l with
            | Ok a1 ->
              (match arg r with
               | Ok a2 -> Ok (KAggr (ag, (app a1 a2)))
               | Err e -> Err e)
            | Err e -> Err e)
         | None ->
           (match operand l with
            | Ok cl ->
              (match operand r with
               | Ok cr ->
                 (match o with
                  | REQUIRES -> Ok (KBin (IMPLIES, cl, cr))
                  | EXCLUDES -> Ok (KBin (IMPLIES, cl, (KNot cr)))
                  | _ -> Ok (KBin (o, cl, cr)))
               | Err e -> Err e)
            | Err e -> Err e))
      | NOT -> (match operand l with
                | Ok c -> Ok (KNot c)
                | Err e -> Err e)
      | EQUIVALENCE ->
        (match aggr_of o with
         | Some ag ->
           let arg = fun c ->
             match c with
             | Some n1 ->
               let Node (d0, _, _) = n1 in
               (match d0 with
                | DOp _ -> Err OtherExn
                | DStr s ->
                  Ok
                    ((if starts_with_char '\'' s then s else uvl_safename s) :: [])
                | _ -> Err OtherExn)
             | None -> Ok []
           in
           (match arg l with
            | Ok a1 ->
              (match arg r with
               | Ok a2 -> Ok (KAggr (ag, (app a1 a2)))
               | Err e -> Err e)
            | Err e -> Err e)
         | None ->
           (match operand l with
            | Ok cl ->
              (match operand r with
               | Ok cr ->
                 (match o with
                  | REQUIRES -> Ok (KBin (IMPLIES, cl, cr))
                  | EXCLUDES -> Ok (KBin (IMPLIES, cl, (KNot cr)))
                  | _ -> Ok (KBin (o, cl, cr)))
               | Err e -> Err e)
            | Err e -> Err e))
      | EQUALS ->
        (match aggr_of o with
         | Some ag ->
           let arg = fun c ->
             match c with
             | Some n1 ->
               let Node (d0, _, _) = n1 in
               (match d0 with
                | DOp _ -> Err OtherExn
                | DStr s ->
                  Ok
                    ((if starts_with_char '\'' s then s else uvl_safename s) :: [])
                | _ -> Err OtherExn)
             | None -> Ok []
           in
           (match arg l with
            | Ok a1 ->
              (match arg r with
               | Ok a2 -> Ok (KAggr (ag, (app a1 a2)))
               | Err e -> Err e)
            | Err e -> Err e)
         | None ->
           (match operand l with
            | Ok cl ->
              (match operand r with
               | Ok cr ->
                 (match o with
                  | REQUIRES -> Ok (KBin (IMPLIES, cl, cr))
                  | EXCLUDES -> Ok (KBin (IMPLIES, cl, (KNot cr)))
                  | _ -> Ok (KBin (o, cl, cr)))
               | Err e -> Err e)
            | Err e -> Err e))
      | LOWER ->
        (match aggr_of o with
         | Some ag ->
           let arg = fun c ->
             match c with
             | Some n1 ->
               let Node (d0, _, _) = n1 in
               (match d0 with
                | DOp _ -> Err OtherExn
                | DStr s ->
                  Ok
                    ((if starts_with_char '\'' s then s else uvl_safename s) :: [])
                | _ -> Err OtherExn)
             | None -> Ok []
           in
           (match arg l with
            | Ok a1 ->
              (match arg r with
               | Ok a2 -> Ok (KAggr (ag, (app a1 a2)))
               | Err e -> Err e)
            | Err e -> Err e)
         | None ->
           (match operand l with
            | Ok cl ->
              (match operand r with
               | Ok cr ->
                 (match o with
                  | REQUIRES -> Ok (KBin (IMPLIES, cl, cr))
                  | EXCLUDES -> Ok (KBin (IMPLIES, cl, (KNot cr)))
                  | _ -> Ok (KBin (o, cl, cr)))
               | Err e -> Err e)
            | Err e -> Err e))
      | GREATER ->
        (match aggr_of o with
         | Some ag ->
           let arg = fun c ->
             match c with
             | Some n1 ->
               let Node (d0, _, _) = n1 in
               (match d0 with
                | DOp _ -> Err OtherExn
                | DStr s ->
                  Ok
                    ((if starts_with_char '\'' s then s else uvl_safename s) :: [])
                | _ -> Err OtherExn)
             | None -> Ok []
           in
           (match arg l with
            | Ok a1 ->
              (match arg r with
               | Ok a2 -> Ok (KAggr (ag, (app a1 a2)))
               | Err e -> Err e)
            | Err e -> Err e)
         | None ->
           (match operand l with
            | Ok cl ->
              (match operand r with
               | Ok cr ->
                 (match o with
                  | REQUIRES -> Ok (KBin (IMPLIES, cl, cr))
                  | EXCLUDES -> Ok (KBin (IMPLIES, cl, (KNot cr)))
                  | _ -> Ok (KBin (o, cl, cr)))
               | Err e -> Err e)
            | Err e -> Err e))
      | LOWER_EQUALS ->
        (match aggr_of o with
         | Some ag ->
           let arg = fun c ->
             match c with
             | Some n1 ->
               let Node (d0, _, _) = n1 in
               (match d0 with
                | DOp _ -> Err OtherExn
                | DStr s ->
                  Ok
                    ((if starts_with_char '\'' s then s else uvl_safename s) :: [])
                | _ -> Err OtherExn)
             | None -> Ok []
           in
           (match arg l with
            | Ok a1 ->
              (match arg r with
               | Ok a2 -> Ok (KAggr (ag, (app a1 a2)))
               | Err e -> Err e)
            | Err e -> Err e)
         | None ->
           (match operand l with
            | Ok cl ->
              (match operand r with
               | Ok cr ->
                 (match o with
                  | REQUIRES -> Ok (KBin (IMPLIES, cl, cr))
                  | EXCLUDES -> Ok (KBin (IMPLIES, cl, (KNot cr)))
                  | _ -> Ok (KBin (o, cl, cr)))
               | Err e -> Err e)
            | Err e -> Err e))
      | GREATER_EQUALS ->
        (match aggr_of o with
         | Some ag ->
           let arg = fun c ->
             match c with
             | Some n1 ->
               let Node (d0, _, _) = n1 in
               (match d0 with
                | DOp _ -> Err OtherExn
                | DStr s ->
                  Ok
                    ((if starts_with_char '\'' s then s else uvl_safename s) :: [])
                | _ -> Err OtherExn)
             | None -> Ok []
           in
           (match arg l with
            | Ok a1 ->
              (match arg r with
               | Ok a2 -> Ok (KAggr (ag, (app a1 a2)))
               | Err e -> Err e)
            | Err e -> Err e)
         | None ->
           (match operand l with
            | Ok cl ->
              (match operand r with
               | Ok cr ->
                 (match o with
                  | REQUIRES -> Ok (KBin (IMPLIES, cl, cr))
                  | EXCLUDES -> Ok (KBin (IMPLIES, cl, (KNot cr)))
                  | _ -> Ok (KBin (o, cl, cr)))
               | Err e -> Err e)
            | Err e -> Err e))
      | NOT_EQUALS ->
        (match aggr_of o with
         | Some ag ->
           let arg = fun c ->
             match c with
             | Some n1 ->
               let Node (d0, _, _) = n1 in
               (match d0 with
                | DOp _ -> Err OtherExn
                | DStr s ->
                  Ok
                    ((if starts_with_char '\'' s then s else uvl_safename s) :: [])
                | _ -> Err OtherExn)
             | None -> Ok []
           in
           (match arg l with
            | Ok a1 ->
              (match arg r with
               | Ok a2 -> Ok (KAggr (ag, (app a1 a2)))
               | Err e -> Err e)
            | Err e -> Err e)
         | None ->
           (match operand l with
            | Ok cl ->
              (match operand r with
               | Ok cr ->
                 (match o with
                  | REQUIRES -> Ok (KBin (IMPLIES, cl, cr))
                  | EXCLUDES -> Ok (KBin (IMPLIES, cl, (KNot cr)))
                  | _ -> Ok (KBin (o, cl, cr)))
               | Err e -> Err e)
            | Err e -> Err e))
      | ADD ->
        (match aggr_of o with
         | Some ag ->
           let arg = fun c ->
             match c with
             | Some n1 ->
               let Node (d0, _, _) = n1 in
               (match d0 with
                | DOp _ -> Err OtherExn
                | DStr s ->
                  Ok
                    ((if starts_with_char '\'' s then s else uvl_safename s) :: [])
                | _ -> Err OtherExn)
             | None -> Ok []
           in
           (match arg l with
            | Ok a1 ->
              (match arg r with
               | Ok a2 -> Ok (KAggr (ag, (app a1 a2)))
               | Err e -> Err e)
            | Err e -> Err e)
         | None ->
           (match operand l with
            | Ok cl ->
              (match operand r with
               | Ok cr ->
                 (match o with
                  | REQUIRES -> Ok (KBin (IMPLIES, cl, cr))
                  | EXCLUDES -> Ok (KBin (IMPLIES, cl, (KNot cr)))
                  | _ -> Ok (KBin (o, cl, cr)))
               | Err e -> Err e)
            | Err e -> Err e))
      | SUB ->
        (match aggr_of o with
         | Some ag ->
           let arg = fun c ->
             match c with
             | Some n1 ->
               let Node (d0, _, _) = n1 in
               (match d0 with
                | DOp _ -> Err OtherExn
                | DStr s ->
                  Ok
                    ((if starts_with_char '\'' s then s else uvl_safename s) :: [])
                | _ -> Err OtherExn)
             | None -> Ok []
           in
           (match arg l with
            | Ok a1 ->
              (match arg r with
               | Ok a2 -> Ok (KAggr (ag, (app a1 a2)))
               | Err e -> Err e)
            | Err e -> Err e)
         | None ->
           (match operand l with
            | Ok cl ->
              (match operand r with
               | Ok cr ->
                 (match o with
                  | REQUIRES -> Ok (KBin (IMPLIES, cl, cr))
                  | EXCLUDES -> Ok (KBin (IMPLIES, cl, (KNot cr)))
                  | _ -> Ok (KBin (o, cl, cr)))
               | Err e -> Err e)
            | Err e -> Err e))
      | MUL ->
        (match aggr_of o with
         | Some ag ->
           let arg = fun c ->
             match c with
             | Some n1 ->
               let Node (d0, _, _) = n1 in
               (match d0 with
                | DOp _ -> Err OtherExn
                | DStr s ->
                  Ok
                    ((if starts_with_char '\'' s then s else uvl_safename s) :: [])
                | _ -> Err OtherExn)
             | None -> Ok []
           in
           (match arg l with
            | Ok a1 ->
              (match arg r with
               | Ok a2 -> Ok (KAggr (ag, (app a1 a2)))
               | Err e -> Err e)
            | Err e -> Err e)
         | None ->
           (match operand l with
            | Ok cl ->
              (match operand r with
               | Ok cr ->
                 (match o with
                  | REQUIRES -> Ok (KBin (IMPLIES, cl, cr))
                  | EXCLUDES -> Ok (KBin (IMPLIES, cl, (KNot cr)))
                  | _ -> Ok (KBin (o, cl, cr)))
               | Err e -> Err e)
            | Err e -> Err e))
      | DIV ->
        (match aggr_of o with
         | Some ag ->
           let arg = fun c ->
             match c with
             | Some n1 ->
               let Node (d0, _, _) = n1 in
               (match d0 with
                | DOp _ -> Err OtherExn
                | DStr s ->
                  Ok
                    ((if starts_with_char '\'' s then s else uvl_safename s) :: [])
                | _ -> Err OtherExn)
             | None -> Ok []
           in
           (match arg l with
            | Ok a1 ->
              (match arg r with
               | Ok a2 -> Ok (KAggr (ag, (app a1 a2)))
               | Err e -> Err e)
            | Err e -> Err e)
         | None ->
           (match operand l with
            | Ok cl ->
              (match operand r with
               | Ok cr ->
                 (match o with
                  | REQUIRES -> Ok (KBin (IMPLIES, cl, cr))
                  | EXCLUDES -> Ok (KBin (IMPLIES, cl, (KNot cr)))
                  | _ -> Ok (KBin (o, cl, cr)))
               | Err e -> Err e)
            | Err e -> Err e))
      | SUM ->
        (match aggr_of o with
         | Some ag ->
           let arg = fun c ->
             match c with
             | Some n1 ->
               let Node (d0, _, _) = n1 in
               (match d0 with
                | DOp _ -> Err OtherExn
                | DStr s ->
                  Ok
                    ((if starts_with_char '\'' s then s else uvl_safename s) :: [])
                | _ -> Err OtherExn)
             | None -> Ok []
           in
           (match arg l with
            | Ok a1 ->
              (match arg r with
               | Ok a2 -> Ok (KAggr (ag, (app a1 a2)))
               | Err e -> Err e)
            | Err e -> Err e)
         | None ->
           (match operand l with
            | Ok cl ->
              (match operand r with
               | Ok cr ->
                 (match o with
                  | REQUIRES -> Ok (KBin (IMPLIES, cl, cr))
                  | EXCLUDES -> Ok (KBin (IMPLIES, cl, (KNot cr)))
                  | _ -> Ok (KBin (o, cl, cr)))
               | Err e -> Err e)
            | Err e -> Err e))
      | AVG ->
        (match aggr_of o with
         | Some ag ->
           let arg = fun c ->
             match c with
             | Some n1 ->
               let Node (d0, _, _) = n1 in
               (match d0 with
                | DOp _ -> Err OtherExn
                | DStr s ->
                  Ok
                    ((if starts_with_char '\'' s then s else uvl_safename s) :: [])
                | _ -> Err OtherExn)
             | None -> Ok []
           in
           (match arg l with
            | Ok a1 ->
              (match arg r with
               | Ok a2 -> Ok (KAggr (ag, (app a1 a2)))
               | Err e -> Err e)
            | Err e -> Err e)
         | None ->
           (match operand l with
            | Ok cl ->
              (match operand r with
               | Ok cr ->
                 (match o with
                  | REQUIRES -> Ok (KBin (IMPLIES, cl, cr))
                  | EXCLUDES -> Ok (KBin (IMPLIES, cl, (KNot cr)))
                  | _ -> Ok (KBin (o, cl, cr)))
               | Err e -> Err e)
            | Err e -> Err e))
      | LEN ->
        (match aggr_of o with
         | Some ag ->
           let arg = fun c ->
             match c with
             | Some n1 ->
               let Node (d0, _, _) = n1 in
               (match d0 with
                | DOp _ -> Err OtherExn
                | DStr s ->
                  Ok
                    ((if starts_with_char '\'' s then s else uvl_safename s) :: [])
                | _ -> Err OtherExn)
             | None -> Ok []
           in
           (match arg l with
            | Ok a1 ->
              (match arg r with
               | Ok a2 -> Ok (KAggr (ag, (app a1 a2)))
               | Err e -> Err e)
            | Err e -> Err e)
         | None ->
           (match operand l with
            | Ok cl ->
              (match operand r with
               | Ok cr ->
                 (match o with
                  | REQUIRES -> Ok (KBin (IMPLIES, cl, cr))
                  | EXCLUDES -> Ok (KBin (IMPLIES, cl, (KNot cr)))
                  | _ -> Ok (KBin (o, cl, cr)))
               | Err e -> Err e)
            | Err e -> Err e))
      | FLOOR ->
        (match aggr_of o with
         | Some ag ->
           let arg = fun c ->
             match c with
             | Some n1 ->
               let Node (d0, _, _) = n1 in
               (match d0 with
                | DOp _ -> Err OtherExn
                | DStr s ->
                  Ok
                    ((if starts_with_char '\'' s then s else uvl_safename s) :: [])
                | _ -> Err OtherExn)
             | None -> Ok []
           in
           (match arg l with
            | Ok a1 ->
              (match arg r with
               | Ok a2 -> Ok (KAggr (ag, (app a1 a2)))
               | Err e -> Err e)
            | Err e -> Err e)
         | None ->
           (match operand l with
            | Ok cl ->
              (match operand r with
               | Ok cr ->
                 (match o with
                  | REQUIRES -> Ok (KBin (IMPLIES, cl, cr))
                  | EXCLUDES -> Ok (KBin (IMPLIES, cl, (KNot cr)))
                  | _ -> Ok (KBin (o, cl, cr)))
               | Err e -> Err e)
            | Err e -> Err e))
      | CEIL ->
        (match aggr_of o with
         | Some ag ->
           let arg = fun c ->
             match c with
             | Some n1 ->
               let Node (d0, _, _) = n1 in
               (match d0 with
                | DOp _ -> Err OtherExn
                | DStr s ->
                  Ok
                    ((if starts_with_char '\'' s then s else uvl_safename s) :: [])
                | _ -> Err OtherExn)
             | None -> Ok []
           in
           (match arg l with
            | Ok a1 ->
              (match arg r with
               | Ok a2 -> Ok (KAggr (ag, (app a1 a2)))
               | Err e -> Err e)
            | Err e -> Err e)
         | None ->
           (match operand l with
            | Ok cl ->
              (match operand r with
               | Ok cr ->
                 (match o with
                  | REQUIRES -> Ok (KBin (IMPLIES, cl, cr))
                  | EXCLUDES -> Ok (KBin (IMPLIES, cl, (KNot cr)))
                  | _ -> Ok (KBin (o, cl, cr)))
               | Err e -> Err e)
            | Err e -> Err e)))
   | DStr s ->
     Ok
       (if starts_with_char '\'' s then KStr s else KLiteral (uvl_safename s))
   | DInt z0 -> Ok (KInt (z_to_string z0))
   | DFloat rp ->
     (match float_text rp with
      | Some t -> Ok (KFloat (t, rp))
      | None -> Err OtherExn)
   | DBool b ->
     Ok (KLiteral
       (if b
        then 't'::('r'::('u'::('e'::[])))
        else 'f'::('a'::('l'::('s'::('e'::[])))))))

(** val cst_of_fm : fm -> udoc result **)

let cst_of_fm m =
  match feature_cst m.root with
  | Ok rf ->
    (match mapM (fun c -> node_cst c.c_ast) m.ctcs with
     | Ok cs ->
       Ok { d_root = (Some rf); d_ctcs =
         (match cs with
          | [] -> None
          | _ :: _ -> Some cs) }
     | Err e -> Err e)
  | Err e -> Err e

(** val tabs : nat -> char list **)

let rec tabs = function
| O -> []
| S k -> '\t'::(tabs k)

(** val render_value : uvalue -> char list **)

let rec render_value = function
| UVBool t -> t
| UVFloat (t, _) -> t
| UVInt t -> t
| UVStr t -> t
| UVAttrs l ->
  append ('{'::[])
    (append
      (str_join (','::(' '::[]))
        (map (fun a ->
          match a with
          | UAValue (k, v0) ->
            (match v0 with
             | Some x -> append k (append (' '::[]) (render_value x))
             | None -> k)
          | _ -> []) l)) ('}'::[]))
| UVVector l ->
  (match l with
   | [] ->
     append ('['::[])
       (append (str_join (','::(' '::[])) (map render_value l)) (']'::[]))
   | u :: l0 ->
     (match u with
      | UVInt t ->
        (match l0 with
         | [] -> append ('['::(' '::[])) (append t (' '::(']'::[])))
         | _ :: _ ->
           append ('['::[])
             (append (str_join (','::(' '::[])) (map render_value l))
               (']'::[])))
      | _ ->
        append ('['::[])
          (append (str_join (','::(' '::[])) (map render_value l)) (']'::[]))))

(** val render_attrs : uattr list option -> char list **)

let render_attrs = function
| Some l -> render_value (UVAttrs l)
| None -> []

(** val render_gkind : gkind -> char list **)

let render_gkind = function
| GOr -> 'o'::('r'::[])
| GAlt ->
  'a'::('l'::('t'::('e'::('r'::('n'::('a'::('t'::('i'::('v'::('e'::[]))))))))))
| GOpt -> 'o'::('p'::('t'::('i'::('o'::('n'::('a'::('l'::[])))))))
| GMand -> 'm'::('a'::('n'::('d'::('a'::('t'::('o'::('r'::('y'::[]))))))))
| GCard t -> t

(** val render_feature : nat -> ufeature -> char list **)

let rec render_feature tab0 = function
| UFeature (ty, ref, fc, at_, gs) ->
  append ('\n'::(tabs tab0))
    (append (match ty with
             | Some t -> append t (' '::[])
             | None -> [])
      (append ref
        (append (' '::[])
          (append
            (match fc with
             | Some c ->
               append
                 ('c'::('a'::('r'::('d'::('i'::('n'::('a'::('l'::('i'::('t'::('y'::(' '::[]))))))))))))
                 (append c (' '::[]))
             | None -> [])
            (append (render_attrs at_)
              (str_concat
                (map (fun g ->
                  let UGroup (k, cs) = g in
                  append ('\n'::(tabs (S tab0)))
                    (append (render_gkind k)
                      (str_concat (map (render_feature (S (S tab0))) cs))))
                  gs)))))))

(** val aggr_name : aggr -> char list **)

let aggr_name = function
| AgSum -> 's'::('u'::('m'::[]))
| AgAvg -> 'a'::('v'::('g'::[]))
| AgLen -> 'l'::('e'::('n'::[]))
| AgFloor -> 'f'::('l'::('o'::('o'::('r'::[]))))
| AgCeil -> 'c'::('e'::('i'::('l'::[])))

(** val render_cst : ucst -> char list **)

let rec render_cst = function
| KLiteral r -> r
| KNot x -> append ('!'::[]) (render_cst x)
| KBin (o, a, b) ->
  append (render_cst a)
    (append (' '::[])
      (append (match uvl_operator o with
               | Some s -> s
               | None -> '?'::[]) (append (' '::[]) (render_cst b))))
| KParen x -> append ('('::[]) (append (render_cst x) (')'::[]))
| KInt t -> t
| KFloat (t, _) -> t
| KStr t -> t
| KAggr (a, refs) ->
  append (aggr_name a)
    (append ('('::[]) (append (str_join (','::(' '::[])) refs) (')'::[])))

(** val render : udoc -> char list **)

let render d =
  append ('f'::('e'::('a'::('t'::('u'::('r'::('e'::('s'::[]))))))))
    (append
      (match d.d_root with
       | Some f -> render_feature (S O) f
       | None -> [])
      (append ('\n'::[])
        (match d.d_ctcs with
         | Some cs ->
           append
             ('c'::('o'::('n'::('s'::('t'::('r'::('a'::('i'::('n'::('t'::('s'::[])))))))))))
             (str_concat (map (fun c -> '\n'::('\t'::(render_cst c))) cs))
         | None -> [])))

(** val uvl_write : fm -> char list result **)

let uvl_write m =
  match cst_of_fm m with
  | Ok d -> Ok (render d)
  | Err e -> Err e

(** val strip_quotes : char list -> char list **)

let strip_quotes s =
  str_remove_char '"' s

(** val drop_ends : char list -> char list **)

let drop_ends = function
| [] -> []
| _::rest -> str_rev (match str_rev rest with
                      | [] -> []
                      | _::t -> t)

(** val split_dotdot :
    char list -> char list -> (char list * char list) option **)

let rec split_dotdot s acc =
  match s with
  | [] -> None
  | c::rest ->
    (* If this appears, you're using Ascii internals. Please don't *)
 (fun f c ->
  let n = Char.code c in
  let h i = (n land (1 lsl i)) <> 0 in
  f (h 0) (h 1) (h 2) (h 3) (h 4) (h 5) (h 6) (h 7))
      (fun b b0 b1 b2 b3 b4 b5 b6 ->
      if b
      then split_dotdot rest (c::acc)
      else if b0
           then if b1
                then if b2
                     then if b3
                          then split_dotdot rest (c::acc)
                          else if b4
                               then if b5
                                    then split_dotdot rest (c::acc)
                                    else if b6
                                         then split_dotdot rest (c::acc)
                                         else (match rest with
                                               | [] ->
                                                 split_dotdot rest (c::acc)
                                               | a::rest0 ->
                                                 (* If this appears, you're using Ascii internals. Please don't *)
 (fun f c ->
  let n = Char.code c in
  let h i = (n land (1 lsl i)) <> 0 in
  f (h 0) (h 1) (h 2) (h 3) (h 4) (h 5) (h 6) (h 7))
                                                   (fun b7 b8 b9 b10 b11 b12 b13 b14 ->
                                                   if b7
                                                   then split_dotdot rest
                                                          (c::acc)
                                                   else if b8
                                                        then if b9
                                                             then if b10
                                                                  then 
                                                                    if b11
                                                                    then 
                                                                    split_dotdot
                                                                    rest
                                                                    (c::acc)
                                                                    else 
                                                                    if b12
                                                                    then 
                                                                    if b13
                                                                    then 
                                                                    split_dotdot
                                                                    rest
                                                                    (c::acc)
                                                                    else 
                                                                    if b14
                                                                    then 
                                                                    split_dotdot
                                                                    rest
                                                                    (c::acc)
                                                                    else 
                                                                    Some
                                                                    ((str_rev
                                                                    acc),
                                                                    rest0)
                                                                    else 
                                                                    split_dotdot
                                                                    rest
                                                                    (c::acc)
                                                                  else 
                                                                    split_dotdot
                                                                    rest
                                                                    (c::acc)
                                                             else split_dotdot
                                                                    rest
                                                                    (c::acc)
                                                        else split_dotdot
                                                               rest (c::acc))
                                                   a)
                               else split_dotdot rest (c::acc)
                     else split_dotdot rest (c::acc)
                else split_dotdot rest (c::acc)
           else split_dotdot rest (c::acc))
      c

(** val to_int0 : char list -> z result **)

let to_int0 s =
  match string_to_z s with
  | Some z0 -> Ok z0
  | None -> Err ValueError

(** val parse_cardinality : char list -> (z * z) result **)

let parse_cardinality text =
  let t = drop_ends text in
  let (mn, mx) = match split_dotdot t [] with
                 | Some p -> p
                 | None -> (t, t) in
  (match to_int0 mn with
   | Ok a ->
     (match if eqb0 mx ('*'::[]) then Ok (Zneg XH) else to_int0 mx with
      | Ok b -> Ok (a, b)
      | Err e -> Err e)
   | Err e -> Err e)

(** val value_aval : uvalue -> aval result **)

let rec value_aval = function
| UVBool t -> Ok (VBool (eqb0 t ('t'::('r'::('u'::('e'::[]))))))
| UVFloat (_, r) -> Ok (VFloat r)
| UVInt t -> (match to_int0 t with
              | Ok z0 -> Ok (VInt z0)
              | Err e -> Err e)
| UVStr t -> Ok (VStr (drop_ends t))
| UVAttrs l ->
  (match let rec go l0 acc =
           match l0 with
           | [] -> Ok acc
           | u :: rest ->
             (match u with
              | UAValue (k, v0) ->
                (match v0 with
                 | Some x ->
                   (match value_aval x with
                    | Ok x' -> go rest (dict_set acc (strip_quotes k) x')
                    | Err e -> Err e)
                 | None -> go rest (dict_set acc (strip_quotes k) VNone))
              | UAConstraint ->
                go rest (dict_set acc ('N'::('o'::('n'::('e'::[])))) VNone)
              | UAOther -> Err ValueError)
         in go l [] with
   | Ok kv -> Ok (VMap kv)
   | Err e -> Err e)
| UVVector l ->
  (match mapM value_aval l with
   | Ok l' -> Ok (VList l')
   | Err e -> Err e)

(** val read_ftype : char list option -> ftype result **)

let read_ftype = function
| Some s ->
  if eqb0 s ('B'::('o'::('o'::('l'::('e'::('a'::('n'::[])))))))
  then Ok TBoolean
  else if eqb0 s ('S'::('t'::('r'::('i'::('n'::('g'::[]))))))
       then Ok TString
       else if eqb0 s ('I'::('n'::('t'::('e'::('g'::('e'::('r'::[])))))))
            then Ok TInteger
            else if eqb0 s ('R'::('e'::('a'::('l'::[]))))
                 then Ok TReal
                 else Err FlamaException
| None -> Ok TBoolean

(** val uvl_read_feature : path -> ptr -> ufeature -> pfeature result **)

let rec uvl_read_feature here parent = function
| UFeature (ty, ref, fc, at_, gs) ->
  (match match fc with
         | Some t -> parse_cardinality t
         | None -> Ok ((Zpos XH), (Zpos XH)) with
   | Ok a ->
     let (cmin, cmax) = a in
     (match read_ftype ty with
      | Ok fty ->
        (match at_ with
         | Some l ->
           (match value_aval (UVAttrs l) with
            | Ok a0 ->
              (match a0 with
               | VNone ->
                 let kv = [] in
                 let is_abs =
                   existsb (fun p ->
                     (&&)
                       (eqb0 (fst p)
                         ('a'::('b'::('s'::('t'::('r'::('a'::('c'::('t'::[])))))))))
                       (match snd p with
                        | VNone -> true
                        | x -> aval_truthy x)) kv
                 in
                 let attrs =
                   map (fun p -> { a_name = (fst p); a_dom = None;
                     a_default = (snd p); a_null = VNone })
                     (filter (fun p ->
                       negb
                         ((&&)
                           (eqb0 (fst p)
                             ('a'::('b'::('s'::('t'::('r'::('a'::('c'::('t'::[])))))))))
                           (match snd p with
                            | VNone -> true
                            | x -> aval_truthy x))) kv)
                 in
                 let info0 = { f_name = (strip_quotes ref); f_abstract =
                   (VBool is_abs); f_type = fty; f_cmin = cmin; f_cmax =
                   cmax; f_attrs = attrs }
                 in
                 (match let rec go k = function
                        | [] -> Ok []
                        | u :: rest ->
                          let UGroup (kind, cs) = u in
                          let per_child =
                            match kind with
                            | GOpt -> true
                            | GMand -> true
                            | _ -> false
                          in
                          (match let rec goc j = function
                                 | [] -> Ok []
                                 | c :: cs' ->
                                   let p =
                                     if per_child
                                     then app here (((add k j), O) :: [])
                                     else app here ((k, j) :: [])
                                   in
                                   (match uvl_read_feature p (PPath here) c with
                                    | Ok pc ->
                                      (match goc (S j) cs' with
                                       | Ok pcs -> Ok (pc :: pcs)
                                       | Err e -> Err e)
                                    | Err e -> Err e)
                                 in goc O cs with
                           | Ok kids ->
                             let n0 = length kids in
                             (match kind with
                              | GOr ->
                                (match go (S k) rest with
                                 | Ok prs ->
                                   Ok ((PRelation ((PPath here), (Zpos XH),
                                     (Z.of_nat n0), kids)) :: prs)
                                 | Err e -> Err e)
                              | GAlt ->
                                (match go (S k) rest with
                                 | Ok prs ->
                                   Ok ((PRelation ((PPath here), (Zpos XH),
                                     (Zpos XH), kids)) :: prs)
                                 | Err e -> Err e)
                              | GCard text ->
                                (match parse_cardinality text with
                                 | Ok a1 ->
                                   let (a2, b) = a1 in
                                   (match go (S k) rest with
                                    | Ok prs ->
                                      Ok ((PRelation ((PPath here), a2, b,
                                        kids)) :: prs)
                                    | Err e -> Err e)
                                 | Err e -> Err e)
                              | _ ->
                                let mn =
                                  match kind with
                                  | GMand -> Zpos XH
                                  | _ -> Z0
                                in
                                (match go (add k n0) rest with
                                 | Ok prs ->
                                   Ok
                                     (app
                                       (map (fun c -> PRelation ((PPath
                                         here), mn, (Zpos XH), (c :: [])))
                                         kids) prs)
                                 | Err e -> Err e))
                           | Err e -> Err e)
                        in go O gs with
                  | Ok prs ->
                    Ok (PFeature (info0, parent,
                      (map (fun _ -> PPath here) attrs), prs))
                  | Err e -> Err e)
               | VBool _ ->
                 let kv = [] in
                 let is_abs =
                   existsb (fun p ->
                     (&&)
                       (eqb0 (fst p)
                         ('a'::('b'::('s'::('t'::('r'::('a'::('c'::('t'::[])))))))))
                       (match snd p with
                        | VNone -> true
                        | x -> aval_truthy x)) kv
                 in
                 let attrs =
                   map (fun p -> { a_name = (fst p); a_dom = None;
                     a_default = (snd p); a_null = VNone })
                     (filter (fun p ->
                       negb
                         ((&&)
                           (eqb0 (fst p)
                             ('a'::('b'::('s'::('t'::('r'::('a'::('c'::('t'::[])))))))))
                           (match snd p with
                            | VNone -> true
                            | x -> aval_truthy x))) kv)
                 in
                 let info0 = { f_name = (strip_quotes ref); f_abstract =
                   (VBool is_abs); f_type = fty; f_cmin = cmin; f_cmax =
                   cmax; f_attrs = attrs }
                 in
                 (match let rec go k = function
                        | [] -> Ok []
                        | u :: rest ->
                          let UGroup (kind, cs) = u in
                          let per_child =
                            match kind with
                            | GOpt -> true
                            | GMand -> true
                            | _ -> false
                          in
                          (match let rec goc j = function
                                 | [] -> Ok []
                                 | c :: cs' ->
                                   let p =
                                     if per_child
                                     then app here (((add k j), O) :: [])
                                     else app here ((k, j) :: [])
                                   in
                                   (match uvl_read_feature p (PPath here) c with
                                    | Ok pc ->
                                      (match goc (S j) cs' with
                                       | Ok pcs -> Ok (pc :: pcs)
                                       | Err e -> Err e)
                                    | Err e -> Err e)
                                 in goc O cs with
                           | Ok kids ->
                             let n0 = length kids in
                             (match kind with
                              | GOr ->
                                (match go (S k) rest with
                                 | Ok prs ->
                                   Ok ((PRelation ((PPath here), (Zpos XH),
                                     (Z.of_nat n0), kids)) :: prs)
                                 | Err e -> Err e)
                              | GAlt ->
                                (match go (S k) rest with
                                 | Ok prs ->
                                   Ok ((PRelation ((PPath here), (Zpos XH),
                                     (Zpos XH), kids)) :: prs)
                                 | Err e -> Err e)
                              | GCard text ->
                                (match parse_cardinality text with
                                 | Ok a1 ->
                                   let (a2, b) = a1 in
                                   (match go (S k) rest with
                                    | Ok prs ->
                                      Ok ((PRelation ((PPath here), a2, b,
                                        kids)) :: prs)
                                    | Err e -> Err e)
                                 | Err e -> Err e)
                              | _ ->
                                let mn =
                                  match kind with
                                  | GMand -> Zpos XH
                                  | _ -> Z0
                                in
                                (match go (add k n0) rest with
                                 | Ok prs ->
                                   Ok
                                     (app
                                       (map (fun c -> PRelation ((PPath
                                         here), mn, (Zpos XH), (c :: [])))
                                         kids) prs)
                                 | Err e -> Err e))
                           | Err e -> Err e)
                        in go O gs with
                  | Ok prs ->
                    Ok (PFeature (info0, parent,
                      (map (fun _ -> PPath here) attrs), prs))
                  | Err e -> Err e)
               | VInt _ ->
                 let kv = [] in
                 let is_abs =
                   existsb (fun p ->
                     (&&)
                       (eqb0 (fst p)
                         ('a'::('b'::('s'::('t'::('r'::('a'::('c'::('t'::[])))))))))
                       (match snd p with
                        | VNone -> true
                        | x -> aval_truthy x)) kv
                 in
                 let attrs =
                   map (fun p -> { a_name = (fst p); a_dom = None;
                     a_default = (snd p); a_null = VNone })
                     (filter (fun p ->
                       negb
                         ((&&)
                           (eqb0 (fst p)
                             ('a'::('b'::('s'::('t'::('r'::('a'::('c'::('t'::[])))))))))
                           (match snd p with
                            | VNone -> true
                            | x -> aval_truthy x))) kv)
                 in
                 let info0 = { f_name = (strip_quotes ref); f_abstract =
                   (VBool is_abs); f_type = fty; f_cmin = cmin; f_cmax =
                   cmax; f_attrs = attrs }
                 in
                 (match let rec go k = function
                        | [] -> Ok []
                        | u :: rest ->
                          let UGroup (kind, cs) = u in
                          let per_child =
                            match kind with
                            | GOpt -> true
                            | GMand -> true
                            | _ -> false
                          in
                          (match let rec goc j = function
                                 | [] -> Ok []
                                 | c :: cs' ->
                                   let p =
                                     if per_child
                                     then app here (((add k j), O) :: [])
                                     else app here ((k, j) :: [])
                                   in
                                   (match uvl_read_feature p (PPath here) c with
                                    | Ok pc ->
                                      (match goc (S j) cs' with
                                       | Ok pcs -> Ok (pc :: pcs)
                                       | Err e -> Err e)
                                    | Err e -> Err e)
                                 in goc O cs with
                           | Ok kids ->
                             let n0 = length kids in
                             (match kind with
                              | GOr ->
                                (match go (S k) rest with
                                 | Ok prs ->
                                   Ok ((PRelation ((PPath here), (Zpos XH),
                                     (Z.of_nat n0), kids)) :: prs)
                                 | Err e -> Err e)
                              | GAlt ->
                                (match go (S k) rest with
                                 | Ok prs ->
                                   Ok ((PRelation ((PPath here), (Zpos XH),
                                     (Zpos XH), kids)) :: prs)
                                 | Err e -> Err e)
                              | GCard text ->
                                (match parse_cardinality text with
                                 | Ok a1 ->
                                   let (a2, b) = a1 in
                                   (match go (S k) rest with
                                    | Ok prs ->
                                      Ok ((PRelation ((PPath here), a2, b,
                                        kids)) :: prs)
                                    | Err e -> Err e)
                                 | Err e -> Err e)
                              | _ ->
                                let mn =
                                  match kind with
                                  | GMand -> Zpos XH
                                  | _ -> Z0
                                in
                                (match go (add k n0) rest with
                                 | Ok prs ->
                                   Ok
                                     (app
                                       (map (fun c -> PRelation ((PPath
                                         here), mn, (Zpos XH), (c :: [])))
                                         kids) prs)
                                 | Err e -> Err e))
                           | Err e -> Err e)
                        in go O gs with
                  | Ok prs ->
                    Ok (PFeature (info0, parent,
                      (map (fun _ -> PPath here) attrs), prs))
                  | Err e -> Err e)
               | VFloat _ ->
                 let kv = [] in
                 let is_abs =
                   existsb (fun p ->
                     (&&)
                       (eqb0 (fst p)
                         ('a'::('b'::('s'::('t'::('r'::('a'::('c'::('t'::[])))))))))
                       (match snd p with
                        | VNone -> true
                        | x -> aval_truthy x)) kv
                 in
                 let attrs =
                   map (fun p -> { a_name = (fst p); a_dom = None;
                     a_default = (snd p); a_null = VNone })
                     (filter (fun p ->
                       negb
                         ((&&)
                           (eqb0 (fst p)
                             ('a'::('b'::('s'::('t'::('r'::('a'::('c'::('t'::[])))))))))
                           (match snd p with
                            | VNone -> true
                            | x -> aval_truthy x))) kv)
                 in
                 let info0 = { f_name = (strip_quotes ref); f_abstract =
                   (VBool is_abs); f_type = fty; f_cmin = cmin; f_cmax =
                   cmax; f_attrs = attrs }
                 in
                 (match let rec go k = function
                        | [] -> Ok []
                        | u :: rest ->
                          let UGroup (kind, cs) = u in
                          let per_child =
                            match kind with
                            | GOpt -> true
                            | GMand -> true
                            | _ -> false
                          in
                          (match let rec goc j = function
                                 | [] -> Ok []
                                 | c :: cs' ->
                                   let p =
                                     if per_child
                                     then app here (((add k j), O) :: [])
                                     else app here ((k, j) :: [])
                                   in
                                   (match uvl_read_feature p (PPath here) c with
                                    | Ok pc ->
                                      (match goc (S j) cs' with
                                       | Ok pcs -> Ok (pc :: pcs)
                                       | Err e -> Err e)
                                    | Err e -> Err e)
                                 in goc O cs with
                           | Ok kids ->
                             let n0 = length kids in
                             (match kind with
                              | GOr ->
                                (match go (S k) rest with
                                 | Ok prs ->
                                   Ok ((PRelation ((PPath here), (Zpos XH),
                                     (Z.of_nat n0), kids)) :: prs)
                                 | Err e -> Err e)
                              | GAlt ->
                                (match go (S k) rest with
                                 | Ok prs ->
                                   Ok ((PRelation ((PPath here), (Zpos XH),
                                     (Zpos XH), kids)) :: prs)
                                 | Err e -> Err e)
                              | GCard text ->
                                (match parse_cardinality text with
                                 | Ok a1 ->
                                   let (a2, b) = a1 in
                                   (match go (S k) rest with
                                    | Ok prs ->
                                      Ok ((PRelation ((PPath here), a2, b,
                                        kids)) :: prs)
                                    | Err e -> Err e)
                                 | Err e -> Err e)
                              | _ ->
                                let mn =
                                  match kind with
                                  | GMand -> Zpos XH
                                  | _ -> Z0
                                in
                                (match go (add k n0) rest with
                                 | Ok prs ->
                                   Ok
                                     (app
                                       (map (fun c -> PRelation ((PPath
                                         here), mn, (Zpos XH), (c :: [])))
                                         kids) prs)
                                 | Err e -> Err e))
                           | Err e -> Err e)
                        in go O gs with
                  | Ok prs ->
                    Ok (PFeature (info0, parent,
                      (map (fun _ -> PPath here) attrs), prs))
                  | Err e -> Err e)
               | VStr _ ->
                 let kv = [] in
                 let is_abs =
                   existsb (fun p ->
                     (&&)
                       (eqb0 (fst p)
                         ('a'::('b'::('s'::('t'::('r'::('a'::('c'::('t'::[])))))))))
                       (match snd p with
                        | VNone -> true
                        | x -> aval_truthy x)) kv
                 in
                 let attrs =
                   map (fun p -> { a_name = (fst p); a_dom = None;
                     a_default = (snd p); a_null = VNone })
                     (filter (fun p ->
                       negb
                         ((&&)
                           (eqb0 (fst p)
                             ('a'::('b'::('s'::('t'::('r'::('a'::('c'::('t'::[])))))))))
                           (match snd p with
                            | VNone -> true
                            | x -> aval_truthy x))) kv)
                 in
                 let info0 = { f_name = (strip_quotes ref); f_abstract =
                   (VBool is_abs); f_type = fty; f_cmin = cmin; f_cmax =
                   cmax; f_attrs = attrs }
                 in
                 (match let rec go k = function
                        | [] -> Ok []
                        | u :: rest ->
                          let UGroup (kind, cs) = u in
                          let per_child =
                            match kind with
                            | GOpt -> true
                            | GMand -> true
                            | _ -> false
                          in
                          (match let rec goc j = function
                                 | [] -> Ok []
                                 | c :: cs' ->
                                   let p =
                                     if per_child
                                     then app here (((add k j), O) :: [])
                                     else app here ((k, j) :: [])
                                   in
                                   (match uvl_read_feature p (PPath here) c with
                                    | Ok pc ->
                                      (match goc (S j) cs' with
                                       | Ok pcs -> Ok (pc :: pcs)
                                       | Err e -> Err e)
                                    | Err e -> Err e)
                                 in goc O cs with
                           | Ok kids ->
                             let n0 = length kids in
                             (match kind with
                              | GOr ->
                                (match go (S k) rest with
                                 | Ok prs ->
                                   Ok ((PRelation ((PPath here), (Zpos XH),
                                     (Z.of_nat n0), kids)) :: prs)
                                 | Err e -> Err e)
                              | GAlt ->
                                (match go (S k) rest with
                                 | Ok prs ->
                                   Ok ((PRelation ((PPath here), (Zpos XH),
                                     (Zpos XH), kids)) :: prs)
                                 | Err e -> Err e)
                              | GCard text ->
                                (match parse_cardinality text with
                                 | Ok a1 ->
                                   let (a2, b) = a1 in
                                   (match go (S k) rest with
                                    | Ok prs ->
                                      Ok ((PRelation ((PPath here), a2, b,
                                        kids)) :: prs)
                                    | Err e -> Err e)
                                 | Err e -> Err e)
                              | _ ->
                                let mn =
                                  match kind with
                                  | GMand -> Zpos XH
                                  | _ -> Z0
                                in
                                (match go (add k n0) rest with
                                 | Ok prs ->
                                   Ok
                                     (app
                                       (map (fun c -> PRelation ((PPath
                                         here), mn, (Zpos XH), (c :: [])))
                                         kids) prs)
                                 | Err e -> Err e))
                           | Err e -> Err e)
                        in go O gs with
                  | Ok prs ->
                    Ok (PFeature (info0, parent,
                      (map (fun _ -> PPath here) attrs), prs))
                  | Err e -> Err e)
               | VList _ ->
                 let kv = [] in
                 let is_abs =
                   existsb (fun p ->
                     (&&)
                       (eqb0 (fst p)
                         ('a'::('b'::('s'::('t'::('r'::('a'::('c'::('t'::[])))))))))
                       (match snd p with
                        | VNone -> true
                        | x -> aval_truthy x)) kv
                 in
                 let attrs =
                   map (fun p -> { a_name = (fst p); a_dom = None;
                     a_default = (snd p); a_null = VNone })
                     (filter (fun p ->
                       negb
                         ((&&)
                           (eqb0 (fst p)
                             ('a'::('b'::('s'::('t'::('r'::('a'::('c'::('t'::[])))))))))
                           (match snd p with
                            | VNone -> true
                            | x -> aval_truthy x))) kv)
                 in
                 let info0 = { f_name = (strip_quotes ref); f_abstract =
                   (VBool is_abs); f_type = fty; f_cmin = cmin; f_cmax =
                   cmax; f_attrs = attrs }
                 in
                 (match let rec go k = function
                        | [] -> Ok []
                        | u :: rest ->
                          let UGroup (kind, cs) = u in
                          let per_child =
                            match kind with
                            | GOpt -> true
                            | GMand -> true
                            | _ -> false
                          in
                          (match let rec goc j = function
                                 | [] -> Ok []
                                 | c :: cs' ->
                                   let p =
                                     if per_child
                                     then app here (((add k j), O) :: [])
                                     else app here ((k, j) :: [])
                                   in
                                   (match uvl_read_feature p (PPath here) c with
                                    | Ok pc ->
                                      (match goc (S j) cs' with
                                       | Ok pcs -> Ok (pc :: pcs)
                                       | Err e -> Err e)
                                    | Err e -> Err e)
                                 in goc O cs with
                           | Ok kids ->
                             let n0 = length kids in
                             (match kind with
                              | GOr ->
                                (match go (S k) rest with
                                 | Ok prs ->
                                   Ok ((PRelation ((PPath here), (Zpos XH),
                                     (Z.of_nat n0), kids)) :: prs)
                                 | Err e -> Err e)
                              | GAlt ->
                                (match go (S k) rest with
                                 | Ok prs ->
                                   Ok ((PRelation ((PPath here), (Zpos XH),
                                     (Zpos XH), kids)) :: prs)
                                 | Err e -> Err e)
                              | GCard text ->
                                (match parse_cardinality text with
                                 | Ok a1 ->
                                   let (a2, b) = a1 in
                                   (match go (S k) rest with
                                    | Ok prs ->
                                      Ok ((PRelation ((PPath here), a2, b,
                                        kids)) :: prs)
                                    | Err e -> Err e)
                                 | Err e -> Err e)
                              | _ ->
                                let mn =
                                  match kind with
                                  | GMand -> Zpos XH
                                  | _ -> Z0
                                in
                                (match go (add k n0) rest with
                                 | Ok prs ->
                                   Ok
                                     (app
                                       (map (fun c -> PRelation ((PPath
                                         here), mn, (Zpos XH), (c :: [])))
                                         kids) prs)
                                 | Err e -> Err e))
                           | Err e -> Err e)
                        in go O gs with
                  | Ok prs ->
                    Ok (PFeature (info0, parent,
                      (map (fun _ -> PPath here) attrs), prs))
                  | Err e -> Err e)
               | VMap kv ->
                 let is_abs =
                   existsb (fun p ->
                     (&&)
                       (eqb0 (fst p)
                         ('a'::('b'::('s'::('t'::('r'::('a'::('c'::('t'::[])))))))))
                       (match snd p with
                        | VNone -> true
                        | x -> aval_truthy x)) kv
                 in
                 let attrs =
                   map (fun p -> { a_name = (fst p); a_dom = None;
                     a_default = (snd p); a_null = VNone })
                     (filter (fun p ->
                       negb
                         ((&&)
                           (eqb0 (fst p)
                             ('a'::('b'::('s'::('t'::('r'::('a'::('c'::('t'::[])))))))))
                           (match snd p with
                            | VNone -> true
                            | x -> aval_truthy x))) kv)
                 in
                 let info0 = { f_name = (strip_quotes ref); f_abstract =
                   (VBool is_abs); f_type = fty; f_cmin = cmin; f_cmax =
                   cmax; f_attrs = attrs }
                 in
                 (match let rec go k = function
                        | [] -> Ok []
                        | u :: rest ->
                          let UGroup (kind, cs) = u in
                          let per_child =
                            match kind with
                            | GOpt -> true
                            | GMand -> true
                            | _ -> false
                          in
                          (match let rec goc j = function
                                 | [] -> Ok []
                                 | c :: cs' ->
                                   let p =
                                     if per_child
                                     then app here (((add k j), O) :: [])
                                     else app here ((k, j) :: [])
                                   in
                                   (match uvl_read_feature p (PPath here) c with
                                    | Ok pc ->
                                      (match goc (S j) cs' with
                                       | Ok pcs -> Ok (pc :: pcs)
                                       | Err e -> Err e)
                                    | Err e -> Err e)
                                 in goc O cs with
                           | Ok kids ->
                             let n0 = length kids in
                             (match kind with
                              | GOr ->
                                (match go (S k) rest with
                                 | Ok prs ->
                                   Ok ((PRelation ((PPath here), (Zpos XH),
                                     (Z.of_nat n0), kids)) :: prs)
                                 | Err e -> Err e)
                              | GAlt ->
                                (match go (S k) rest with
                                 | Ok prs ->
                                   Ok ((PRelation ((PPath here), (Zpos XH),
                                     (Zpos XH), kids)) :: prs)
                                 | Err e -> Err e)
                              | GCard text ->
                                (match parse_cardinality text with
                                 | Ok a1 ->
                                   let (a2, b) = a1 in
                                   (match go (S k) rest with
                                    | Ok prs ->
                                      Ok ((PRelation ((PPath here), a2, b,
                                        kids)) :: prs)
                                    | Err e -> Err e)
                                 | Err e -> Err e)
                              | _ ->
                                let mn =
                                  match kind with
                                  | GMand -> Zpos XH
                                  | _ -> Z0
                                in
                                (match go (add k n0) rest with
                                 | Ok prs ->
                                   Ok
                                     (app
                                       (map (fun c -> PRelation ((PPath
                                         here), mn, (Zpos XH), (c :: [])))
                                         kids) prs)
                                 | Err e -> Err e))
                           | Err e -> Err e)
                        in go O gs with
                  | Ok prs ->
                    Ok (PFeature (info0, parent,
                      (map (fun _ -> PPath here) attrs), prs))
                  | Err e -> Err e))
            | Err e -> Err e)
         | None ->
           let kv = [] in
           let is_abs =
             existsb (fun p ->
               (&&)
                 (eqb0 (fst p)
                   ('a'::('b'::('s'::('t'::('r'::('a'::('c'::('t'::[])))))))))
                 (match snd p with
                  | VNone -> true
                  | x -> aval_truthy x)) kv
           in
           let attrs =
             map (fun p -> { a_name = (fst p); a_dom = None; a_default =
               (snd p); a_null = VNone })
               (filter (fun p ->
                 negb
                   ((&&)
                     (eqb0 (fst p)
                       ('a'::('b'::('s'::('t'::('r'::('a'::('c'::('t'::[])))))))))
                     (match snd p with
                      | VNone -> true
                      | x -> aval_truthy x))) kv)
           in
           let info0 = { f_name = (strip_quotes ref); f_abstract = (VBool
             is_abs); f_type = fty; f_cmin = cmin; f_cmax = cmax; f_attrs =
             attrs }
           in
           (match let rec go k = function
                  | [] -> Ok []
                  | u :: rest ->
                    let UGroup (kind, cs) = u in
                    let per_child =
                      match kind with
                      | GOpt -> true
                      | GMand -> true
                      | _ -> false
                    in
                    (match let rec goc j = function
                           | [] -> Ok []
                           | c :: cs' ->
                             let p =
                               if per_child
                               then app here (((add k j), O) :: [])
                               else app here ((k, j) :: [])
                             in
                             (match uvl_read_feature p (PPath here) c with
                              | Ok pc ->
                                (match goc (S j) cs' with
                                 | Ok pcs -> Ok (pc :: pcs)
                                 | Err e -> Err e)
                              | Err e -> Err e)
                           in goc O cs with
                     | Ok kids ->
                       let n0 = length kids in
                       (match kind with
                        | GOr ->
                          (match go (S k) rest with
                           | Ok prs ->
                             Ok ((PRelation ((PPath here), (Zpos XH),
                               (Z.of_nat n0), kids)) :: prs)
                           | Err e -> Err e)
                        | GAlt ->
                          (match go (S k) rest with
                           | Ok prs ->
                             Ok ((PRelation ((PPath here), (Zpos XH), (Zpos
                               XH), kids)) :: prs)
                           | Err e -> Err e)
                        | GCard text ->
                          (match parse_cardinality text with
                           | Ok a0 ->
                             let (a1, b) = a0 in
                             (match go (S k) rest with
                              | Ok prs ->
                                Ok ((PRelation ((PPath here), a1, b,
                                  kids)) :: prs)
                              | Err e -> Err e)
                           | Err e -> Err e)
                        | _ ->
                          let mn = match kind with
                                   | GMand -> Zpos XH
                                   | _ -> Z0
                          in
                          (match go (add k n0) rest with
                           | Ok prs ->
                             Ok
                               (app
                                 (map (fun c -> PRelation ((PPath here), mn,
                                   (Zpos XH), (c :: []))) kids) prs)
                           | Err e -> Err e))
                     | Err e -> Err e)
                  in go O gs with
            | Ok prs ->
              Ok (PFeature (info0, parent, (map (fun _ -> PPath here) attrs),
                prs))
            | Err e -> Err e))
      | Err e -> Err e)
   | Err e -> Err e)

(** val astop_of_aggr : aggr -> astop **)

let astop_of_aggr = function
| AgSum -> SUM
| AgAvg -> AVG
| AgLen -> LEN
| AgFloor -> FLOOR
| AgCeil -> CEIL

(** val uvl_read_ctc : ucst -> node result **)

let rec uvl_read_ctc = function
| KLiteral r -> Ok (term (strip_quotes r))
| KNot x -> (match uvl_read_ctc x with
             | Ok a -> Ok (un NOT a)
             | Err e -> Err e)
| KBin (o, a, b) ->
  (match uvl_read_ctc a with
   | Ok a' ->
     (match uvl_read_ctc b with
      | Ok b' -> Ok (bin o a' b')
      | Err e -> Err e)
   | Err e -> Err e)
| KParen x -> uvl_read_ctc x
| KInt t ->
  (match to_int0 t with
   | Ok z0 -> Ok (Node ((DInt z0), None, None))
   | Err e -> Err e)
| KFloat (_, r) -> Ok (Node ((DFloat r), None, None))
| KStr t -> Ok (term t)
| KAggr (a, refs) ->
  (match a with
   | AgSum ->
     (match refs with
      | [] -> Err IndexError
      | r1 :: l ->
        (match l with
         | [] -> Ok (un (astop_of_aggr a) (term (strip_quotes r1)))
         | r2 :: _ ->
           Ok
             (bin (astop_of_aggr a) (term (strip_quotes r1))
               (term (strip_quotes r2)))))
   | AgAvg ->
     (match refs with
      | [] -> Err IndexError
      | r1 :: l ->
        (match l with
         | [] -> Ok (un (astop_of_aggr a) (term (strip_quotes r1)))
         | r2 :: _ ->
           Ok
             (bin (astop_of_aggr a) (term (strip_quotes r1))
               (term (strip_quotes r2)))))
   | _ ->
     (match refs with
      | [] -> Err IndexError
      | r :: _ -> Ok (un (astop_of_aggr a) (term (strip_quotes r)))))

(** val uvl_read_cst : udoc -> pfm result **)

let uvl_read_cst d =
  match d.d_root with
  | Some rf ->
    (match uvl_read_feature [] PNone rf with
     | Ok pr ->
       (match mapM uvl_read_ctc (match d.d_ctcs with
                                 | Some l -> l
                                 | None -> []) with
        | Ok ns ->
          Ok { proot = pr; pctcs =
            (let rec name_ i = function
             | [] -> []
             | n0 :: rest ->
               { c_name =
                 (append
                   ('C'::('o'::('n'::('s'::('t'::('r'::('a'::('i'::('n'::('t'::(' '::[])))))))))))
                   (z_to_string i)); c_ast =
                 n0 } :: (name_ (Z.add i (Zpos XH)) rest)
             in name_ Z0 ns) }
        | Err e -> Err e)
     | Err e -> Err e)
  | None -> Err FlamaException

(** val afm_operator : astop -> char list option **)

let afm_operator = function
| REQUIRES -> Some ('R'::('E'::('Q'::('U'::('I'::('R'::('E'::('S'::[]))))))))
| EXCLUDES -> Some ('E'::('X'::('C'::('L'::('U'::('D'::('E'::('S'::[]))))))))
| AND -> Some ('A'::('N'::('D'::[])))
| OR -> Some ('O'::('R'::[]))
| IMPLIES -> Some ('I'::('M'::('P'::('L'::('I'::('E'::('S'::[])))))))
| NOT -> Some ('N'::('O'::('T'::[])))
| EQUIVALENCE -> Some ('I'::('F'::('F'::[])))
| _ -> None

(** val afm_operator_of_keyword : char list -> astop option **)

let afm_operator_of_keyword s =
  if eqb0 s ('R'::('E'::('Q'::('U'::('I'::('R'::('E'::('S'::[]))))))))
  then Some REQUIRES
  else if eqb0 s ('E'::('X'::('C'::('L'::('U'::('D'::('E'::('S'::[]))))))))
       then Some EXCLUDES
       else if eqb0 s ('O'::('R'::[]))
            then Some OR
            else if eqb0 s ('A'::('N'::('D'::[])))
                 then Some AND
                 else if eqb0 s ('I'::('F'::('F'::[])))
                      then Some EQUIVALENCE
                      else if eqb0 s
                                ('I'::('M'::('P'::('L'::('I'::('E'::('S'::[])))))))
                           then Some IMPLIES
                           else None

type aitem =
| ISingle of bool * char list
| IGroup of char list * char list * char list list

type arelspec = { rs_parent : char list; rs_items : aitem list }

type avalue =
| AvInt of char list
| AvText of char list
| AvDouble of char list * char list

type adomain =
| ADiscrete of avalue list
| ARange of (char list * char list) list

type aattrspec = { at_feature : char list; at_name : char list;
                   at_domain : adomain; at_default : avalue; at_null : 
                   avalue }

type aexpr =
| EVar of char list
| ENum of char list
| EBin of char list * aexpr * aexpr
| ENot of aexpr
| EParen of aexpr

type actc =
| CSimple of aexpr * char list
| CBrackets of char list * (aexpr * char list) list

type adoc = { ad_rels : arelspec list; ad_attrs : aattrspec list option;
              ad_ctcs : actc list option }

(** val afm_item : relation -> aitem option **)

let afm_item r =
  match r_children r with
  | [] ->
    Some (IGroup ((z_to_string (r_min r)), (z_to_string (r_max r)),
      (map name [])))
  | c :: l ->
    (match l with
     | [] ->
       if (&&) (Z.eqb (r_min r) (Zpos XH)) (Z.eqb (r_max r) (Zpos XH))
       then Some (ISingle (false, (name c)))
       else if (&&) (Z.eqb (r_min r) Z0) (Z.eqb (r_max r) (Zpos XH))
            then Some (ISingle (true, (name c)))
            else Some (IGroup ((z_to_string (r_min r)),
                   (z_to_string (r_max r)), ((name c) :: [])))
     | f :: l0 ->
       Some (IGroup ((z_to_string (r_min r)), (z_to_string (r_max r)),
         (map name (c :: (f :: l0))))))

(** val afm_relspecs : feature -> arelspec list **)

let rec afm_relspecs = function
| Feature (i, rs) ->
  { rs_parent = i.f_name; rs_items =
    (flat_map (fun r -> match afm_item r with
                        | Some x -> x :: []
                        | None -> []) rs) } :: (flat_map (fun r ->
                                                 let Relation (_, _, cs) = r
                                                 in
                                                 flat_map (fun c ->
                                                   let Feature (_, rels0) = c
                                                   in
                                                   (match rels0 with
                                                    | [] -> []
                                                    | _ :: _ -> afm_relspecs c))
                                                   cs) rs)

(** val afm_value : aval -> avalue result **)

let afm_value = function
| VInt z0 -> Ok (AvInt (z_to_string z0))
| VFloat r ->
  (match py_positional r with
   | Some t -> Ok (AvDouble (t, r))
   | None -> Err FlamaException)
| VStr s -> Ok (AvText s)
| _ -> Err OtherExn

(** val afm_attrspec : char list -> attr -> aattrspec result **)

let afm_attrspec fname a =
  match a.a_dom with
  | Some d ->
    (match mapM afm_value d.dom_elems with
     | Ok els ->
       (match mapM (fun rg ->
                match rg.rg_min with
                | VNone -> Err OtherExn
                | VBool _ -> Err OtherExn
                | VInt a1 ->
                  (match rg.rg_max with
                   | VNone -> Err OtherExn
                   | VBool _ -> Err OtherExn
                   | VInt b1 -> Ok ((z_to_string a1), (z_to_string b1))
                   | _ -> Err OtherExn)
                | _ -> Err OtherExn) d.dom_ranges with
        | Ok rgs ->
          (match afm_value a.a_default with
           | Ok dv ->
             (match afm_value a.a_null with
              | Ok nv ->
                (match rgs with
                 | [] ->
                   (match els with
                    | [] -> Err OtherExn
                    | _ :: _ ->
                      Ok { at_feature = fname; at_name = a.a_name;
                        at_domain = (ADiscrete els); at_default = dv;
                        at_null = nv })
                 | _ :: _ ->
                   (match els with
                    | [] ->
                      Ok { at_feature = fname; at_name = a.a_name;
                        at_domain = (ARange rgs); at_default = dv; at_null =
                        nv }
                    | _ :: _ -> Err OtherExn))
              | Err e -> Err e)
           | Err e -> Err e)
        | Err e -> Err e)
     | Err e -> Err e)
  | None -> Err FlamaException

(** val afm_expr : node -> aexpr result **)

let rec afm_expr = function
| Node (d, l, r) ->
  let operand = fun c ->
    match c with
    | Some x ->
      (match afm_expr x with
       | Ok ex -> Ok (if is_op x then EParen ex else ex)
       | Err e -> Err e)
    | None -> Err AttributeError
  in
  (match d with
   | DOp o ->
     (match afm_operator o with
      | Some kw ->
        if astop_eqb o NOT
        then (match operand l with
              | Ok a -> Ok (ENot a)
              | Err e -> Err e)
        else (match operand l with
              | Ok a ->
                (match operand r with
                 | Ok b -> Ok (EBin (kw, a, b))
                 | Err e -> Err e)
              | Err e -> Err e)
      | None -> Err FlamaException)
   | DStr s -> Ok (EVar s)
   | DInt z0 -> Ok (ENum (z_to_string z0))
   | _ -> Err OtherExn)

(** val afm_render_expr : aexpr -> char list **)

let rec afm_render_expr = function
| EVar t -> t
| ENum t -> t
| EBin (op, a, b) ->
  append (afm_render_expr a)
    (append (' '::[]) (append op (append (' '::[]) (afm_render_expr b))))
| ENot a -> append ('N'::('O'::('T'::(' '::[])))) (afm_render_expr a)
| EParen a -> append ('('::[]) (append (afm_render_expr a) (')'::[]))

(** val afm_cst : fm -> adoc result **)

let afm_cst m =
  match mapM (fun pf -> mapM (afm_attrspec (name pf)) (info pf).f_attrs)
          (get_features m) with
  | Ok ats ->
    (match mapM (fun c ->
             match afm_expr c.c_ast with
             | Ok ex -> Ok (CSimple (ex, (afm_render_expr ex)))
             | Err e -> Err e) m.ctcs with
     | Ok cs ->
       Ok { ad_rels = (afm_relspecs m.root); ad_attrs = (Some (concat ats));
         ad_ctcs = (Some cs) }
     | Err e -> Err e)
  | Err e -> Err e

(** val afm_render_item : aitem -> char list **)

let afm_render_item = function
| ISingle (optional, n0) ->
  if optional then append ('['::[]) (append n0 (']'::[])) else n0
| IGroup (a, b, cs) ->
  append ('['::[])
    (append a
      (append (','::[])
        (append b
          (append (']'::('{'::[])) (append (str_join (' '::[]) cs) ('}'::[]))))))

(** val afm_render_value : avalue -> char list **)

let afm_render_value = function
| AvInt t -> t
| AvText t -> t
| AvDouble (t, _) -> t

(** val afm_render : adoc -> char list **)

let afm_render d =
  append
    ('%'::('R'::('e'::('l'::('a'::('t'::('i'::('o'::('n'::('s'::('h'::('i'::('p'::('s'::[]))))))))))))))
    (append ('\n'::[])
      (append
        (str_concat
          (map (fun rs ->
            append rs.rs_parent
              (append (' '::(':'::(' '::[])))
                (append
                  (str_concat
                    (map (fun i -> append (' '::[]) (afm_render_item i))
                      rs.rs_items)) (append (';'::[]) ('\n'::[])))))
            d.ad_rels))
        (append ('\n'::[])
          (append
            ('%'::('A'::('t'::('t'::('r'::('i'::('b'::('u'::('t'::('e'::('s'::[])))))))))))
            (append ('\n'::[])
              (append
                (str_concat
                  (map (fun a ->
                    append a.at_feature
                      (append ('.'::[])
                        (append a.at_name
                          (append (':'::(' '::[]))
                            (append
                              (match a.at_domain with
                               | ADiscrete l ->
                                 append ('['::[])
                                   (append
                                     (str_join (','::[])
                                       (map afm_render_value l)) (']'::[]))
                               | ARange l ->
                                 append
                                   ('I'::('n'::('t'::('e'::('g'::('e'::('r'::(' '::[]))))))))
                                   (str_concat
                                     (map (fun ab ->
                                       append ('['::[])
                                         (append (fst ab)
                                           (append
                                             (' '::('t'::('o'::(' '::[]))))
                                             (append (snd ab) (']'::[]))))) l)))
                              (append (','::[])
                                (append (afm_render_value a.at_default)
                                  (append (','::[])
                                    (append (afm_render_value a.at_null)
                                      (append (';'::[]) ('\n'::[])))))))))))
                    (match d.ad_attrs with
                     | Some l -> l
                     | None -> [])))
                (append ('\n'::[])
                  (append
                    ('%'::('C'::('o'::('n'::('s'::('t'::('r'::('a'::('i'::('n'::('t'::('s'::[]))))))))))))
                    (append ('\n'::[])
                      (str_concat
                        (map (fun c ->
                          match c with
                          | CSimple (_, t) ->
                            append t (append (';'::[]) ('\n'::[]))
                          | CBrackets (_, _) -> [])
                          (match d.ad_ctcs with
                           | Some l -> l
                           | None -> []))))))))))))

(** val afm_write : fm -> char list result **)

let afm_write m =
  match afm_cst m with
  | Ok d -> Ok (afm_render d)
  | Err e -> Err e

(** val afm_to_int : char list -> z result **)

let afm_to_int s =
  match string_to_z s with
  | Some z0 -> Ok z0
  | None -> Err ValueError

(** val add_rels : char list -> relation list -> feature -> feature option **)

let rec add_rels target new0 = function
| Feature (i, rs) ->
  if eqb0 i.f_name target
  then Some (Feature (i, (app rs new0)))
  else let rec go pre = function
       | [] -> None
       | r :: rest ->
         let Relation (a, b, cs) = r in
         (match let rec goc cpre = function
                | [] -> None
                | c :: crest ->
                  (match add_rels target new0 c with
                   | Some c' -> Some (app cpre (c' :: crest))
                   | None -> goc (app cpre (c :: [])) crest)
                in goc [] cs with
          | Some cs' ->
            Some (Feature (i, (app pre ((Relation (a, b, cs')) :: rest))))
          | None -> go (app pre ((Relation (a, b, cs)) :: [])) rest)
       in go [] rs

(** val add_attr : char list -> attr -> feature -> feature option **)

let rec add_attr target a = function
| Feature (i, rs) ->
  if eqb0 i.f_name target
  then Some (Feature ({ f_name = i.f_name; f_abstract = i.f_abstract;
         f_type = i.f_type; f_cmin = i.f_cmin; f_cmax = i.f_cmax; f_attrs =
         (app i.f_attrs (a :: [])) }, rs))
  else let rec go pre = function
       | [] -> None
       | r :: rest ->
         let Relation (x, y, cs) = r in
         (match let rec goc cpre = function
                | [] -> None
                | c :: crest ->
                  (match add_attr target a c with
                   | Some c' -> Some (app cpre (c' :: crest))
                   | None -> goc (app cpre (c :: [])) crest)
                in goc [] cs with
          | Some cs' ->
            Some (Feature (i, (app pre ((Relation (x, y, cs')) :: rest))))
          | None -> go (app pre ((Relation (x, y, cs)) :: [])) rest)
       in go [] rs

(** val item_relations : aitem list -> relation list result **)

let item_relations items =
  let singles =
    flat_map (fun i ->
      match i with
      | ISingle (opt, n0) ->
        (Relation ((if opt then Z0 else Zpos XH), (Zpos XH),
          ((leaf n0) :: []))) :: []
      | IGroup (_, _, _) -> []) items
  in
  (match mapM (fun i ->
           match i with
           | ISingle (_, _) -> Ok []
           | IGroup (a, b, cs) ->
             (match afm_to_int a with
              | Ok a' ->
                (match afm_to_int b with
                 | Ok b' -> Ok ((Relation (a', b', (map leaf cs))) :: [])
                 | Err e -> Err e)
              | Err e -> Err e)) items with
   | Ok groups -> Ok (app singles (concat groups))
   | Err e -> Err e)

(** val item_names : aitem list -> char list list **)

let item_names items =
  flat_map (fun i ->
    match i with
    | ISingle (_, n0) -> n0 :: []
    | IGroup (_, _, cs) -> cs) items

(** val fresh_names : char list list -> feature -> bool **)

let fresh_names new0 f =
  (&&) (nodupb new0)
    (forallb (fun n0 -> negb (list_existsb_eq n0 (names f))) new0)

(** val afm_value_aval : avalue -> aval result **)

let afm_value_aval = function
| AvInt t -> (match afm_to_int t with
              | Ok z0 -> Ok (VInt z0)
              | Err e -> Err e)
| AvText t -> Ok (VStr t)
| AvDouble (_, r) -> Ok (VFloat r)

(** val afm_read_expr : char list -> aexpr -> node result **)

let rec afm_read_expr prefix = function
| EVar t ->
  Ok
    (term
      (if match t with
          | [] -> false
          | c::_ -> is_lower c
       then append prefix t
       else t))
| ENum _ -> Err FlamaException
| EBin (op, a, b) ->
  (match afm_operator_of_keyword op with
   | Some o ->
     (match afm_read_expr prefix a with
      | Ok a' ->
        (match afm_read_expr prefix b with
         | Ok b' -> Ok (bin o a' b')
         | Err e0 -> Err e0)
      | Err e0 -> Err e0)
   | None -> Err FlamaException)
| ENot a ->
  (match afm_read_expr prefix a with
   | Ok a' -> Ok (un NOT a')
   | Err e0 -> Err e0)
| EParen a -> afm_read_expr prefix a

(** val afm_read_cst : adoc -> pfm result **)

let afm_read_cst d =
  match d.ad_rels with
  | [] -> Err IndexError
  | first :: others ->
    let root0 = leaf first.rs_parent in
    (match let rec go specs cur =
             match specs with
             | [] -> Ok cur
             | s :: rest ->
               if negb (fresh_names (item_names s.rs_items) cur)
               then Err OtherExn
               else (match item_relations s.rs_items with
                     | Ok rels_ ->
                       (match add_rels s.rs_parent rels_ cur with
                        | Some cur' -> go rest cur'
                        | None -> Err FlamaException)
                     | Err e -> Err e)
           in go (first :: others) root0 with
     | Ok tree ->
       (match let rec goa specs cur =
                match specs with
                | [] -> Ok cur
                | s :: rest ->
                  if negb (list_existsb_eq s.at_feature (names cur))
                  then Err FlamaException
                  else let dom =
                         match s.at_domain with
                         | ADiscrete l ->
                           (match mapM afm_value_aval l with
                            | Ok vs -> Ok { dom_ranges = []; dom_elems = vs }
                            | Err e -> Err e)
                         | ARange l ->
                           (match mapM (fun ab ->
                                    match afm_to_int (fst ab) with
                                    | Ok a ->
                                      (match afm_to_int (snd ab) with
                                       | Ok b ->
                                         Ok { rg_min = (VInt a); rg_max =
                                           (VInt b) }
                                       | Err e -> Err e)
                                    | Err e -> Err e) l with
                            | Ok rs -> Ok { dom_ranges = rs; dom_elems = [] }
                            | Err e -> Err e)
                       in
                       (match dom with
                        | Ok dm ->
                          (match afm_value_aval s.at_default with
                           | Ok dv ->
                             (match afm_value_aval s.at_null with
                              | Ok nv ->
                                (match add_attr s.at_feature { a_name =
                                         s.at_name; a_dom = (Some dm);
                                         a_default = dv; a_null = nv } cur with
                                 | Some cur' -> goa rest cur'
                                 | None -> Err FlamaException)
                              | Err e -> Err e)
                           | Err e -> Err e)
                        | Err e -> Err e)
              in goa (match d.ad_attrs with
                      | Some l -> l
                      | None -> []) tree with
        | Ok tree2 ->
          (match mapM (fun c ->
                   match c with
                   | CSimple (e, t) ->
                     (match afm_read_expr [] e with
                      | Ok n0 -> Ok ({ c_name = t; c_ast = n0 } :: [])
                      | Err x -> Err x)
                   | CBrackets (w, l) ->
                     mapM (fun et ->
                       match afm_read_expr (append w ('.'::[])) (fst et) with
                       | Ok n0 -> Ok { c_name = (snd et); c_ast = n0 }
                       | Err x -> Err x) l)
                   (match d.ad_ctcs with
                    | Some l -> l
                    | None -> []) with
           | Ok css -> Ok (annotate_fm { root = tree2; ctcs = (concat css) })
           | Err e -> Err e)
        | Err e -> Err e)
     | Err e -> Err e)

(** val nl : char list **)

let nl =
  '\n'::[]

(** val tab : char list **)

let tab =
  '\t'::[]

(** val tabs0 : nat -> char list **)

let rec tabs0 = function
| O -> []
| S k -> append tab (tabs0 k)

(** val w_safename : char list -> char list **)

let w_safename s =
  if str_forallb is_safechar s then s else quote s

(** val clafer_keywords : char list list **)

let clafer_keywords =
  ('a'::('b'::('s'::('t'::('r'::('a'::('c'::('t'::[])))))))) :: (('x'::('o'::('r'::[]))) :: (('o'::('r'::[])) :: (('m'::('u'::('x'::[]))) :: (('n'::('o'::('t'::[]))) :: (('t'::('r'::('u'::('e'::[])))) :: (('f'::('a'::('l'::('s'::('e'::[]))))) :: (('i'::('n'::('t'::('e'::('g'::('e'::('r'::[]))))))) :: (('d'::('o'::('u'::('b'::('l'::('e'::[])))))) :: (('s'::('t'::('r'::('i'::('n'::('g'::[])))))) :: (('b'::('o'::('o'::('l'::('e'::('a'::('n'::[]))))))) :: []))))))))))

(** val cl_safename : char list -> char list **)

let cl_safename s =
  if existsb (eqb0 s) clafer_keywords then quote s else w_safename s

type sxf =
| SxF of char list * sxitem list
and sxitem =
| SxSolitary of bool * sxf
| SxGroup of z * z * sxf list

(** val sx_name : sxf -> char list **)

let sx_name = function
| SxF (n0, _) -> n0

type splot_doc = { sp_model_name : char list; sp_root : sxf;
                   sp_clauses : (bool * char list) list list }

(** val splot_tree : feature -> sxf **)

let rec splot_tree = function
| Feature (i, rs) ->
  SxF (i.f_name,
    (map (fun r ->
      let Relation (mn, mx, cs) = r in
      if rel_is_optional r
      then (match cs with
            | [] -> SxGroup (mn, mx, [])
            | c :: _ -> SxSolitary (true, (splot_tree c)))
      else if rel_is_mandatory r
           then (match cs with
                 | [] -> SxGroup (mn, mx, [])
                 | c :: _ -> SxSolitary (false, (splot_tree c)))
           else SxGroup (mn, mx, (map splot_tree cs))) rs))

(** val splot_literal : ndata -> (bool * char list) result **)

let splot_literal = function
| DStr t ->
  (match t with
   | [] -> Ok (false, t)
   | a::rest ->
     (* If this appears, you're using Ascii internals. Please don't *)
 (fun f c ->
  let n = Char.code c in
  let h i = (n land (1 lsl i)) <> 0 in
  f (h 0) (h 1) (h 2) (h 3) (h 4) (h 5) (h 6) (h 7))
       (fun b b0 b1 b2 b3 b4 b5 b6 ->
       if b
       then if b0
            then Ok (false, t)
            else if b1
                 then if b2
                      then if b3
                           then Ok (false, t)
                           else if b4
                                then if b5
                                     then Ok (false, t)
                                     else if b6
                                          then Ok (false, t)
                                          else Ok (true, rest)
                                else Ok (false, t)
                      else Ok (false, t)
                 else Ok (false, t)
       else Ok (false, t))
       a)
| _ -> Err AttributeError

(** val splot_clauses : ctc list -> (bool * char list) list list result **)

let splot_clauses cs =
  match mapM (fun c ->
          match get_clauses c.c_ast with
          | Ok cls -> mapM (mapM splot_literal) cls
          | Err e -> Err e) cs with
  | Ok l -> Ok (concat l)
  | Err e -> Err e

(** val splot_write : fm -> splot_doc result **)

let splot_write m =
  match splot_clauses m.ctcs with
  | Ok cl ->
    Ok { sp_model_name = (str_remove_char ' ' (name m.root)); sp_root =
      (splot_tree m.root); sp_clauses = cl }
  | Err e -> Err e

(** val sx_none : (char list -> bool) -> sxf -> bool **)

let rec sx_none _UU03c3_ = function
| SxF (n0, items) ->
  (&&) (negb (_UU03c3_ n0))
    (forallb (fun it ->
      match it with
      | SxSolitary (_, c) -> sx_none _UU03c3_ c
      | SxGroup (_, _, ms) -> forallb (sx_none _UU03c3_) ms) items)

(** val sx_sem : (char list -> bool) -> sxf -> bool **)

let rec sx_sem _UU03c3_ = function
| SxF (n0, items) ->
  (&&) (_UU03c3_ n0)
    (forallb (fun it ->
      match it with
      | SxSolitary (opt, c) ->
        if _UU03c3_ (sx_name c)
        then sx_sem _UU03c3_ c
        else (&&) opt (sx_none _UU03c3_ c)
      | SxGroup (mn, mx, ms) ->
        (&&)
          (card_okb mn mx (length ms)
            (Z.of_nat (length (filter (fun c -> _UU03c3_ (sx_name c)) ms))))
          (forallb (fun c ->
            if _UU03c3_ (sx_name c)
            then sx_sem _UU03c3_ c
            else sx_none _UU03c3_ c) ms)) items)

(** val clause_true :
    (char list -> bool) -> (bool * char list) list -> bool **)

let clause_true _UU03c3_ cl =
  existsb (fun l ->
    if fst l then negb (_UU03c3_ (snd l)) else _UU03c3_ (snd l)) cl

(** val sxfm_sat : (char list -> bool) -> splot_doc -> bool **)

let sxfm_sat _UU03c3_ d =
  (&&) (sx_sem _UU03c3_ d.sp_root)
    (forallb (clause_true _UU03c3_) d.sp_clauses)

(** val sx_safename : char list -> char list **)

let sx_safename s =
  if eqb0 s ('o'::('r'::[])) then quote s else w_safename s

(** val sx_label : char list -> char list **)

let sx_label n0 =
  append (sx_safename n0)
    (append (' '::('('::[])) (append (sx_safename n0) (')'::[])))

(** val card_star : z -> char list **)

let card_star mx =
  if Z.eqb mx (Zneg XH) then '*'::[] else z_to_string mx

(** val sx_lines : sxf -> nat -> char list list **)

let rec sx_lines f ntabs =
  let SxF (_, items) = f in
  flat_map (fun it ->
    match it with
    | SxSolitary (opt, c) ->
      (append (tabs0 ntabs)
        (append
          (if opt then ':'::('o'::(' '::[])) else ':'::('m'::(' '::[])))
          (sx_label (sx_name c)))) :: (sx_lines c (S ntabs))
    | SxGroup (mn, mx, ms) ->
      (append (tabs0 ntabs)
        (append (':'::('g'::(' '::('['::[]))))
          (append (z_to_string mn)
            (append (','::[]) (append (card_star mx) (']'::[])))))) :: 
        (flat_map (fun c ->
          (append (tabs0 (S ntabs))
            (append (':'::(' '::[])) (sx_label (sx_name c)))) :: (sx_lines c
                                                                   (S (S
                                                                   ntabs))))
          ms)) items

(** val xml_escape : bool -> char list -> char list **)

let rec xml_escape quot = function
| [] -> []
| c::r ->
  append
    (if (=) c '&'
     then '&'::('a'::('m'::('p'::(';'::[]))))
     else if (=) c '<'
          then '&'::('l'::('t'::(';'::[])))
          else if (=) c '>'
               then '&'::('g'::('t'::(';'::[])))
               else if (&&) quot ((=) c '"')
                    then '&'::('q'::('u'::('o'::('t'::(';'::[])))))
                    else c::[]) (xml_escape quot r)

(** val render_splot : splot_doc -> char list **)

let render_splot d =
  str_join nl
    (app
      (('<'::('?'::('x'::('m'::('l'::(' '::('v'::('e'::('r'::('s'::('i'::('o'::('n'::('='::('"'::('1'::('.'::('0'::('"'::(' '::('e'::('n'::('c'::('o'::('d'::('i'::('n'::('g'::('='::('"'::('U'::('T'::('F'::('-'::('8'::('"'::(' '::('s'::('t'::('a'::('n'::('d'::('a'::('l'::('o'::('n'::('e'::('='::('"'::('n'::('o'::('"'::('?'::('>'::[])))))))))))))))))))))))))))))))))))))))))))))))))))))) :: (
      (append
        ('<'::('f'::('e'::('a'::('t'::('u'::('r'::('e'::('_'::('m'::('o'::('d'::('e'::('l'::(' '::('n'::('a'::('m'::('e'::('='::('"'::[])))))))))))))))))))))
        (append (xml_escape true d.sp_model_name) ('"'::('>'::[])))) :: (('<'::('f'::('e'::('a'::('t'::('u'::('r'::('e'::('_'::('t'::('r'::('e'::('e'::('>'::[])))))))))))))) :: [])))
      (app
        (map (xml_escape false)
          ((append (':'::('r'::(' '::[]))) (sx_label (sx_name d.sp_root))) :: 
          (sx_lines d.sp_root (S O))))
        (app
          (('<'::('/'::('f'::('e'::('a'::('t'::('u'::('r'::('e'::('_'::('t'::('r'::('e'::('e'::('>'::[]))))))))))))))) :: (('<'::('c'::('o'::('n'::('s'::('t'::('r'::('a'::('i'::('n'::('t'::('s'::('>'::[]))))))))))))) :: []))
          (app
            (map (xml_escape false)
              (let rec go i = function
               | [] -> []
               | cl :: rest ->
                 (append tab
                   (append ('C'::[])
                     (append (z_to_string i)
                       (append (':'::(' '::[]))
                         (str_join (' '::('o'::('r'::(' '::[]))))
                           (map (fun l ->
                             if fst l
                             then append ('~'::[]) (sx_safename (snd l))
                             else sx_safename (snd l)) cl)))))) :: (go
                                                                    (Z.add i
                                                                    (Zpos XH))
                                                                    rest)
               in go (Zpos XH) d.sp_clauses))
            (('<'::('/'::('c'::('o'::('n'::('s'::('t'::('r'::('a'::('i'::('n'::('t'::('s'::('>'::[])))))))))))))) :: (('<'::('/'::('f'::('e'::('a'::('t'::('u'::('r'::('e'::('_'::('m'::('o'::('d'::('e'::('l'::('>'::[])))))))))))))))) :: []))))))

(** val splot_text : fm -> char list result **)

let splot_text m =
  match splot_write m with
  | Ok d -> Ok (render_splot d)
  | Err e -> Err e

type pl =
| PVar of char list
| PNot of pl
| PAnd of pl * pl
| POr of pl * pl
| PImp of pl * pl
| PIff of pl * pl
| PParen of pl

(** val pl_eval : (char list -> bool) -> pl -> bool **)

let rec pl_eval _UU03c3_ = function
| PVar s -> _UU03c3_ s
| PNot a -> negb (pl_eval _UU03c3_ a)
| PAnd (a, b) -> (&&) (pl_eval _UU03c3_ a) (pl_eval _UU03c3_ b)
| POr (a, b) -> (||) (pl_eval _UU03c3_ a) (pl_eval _UU03c3_ b)
| PImp (a, b) -> implb (pl_eval _UU03c3_ a) (pl_eval _UU03c3_ b)
| PIff (a, b) -> eqb (pl_eval _UU03c3_ a) (pl_eval _UU03c3_ b)
| PParen a -> pl_eval _UU03c3_ a

(** val render_pl : pl -> char list **)

let rec render_pl = function
| PVar s -> s
| PNot a -> append ('n'::('o'::('t'::(' '::[])))) (render_pl a)
| PAnd (a, b) ->
  append (render_pl a)
    (append (' '::('a'::('n'::('d'::(' '::[]))))) (render_pl b))
| POr (a, b) ->
  append (render_pl a) (append (' '::('o'::('r'::(' '::[])))) (render_pl b))
| PImp (a, b) ->
  append (render_pl a) (append (' '::('-'::('>'::(' '::[])))) (render_pl b))
| PIff (a, b) ->
  append (render_pl a)
    (append (' '::('<'::('-'::('>'::(' '::[]))))) (render_pl b))
| PParen a -> append ('('::[]) (append (render_pl a) (')'::[]))

(** val pjoin : (pl -> pl -> pl) -> pl list -> pl -> pl **)

let pjoin op l empty =
  match l with
  | [] -> empty
  | x :: xs -> fold_left op xs x

(** val combs : nat -> nat list -> nat list list **)

let rec combs k l =
  match k with
  | O -> [] :: []
  | S k' ->
    (match l with
     | [] -> []
     | x :: xs -> app (map (fun x0 -> x :: x0) (combs k' xs)) (combs k xs))

(** val pl_relation : char list -> relation -> pl result **)

let pl_relation owner r =
  let p = PVar owner in
  let cs = map name (r_children r) in
  let n0 = length cs in
  if rel_is_mandatory r
  then Ok (PIff (p, (PVar (hd [] cs))))
  else if rel_is_optional r
       then Ok (PImp ((PVar (hd [] cs)), p))
       else if rel_is_or r
            then Ok (PIff (p, (PParen
                   (pjoin (fun x x0 -> POr (x, x0))
                     (map (fun x -> PVar x) cs) p))))
            else if rel_is_alternative r
                 then Ok
                        (pjoin (fun x x0 -> PAnd (x, x0))
                          (map (fun i -> PParen (PIff ((PVar (nth i cs [])),
                            (PParen
                            (pjoin (fun x x0 -> PAnd (x, x0))
                              (app
                                (map (fun j -> PNot (PVar (nth j cs [])))
                                  (filter (fun j -> negb (Nat.eqb j i))
                                    (seq O n0))) (p :: [])) p))))) (seq O n0))
                          p)
                 else if Z.ltb (r_min r) Z0
                      then Err ValueError
                      else let card_max =
                             if Z.eqb (r_max r) (Zneg XH)
                             then Z.of_nat n0
                             else r_max r
                           in
                           let ks =
                             map (fun d -> add (Z.to_nat (r_min r)) d)
                               (seq O
                                 (Z.to_nat
                                   (Z.sub (Z.add card_max (Zpos XH))
                                     (r_min r))))
                           in
                           let combos =
                             flat_map (fun k ->
                               map (fun positives -> PParen
                                 (pjoin (fun x x0 -> PAnd (x, x0))
                                   (map (fun i ->
                                     if existsb (Nat.eqb i) positives
                                     then PVar (nth i cs [])
                                     else PNot (PVar (nth i cs [])))
                                     (seq O n0)) p)) (combs k (seq O n0))) ks
                           in
                           let combos' =
                             match combos with
                             | [] -> (PParen (PAnd (p, (PNot p)))) :: []
                             | _ :: _ -> combos
                           in
                           let cip =
                             pjoin (fun x x0 -> PAnd (x, x0))
                               (map (fun c -> PParen (PImp ((PVar c), p))) cs)
                               p
                           in
                           Ok (PAnd (cip, (PParen (PImp (p, (PParen
                           (pjoin (fun x x0 -> POr (x, x0)) combos' p)))))))

(** val pl_node : node -> pl result **)

let rec pl_node = function
| Node (d, l, r) ->
  let operand = fun c ->
    match c with
    | Some x ->
      (match pl_node x with
       | Ok px -> Ok (if is_op x then PParen px else px)
       | Err e -> Err e)
    | None -> Err AttributeError
  in
  (match d with
   | DOp o ->
     (match o with
      | NOT -> (match operand l with
                | Ok a -> Ok (PNot a)
                | Err e -> Err e)
      | _ ->
        (match operand l with
         | Ok a ->
           (match operand r with
            | Ok b ->
              (match o with
               | REQUIRES -> Ok (PImp (a, b))
               | EXCLUDES -> Ok (PImp (a, (PNot b)))
               | AND -> Ok (PAnd (a, b))
               | OR -> Ok (POr (a, b))
               | XOR ->
                 Ok (PAnd ((PParen (POr (a, b))), (PNot (PParen (PAnd (a,
                   b))))))
               | IMPLIES -> Ok (PImp (a, b))
               | EQUIVALENCE -> Ok (PIff (a, b))
               | _ -> Err ValueError)
            | Err e -> Err e)
         | Err e -> Err e))
   | _ -> Ok (PVar (data_str d)))

(** val pl_write : fm -> pl list result **)

let pl_write m =
  match mapM (fun pr -> pl_relation (name (fst pr)) (snd pr))
          (subrelations_ctx m.root) with
  | Ok rels_ ->
    (match mapM (fun c -> pl_node c.c_ast)
             (filter (fun c -> is_logical c.c_ast) m.ctcs) with
     | Ok cs -> Ok ((PVar (name m.root)) :: (app rels_ cs))
     | Err e -> Err e)
  | Err e -> Err e

(** val pl_sat : (char list -> bool) -> pl list -> bool **)

let pl_sat _UU03c3_ d =
  forallb (pl_eval _UU03c3_) d

(** val pl_lines : fm -> char list list result **)

let pl_lines m =
  match pl_write m with
  | Ok d -> Ok (map render_pl d)
  | Err e -> Err e

type cgroup =
| GXor
| GOr0
| GMux
| GCardC of z * z

type clf =
| Clf of cgroup option * char list * bool * bool
   * (char list * char list) list * clf list

type cexpr =
| CxVar of char list
| CxNot of cexpr
| CxBin of char list * cexpr * cexpr
| CxParen of cexpr

type cdoc = { cd_attrdecls : (char list * char list) list; cd_root : 
              clf; cd_ctcs : cexpr list; cd_instance_of : char list }

(** val clafer_group : feature -> cgroup option **)

let clafer_group f =
  if feat_is_alternative_group f
  then Some GXor
  else if feat_is_or_group f
       then Some GOr0
       else if feat_is_cardinality_group f
            then (match find rel_is_cardinal (rels f) with
                  | Some r -> Some (GCardC ((r_min r), (r_max r)))
                  | None -> None)
            else if feat_is_mutex_group f then Some GMux else None

(** val py_str : aval -> char list **)

let rec py_str = function
| VNone -> 'N'::('o'::('n'::('e'::[])))
| VBool b ->
  if b
  then 'T'::('r'::('u'::('e'::[])))
  else 'F'::('a'::('l'::('s'::('e'::[]))))
| VInt z0 -> z_to_string z0
| VFloat r -> r
| VStr s -> append ('\''::[]) (append s ('\''::[]))
| VList l ->
  append ('['::[])
    (append (str_join (','::(' '::[])) (map py_str l)) (']'::[]))
| VMap _ -> '{'::('.'::('.'::('.'::('}'::[]))))

(** val clafer_value : aval -> char list **)

let clafer_value v = match v with
| VNone -> []
| VBool b ->
  if b
  then 't'::('r'::('u'::('e'::[])))
  else 'f'::('a'::('l'::('s'::('e'::[]))))
| VInt z0 -> z_to_string z0
| VFloat r -> (match py_positional r with
               | Some t -> t
               | None -> r)
| VStr s -> quote s
| _ -> py_str v

(** val clafer_type : aval -> char list **)

let clafer_type = function
| VBool _ -> 'b'::('o'::('o'::('l'::('e'::('a'::('n'::[]))))))
| VInt _ -> 'i'::('n'::('t'::('e'::('g'::('e'::('r'::[]))))))
| VFloat _ -> 'd'::('o'::('u'::('b'::('l'::('e'::[])))))
| VStr _ -> 's'::('t'::('r'::('i'::('n'::('g'::[])))))
| _ -> []

(** val in_any_number_group : feature option -> feature -> bool **)

let in_any_number_group p f =
  match p with
  | Some q ->
    existsb (fun r ->
      (&&)
        ((&&) ((&&) (rel_is_cardinal r) (Z.eqb (r_min r) Z0))
          (Z.eqb (r_max r) (Zneg XH))) (in_children f r)) (rels q)
  | None -> false

(** val clafer_tree : feature option -> feature -> clf **)

let rec clafer_tree p f = match f with
| Feature (i, rs) ->
  Clf ((clafer_group f), (cl_safename i.f_name),
    (negb (Nat.eqb (length i.f_attrs) O)),
    ((||) (feat_is_optional p f) (in_any_number_group p f)),
    (map (fun a -> ((cl_safename a.a_name), (clafer_value a.a_default)))
      i.f_attrs),
    (flat_map (fun r ->
      let Relation (_, _, cs) = r in map (clafer_tree (Some f)) cs) rs))

(** val clafer_operator : astop -> char list option **)

let clafer_operator = function
| REQUIRES -> Some ('='::('>'::[]))
| AND -> Some ('&'::('&'::[]))
| OR -> Some ('|'::('|'::[]))
| XOR -> Some ('x'::('o'::('r'::[])))
| IMPLIES -> Some ('='::('>'::[]))
| NOT -> Some ('n'::('o'::('t'::[])))
| EQUIVALENCE -> Some ('<'::('='::('>'::[])))
| _ -> None

(** val clafer_node : node -> cexpr result **)

let rec clafer_node = function
| Node (d, l, r) ->
  let operand = fun c ->
    match c with
    | Some x ->
      (match clafer_node x with
       | Ok cx -> Ok (if is_op x then CxParen cx else cx)
       | Err e -> Err e)
    | None -> Err AttributeError
  in
  (match d with
   | DOp o ->
     (match o with
      | NOT -> (match operand l with
                | Ok a -> Ok (CxNot a)
                | Err e -> Err e)
      | _ ->
        (match operand l with
         | Ok a ->
           (match operand r with
            | Ok b ->
              if astop_eqb o EXCLUDES
              then Ok (CxBin (('='::('>'::[])), a, (CxNot b)))
              else (match clafer_operator o with
                    | Some s -> Ok (CxBin (s, a, b))
                    | None -> Err KeyError)
            | Err e -> Err e)
         | Err e -> Err e))
   | _ -> Ok (CxVar (cl_safename (data_str d))))

(** val clafer_attrdecls : fm -> (char list * char list) list **)

let clafer_attrdecls m =
  let all =
    flat_map (fun f ->
      map (fun a -> (a.a_name, (clafer_type a.a_default))) (info f).f_attrs)
      (get_features m)
  in
  let d =
    fold_left (fun acc kv -> dict_set acc (fst kv) (VStr (snd kv))) all []
  in
  map (fun kv -> ((cl_safename (fst kv)),
    (match snd kv with
     | VStr s -> s
     | _ -> []))) d

(** val nonfinite_float : aval -> bool **)

let nonfinite_float = function
| VFloat r -> (match py_positional r with
               | Some _ -> false
               | None -> true)
| _ -> false

(** val clafer_write : fm -> cdoc result **)

let clafer_write m =
  if existsb (fun f ->
       existsb (fun a -> nonfinite_float a.a_default) (info f).f_attrs)
       (get_features m)
  then Err FlamaException
  else (match mapM (fun c -> clafer_node c.c_ast) m.ctcs with
        | Ok cs ->
          Ok { cd_attrdecls = (clafer_attrdecls m); cd_root =
            (clafer_tree None m.root); cd_ctcs = cs; cd_instance_of =
            (cl_safename (name m.root)) }
        | Err e -> Err e)

(** val cl_name : clf -> char list **)

let cl_name = function
| Clf (_, n0, _, _, _, _) -> n0

(** val cl_optional : clf -> bool **)

let cl_optional = function
| Clf (_, _, _, o, _, _) -> o

(** val cl_none : (char list -> bool) -> clf -> bool **)

let rec cl_none _UU03c3_ = function
| Clf (_, n0, _, _, _, kids) ->
  (&&) (negb (_UU03c3_ n0)) (forallb (cl_none _UU03c3_) kids)

(** val group_bounds : cgroup -> nat -> z * z **)

let group_bounds g n0 =
  match g with
  | GXor -> ((Zpos XH), (Zpos XH))
  | GOr0 -> ((Zpos XH), (Z.of_nat n0))
  | GMux -> (Z0, (Zpos XH))
  | GCardC (a, b) -> (a, (if Z.eqb b (Zneg XH) then Z.of_nat n0 else b))

(** val default_gcard : cgroup option -> bool **)

let default_gcard = function
| Some c ->
  (match c with
   | GCardC (a, b) -> (&&) (Z.eqb a Z0) (Z.eqb b (Zneg XH))
   | _ -> false)
| None -> true

(** val cl_sem : (char list -> bool) -> clf -> bool **)

let rec cl_sem _UU03c3_ = function
| Clf (g, n0, _, _, _, kids) ->
  (&&) (_UU03c3_ n0)
    (match if default_gcard g then None else g with
     | Some gr ->
       let (a, b) = group_bounds gr (length kids) in
       let k = Z.of_nat (length (filter (fun d -> _UU03c3_ (cl_name d)) kids))
       in
       (&&) ((&&) (Z.leb a k) (Z.leb k b))
         (forallb (fun d ->
           if _UU03c3_ (cl_name d)
           then cl_sem _UU03c3_ d
           else cl_none _UU03c3_ d) kids)
     | None ->
       forallb (fun d ->
         if _UU03c3_ (cl_name d)
         then cl_sem _UU03c3_ d
         else (&&) (cl_optional d) (cl_none _UU03c3_ d)) kids)

(** val cx_eval : (char list -> bool) -> cexpr -> bool **)

let rec cx_eval _UU03c3_ = function
| CxVar s -> _UU03c3_ s
| CxNot a -> negb (cx_eval _UU03c3_ a)
| CxBin (op, a, b) ->
  let x = cx_eval _UU03c3_ a in
  let y = cx_eval _UU03c3_ b in
  if eqb0 op ('&'::('&'::[]))
  then (&&) x y
  else if eqb0 op ('|'::('|'::[]))
       then (||) x y
       else if eqb0 op ('x'::('o'::('r'::[])))
            then xorb x y
            else if eqb0 op ('='::('>'::[]))
                 then implb x y
                 else if eqb0 op ('<'::('='::('>'::[])))
                      then eqb x y
                      else false
| CxParen a -> cx_eval _UU03c3_ a

(** val clafer_sat : (char list -> bool) -> cdoc -> bool **)

let clafer_sat _UU03c3_ d =
  (&&) (cl_sem _UU03c3_ d.cd_root) (forallb (cx_eval _UU03c3_) d.cd_ctcs)

(** val render_cgroup : cgroup -> char list **)

let render_cgroup = function
| GXor -> 'x'::('o'::('r'::[]))
| GOr0 -> 'o'::('r'::[])
| GMux -> 'm'::('u'::('x'::[]))
| GCardC (a, b) ->
  append (z_to_string a) (append ('.'::('.'::[])) (card_star b))

(** val render_clf : clf -> nat -> char list **)

let rec render_clf c ntabs =
  let Clf (g, n0, attributed, opt, actcs, kids) = c in
  append (tabs0 ntabs)
    (append
      (match g with
       | Some gr -> append (render_cgroup gr) (' '::[])
       | None -> [])
      (append n0
        (append
          (if attributed
           then ' '::(':'::(' '::('A'::('t'::('t'::('r'::('i'::('b'::('u'::('t'::('e'::('d'::('F'::('e'::('a'::('t'::('u'::('r'::('e'::[])))))))))))))))))))
           else [])
          (append (if opt then ' '::('?'::[]) else [])
            (append
              (str_concat
                (map (fun kv ->
                  append nl
                    (append (tabs0 (S ntabs))
                      (append ('['::[])
                        (append (fst kv)
                          (append (' '::('='::(' '::[])))
                            (append (snd kv) (']'::[]))))))) actcs))
              (append nl
                (str_concat (map (fun k -> render_clf k (S ntabs)) kids))))))))

(** val render_cexpr : cexpr -> char list **)

let rec render_cexpr = function
| CxVar s -> s
| CxNot a -> append ('n'::('o'::('t'::(' '::[])))) (render_cexpr a)
| CxBin (op, a, b) ->
  append (render_cexpr a)
    (append (' '::[]) (append op (append (' '::[]) (render_cexpr b))))
| CxParen a -> append ('('::[]) (append (render_cexpr a) (')'::[]))

(** val render_clafer : cdoc -> char list **)

let render_clafer d =
  append
    (match d.cd_attrdecls with
     | [] -> []
     | p :: l0 ->
       append
         ('a'::('b'::('s'::('t'::('r'::('a'::('c'::('t'::(' '::('A'::('t'::('t'::('r'::('i'::('b'::('u'::('t'::('e'::('d'::('F'::('e'::('a'::('t'::('u'::('r'::('e'::[]))))))))))))))))))))))))))
         (append nl
           (str_concat
             (map (fun kv ->
               append tab
                 (append (fst kv)
                   (append (' '::('-'::('>'::(' '::[]))))
                     (append (snd kv) nl)))) (p :: l0)))))
    (append nl
      (append
        ('a'::('b'::('s'::('t'::('r'::('a'::('c'::('t'::(' '::[])))))))))
        (append (render_clf d.cd_root O)
          (append
            (str_concat
              (map (fun e ->
                append nl
                  (append ('['::[]) (append (render_cexpr e) (']'::[]))))
                d.cd_ctcs))
            (append nl
              (append nl
                (append ('C'::('P'::(' '::(':'::(' '::[])))))
                  (append d.cd_instance_of nl))))))))

(** val clafer_text : fm -> char list result **)

let clafer_text m =
  match clafer_write m with
  | Ok d -> Ok (render_clafer d)
  | Err e -> Err e

(** val metric_methods : char list list **)

let metric_methods =
  ('a'::('b'::('s'::('t'::('r'::('a'::('c'::('t'::('_'::('c'::('o'::('m'::('p'::('o'::('u'::('n'::('d'::('_'::('f'::('e'::('a'::('t'::('u'::('r'::('e'::('s'::[])))))))))))))))))))))))))) :: (('a'::('b'::('s'::('t'::('r'::('a'::('c'::('t'::('_'::('f'::('e'::('a'::('t'::('u'::('r'::('e'::('s'::[]))))))))))))))))) :: (('a'::('b'::('s'::('t'::('r'::('a'::('c'::('t'::('_'::('l'::('e'::('a'::('f'::('_'::('f'::('e'::('a'::('t'::('u'::('r'::('e'::('s'::[])))))))))))))))))))))) :: (('a'::('l'::('t'::('e'::('r'::('n'::('a'::('t'::('i'::('v'::('e'::('_'::('g'::('r'::('o'::('u'::('p'::('s'::[])))))))))))))))))) :: (('a'::('v'::('g'::('_'::('c'::('h'::('i'::('l'::('d'::('r'::('e'::('n'::('_'::('p'::('e'::('r'::('_'::('f'::('e'::('a'::('t'::('u'::('r'::('e'::[])))))))))))))))))))))))) :: (('a'::('v'::('g'::('_'::('c'::('o'::('n'::('s'::('t'::('r'::('a'::('i'::('n'::('t'::('s'::('_'::('p'::('e'::('r'::('_'::('f'::('e'::('a'::('t'::('u'::('r'::('e'::[]))))))))))))))))))))))))))) :: (('b'::('r'::('a'::('n'::('c'::('h'::('i'::('n'::('g'::('_'::('f'::('a'::('c'::('t'::('o'::('r'::[])))))))))))))))) :: (('c'::('a'::('r'::('d'::('i'::('n'::('a'::('l'::('i'::('t'::('y'::('_'::('g'::('r'::('o'::('u'::('p'::('s'::[])))))))))))))))))) :: (('c'::('o'::('m'::('p'::('l'::('e'::('x'::('_'::('c'::('o'::('n'::('s'::('t'::('r'::('a'::('i'::('n'::('t'::('s'::[]))))))))))))))))))) :: (('c'::('o'::('m'::('p'::('o'::('u'::('n'::('d'::('_'::('f'::('e'::('a'::('t'::('u'::('r'::('e'::('s'::[]))))))))))))))))) :: (('c'::('o'::('n'::('c'::('r'::('e'::('t'::('e'::('_'::('c'::('o'::('m'::('p'::('o'::('u'::('n'::('d'::('_'::('f'::('e'::('a'::('t'::('u'::('r'::('e'::('s'::[])))))))))))))))))))))))))) :: (('c'::('o'::('n'::('c'::('r'::('e'::('t'::('e'::('_'::('f'::('e'::('a'::('t'::('u'::('r'::('e'::('s'::[]))))))))))))))))) :: (('c'::('o'::('n'::('c'::('r'::('e'::('t'::('e'::('_'::('l'::('e'::('a'::('f'::('_'::('f'::('e'::('a'::('t'::('u'::('r'::('e'::('s'::[])))))))))))))))))))))) :: (('c'::('r'::('o'::('s'::('s'::('_'::('t'::('r'::('e'::('e'::('_'::('c'::('o'::('n'::('s'::('t'::('r'::('a'::('i'::('n'::('t'::('s'::[])))))))))))))))))))))) :: (('d'::('e'::('p'::('t'::('h'::('_'::('t'::('r'::('e'::('e'::[])))))))))) :: (('e'::('x'::('c'::('l'::('u'::('d'::('e'::('s'::('_'::('c'::('o'::('n'::('s'::('t'::('r'::('a'::('i'::('n'::('t'::('s'::[])))))))))))))))))))) :: (('e'::('x'::('t'::('r'::('a'::('_'::('c'::('o'::('n'::('s'::('t'::('r'::('a'::('i'::('n'::('t'::('_'::('r'::('e'::('p'::('r'::('e'::('s'::('e'::('n'::('t'::('a'::('t'::('i'::('v'::('e'::('n'::('e'::('s'::('s'::[]))))))))))))))))))))))))))))))))))) :: (('f'::('e'::('a'::('t'::('u'::('r'::('e'::('_'::('g'::('r'::('o'::('u'::('p'::('s'::[])))))))))))))) :: (('f'::('e'::('a'::('t'::('u'::('r'::('e'::('s'::[])))))))) :: (('g'::('r'::('o'::('u'::('p'::('e'::('d'::('_'::('f'::('e'::('a'::('t'::('u'::('r'::('e'::('s'::[])))))))))))))))) :: (('l'::('e'::('a'::('f'::('_'::('f'::('e'::('a'::('t'::('u'::('r'::('e'::('s'::[]))))))))))))) :: (('m'::('a'::('n'::('d'::('a'::('t'::('o'::('r'::('y'::('_'::('f'::('e'::('a'::('t'::('u'::('r'::('e'::('s'::[])))))))))))))))))) :: (('m'::('a'::('x'::('_'::('c'::('h'::('i'::('l'::('d'::('r'::('e'::('n'::('_'::('p'::('e'::('r'::('_'::('f'::('e'::('a'::('t'::('u'::('r'::('e'::[])))))))))))))))))))))))) :: (('m'::('a'::('x'::('_'::('c'::('o'::('n'::('s'::('t'::('r'::('a'::('i'::('n'::('t'::('s'::('_'::('p'::('e'::('r'::('_'::('f'::('e'::('a'::('t'::('u'::('r'::('e'::[]))))))))))))))))))))))))))) :: (('m'::('a'::('x'::('_'::('d'::('e'::('p'::('t'::('h'::('_'::('t'::('r'::('e'::('e'::[])))))))))))))) :: (('m'::('e'::('a'::('n'::('_'::('d'::('e'::('p'::('t'::('h'::('_'::('t'::('r'::('e'::('e'::[]))))))))))))))) :: (('m'::('e'::('d'::('i'::('a'::('n'::('_'::('d'::('e'::('p'::('t'::('h'::('_'::('t'::('r'::('e'::('e'::[]))))))))))))))))) :: (('m'::('i'::('n'::('_'::('c'::('h'::('i'::('l'::('d'::('r'::('e'::('n'::('_'::('p'::('e'::('r'::('_'::('f'::('e'::('a'::('t'::('u'::('r'::('e'::[])))))))))))))))))))))))) :: (('m'::('i'::('n'::('_'::('c'::('o'::('n'::('s'::('t'::('r'::('a'::('i'::('n'::('t'::('s'::('_'::('p'::('e'::('r'::('_'::('f'::('e'::('a'::('t'::('u'::('r'::('e'::[]))))))))))))))))))))))))))) :: (('m'::('u'::('t'::('e'::('x'::('_'::('g'::('r'::('o'::('u'::('p'::('s'::[])))))))))))) :: (('o'::('p'::('t'::('i'::('o'::('n'::('a'::('l'::('_'::('f'::('e'::('a'::('t'::('u'::('r'::('e'::('s'::[]))))))))))))))))) :: (('o'::('r'::('_'::('g'::('r'::('o'::('u'::('p'::('s'::[]))))))))) :: (('p'::('s'::('e'::('u'::('d'::('o'::('_'::('c'::('o'::('m'::('p'::('l'::('e'::('x'::('_'::('c'::('o'::('n'::('s'::('t'::('r'::('a'::('i'::('n'::('t'::('s'::[])))))))))))))))))))))))))) :: (('r'::('e'::('q'::('u'::('i'::('r'::('e'::('s'::('_'::('c'::('o'::('n'::('s'::('t'::('r'::('a'::('i'::('n'::('t'::('s'::[])))))))))))))))))))) :: (('r'::('o'::('o'::('t'::('_'::('f'::('e'::('a'::('t'::('u'::('r'::('e'::[])))))))))))) :: (('s'::('i'::('m'::('p'::('l'::('e'::('_'::('c'::('o'::('n'::('s'::('t'::('r'::('a'::('i'::('n'::('t'::('s'::[])))))))))))))))))) :: (('s'::('o'::('l'::('i'::('t'::('a'::('r'::('y'::('_'::('f'::('e'::('a'::('t'::('u'::('r'::('e'::('s'::[]))))))))))))))))) :: (('s'::('t'::('r'::('i'::('c'::('t'::('_'::('c'::('o'::('m'::('p'::('l'::('e'::('x'::('_'::('c'::('o'::('n'::('s'::('t'::('r'::('a'::('i'::('n'::('t'::('s'::[])))))))))))))))))))))))))) :: (('t'::('o'::('p'::('_'::('f'::('e'::('a'::('t'::('u'::('r'::('e'::('s'::[])))))))))))) :: (('t'::('r'::('e'::('e'::('_'::('r'::('e'::('l'::('a'::('t'::('i'::('o'::('n'::('s'::('h'::('i'::('p'::('s'::[])))))))))))))))))) :: [])))))))))))))))))))))))))))))))))))))))

type mval =
| MNames of char list list
| MStr of char list
| MInt of z
| MHund of z

type entry = { me_method : char list; me_name : char list; me_result : 
               mval; me_size : z option; me_ratio : z option;
               me_parent : char list option; me_level : z }

(** val zlen : 'a1 list -> z **)

let zlen l =
  Z.of_nat (length l)

(** val get_ratio : z -> z -> z -> z **)

let get_ratio n1 n2 precision =
  if Z.eqb n2 Z0
  then Z0
  else Z.mul (pyround_div n1 n2 precision)
         (Z.pow (Zpos (XO (XI (XO XH))))
           (Z.sub (Zpos (XO (XO XH))) precision))

(** val mk :
    char list -> char list -> mval -> z option -> z option -> char list
    option -> z -> entry **)

let mk meth name0 r size0 ratio parent level =
  { me_method = meth; me_name = name0; me_result = r; me_size = size0;
    me_ratio = ratio; me_parent = parent; me_level = level }

(** val listing :
    char list -> char list -> char list list -> char list list -> char list
    -> z -> entry **)

let listing meth name0 l base parent level =
  mk meth name0 (MNames l) (Some (zlen l)) (Some
    (get_ratio (zlen l) (zlen base) (Zpos (XO (XO XH))))) (Some parent) level

(** val ctc_str : ctc -> char list **)

let ctc_str c =
  append ('('::[])
    (append c.c_name (append (')'::(' '::[])) (node_str c.c_ast)))

(** val is_abstract_truthy : feature -> bool **)

let is_abstract_truthy f =
  match (info f).f_abstract with
  | VNone -> false
  | VBool b -> b
  | VInt z0 -> negb (Z.eqb z0 Z0)
  | VFloat r ->
    negb
      ((||) (eqb0 r ('0'::('.'::('0'::[]))))
        (eqb0 r ('-'::('0'::('.'::('0'::[]))))))
  | VStr s -> negb (eqb0 s [])
  | VList l -> negb (Nat.eqb (length l) O)
  | VMap kv -> negb (Nat.eqb (length kv) O)

(** val feat_is_grouped : feature option -> feature -> bool **)

let feat_is_grouped p f =
  match p with
  | Some q ->
    existsb (fun r -> (&&) (rel_is_group r) (in_children f r)) (rels q)
  | None -> false

(** val zmin_list : z list -> z -> z **)

let zmin_list l default =
  match l with
  | [] -> default
  | x :: xs -> fold_left Z.min xs x

(** val zmax_list : z list -> z -> z **)

let zmax_list l default =
  match l with
  | [] -> default
  | x :: xs -> fold_left Z.max xs x

(** val zsort : z list -> z list **)

let zsort l =
  sort_by (fun z0 -> z0) Z.ltb l

(** val median_hund : z list -> z **)

let median_hund l =
  let s = zsort l in
  let n0 = length s in
  if Nat.even n0
  then Z.mul (Zpos (XO (XI (XO (XO (XI XH))))))
         (Z.add (nth (sub (Nat.div n0 (S (S O))) (S O)) s Z0)
           (nth (Nat.div n0 (S (S O))) s Z0))
  else Z.mul (Zpos (XO (XO (XI (XO (XO (XI XH)))))))
         (nth (Nat.div n0 (S (S O))) s Z0)

(** val mean_hund : z list -> z **)

let mean_hund l =
  let s = zsum l in
  if Z.eqb s Z0 then Z0 else pyround_div s (zlen l) (Zpos (XO XH))

(** val fctx : fm -> (feature option * feature) list **)

let fctx =
  get_features_ctx

(** val feats : fm -> feature list **)

let feats =
  get_features

(** val fnames : fm -> char list list **)

let fnames m =
  map name (feats m)

(** val abstract_names : fm -> char list list **)

let abstract_names m =
  map name (filter is_abstract_truthy (feats m))

(** val concrete_names : fm -> char list list **)

let concrete_names m =
  map name (filter (fun f -> negb (is_abstract_truthy f)) (feats m))

(** val leaf_names_ : fm -> char list list **)

let leaf_names_ m =
  map name (filter feat_is_leaf (feats m))

(** val nchildren_of : feature -> z **)

let nchildren_of f =
  zsum (map nchildren (rels f))

(** val cpf : fm -> z list **)

let cpf m =
  let per_ctc = map (fun c -> ctc_features c.c_ast) m.ctcs in
  map (fun f -> zlen (filter (fun l -> list_existsb_eq (name f) l) per_ctc))
    (feats m)

(** val leaf_depths : fm -> z list **)

let leaf_depths m =
  map (fun fa -> zlen (snd fa))
    (filter (fun fa -> feat_is_leaf (fst fa)) (ancestors_table m))

(** val is_group_feature : feature -> bool **)

let is_group_feature f =
  (||) (feat_is_group f) (feat_is_cardinality_group f)

(** val group_names : fm -> char list list **)

let group_names m =
  map name (filter is_group_feature (feats m))

(** val solitary_names : fm -> char list list **)

let solitary_names m =
  map (fun x -> name (snd x))
    (filter (fun x ->
      (&&) (negb (feat_is_root (fst x)))
        (negb (feat_is_grouped (fst x) (snd x)))) (fctx m))

(** val grouped_names : fm -> char list list **)

let grouped_names m =
  map (fun x -> name (snd x))
    (filter (fun x ->
      (&&) (negb (feat_is_root (fst x))) (feat_is_grouped (fst x) (snd x)))
      (fctx m))

(** val ctc_strs : fm -> nat list -> char list list **)

let ctc_strs m idx =
  map (fun i ->
    match nth_error m.ctcs i with
    | Some c -> ctc_str c
    | None -> []) idx

(** val ctc_listing_entry :
    fm -> char list -> char list -> nat list result -> nat list result ->
    char list -> z -> entry result **)

let ctc_listing_entry m meth name_ l base parent level =
  match l with
  | Ok li ->
    (match base with
     | Ok bi ->
       Ok
         (listing meth name_ (ctc_strs m li) (map (fun _ -> []) bi) parent
           level)
     | Err e -> Err e)
  | Err e -> Err e

(** val all_ctc_idx : fm -> nat list result **)

let all_ctc_idx m =
  Ok (seq O (length m.ctcs))

(** val metric : fm -> char list -> entry result **)

let metric m meth =
  let ok = fun x -> Ok x in
  if eqb0 meth ('f'::('e'::('a'::('t'::('u'::('r'::('e'::('s'::[]))))))))
  then ok
         (mk meth ('F'::('e'::('a'::('t'::('u'::('r'::('e'::('s'::[]))))))))
           (MNames (fnames m)) (Some (zlen (fnames m))) None None Z0)
  else if eqb0 meth
            ('a'::('b'::('s'::('t'::('r'::('a'::('c'::('t'::('_'::('f'::('e'::('a'::('t'::('u'::('r'::('e'::('s'::[])))))))))))))))))
       then ok
              (listing meth
                ('A'::('b'::('s'::('t'::('r'::('a'::('c'::('t'::(' '::('f'::('e'::('a'::('t'::('u'::('r'::('e'::('s'::[])))))))))))))))))
                (abstract_names m) (fnames m)
                ('F'::('e'::('a'::('t'::('u'::('r'::('e'::('s'::[]))))))))
                (Zpos XH))
       else if eqb0 meth
                 ('c'::('o'::('n'::('c'::('r'::('e'::('t'::('e'::('_'::('f'::('e'::('a'::('t'::('u'::('r'::('e'::('s'::[])))))))))))))))))
            then ok
                   (listing meth
                     ('C'::('o'::('n'::('c'::('r'::('e'::('t'::('e'::(' '::('f'::('e'::('a'::('t'::('u'::('r'::('e'::('s'::[])))))))))))))))))
                     (concrete_names m) (fnames m)
                     ('F'::('e'::('a'::('t'::('u'::('r'::('e'::('s'::[]))))))))
                     (Zpos XH))
            else if eqb0 meth
                      ('l'::('e'::('a'::('f'::('_'::('f'::('e'::('a'::('t'::('u'::('r'::('e'::('s'::[])))))))))))))
                 then ok
                        (listing meth
                          ('L'::('e'::('a'::('f'::(' '::('f'::('e'::('a'::('t'::('u'::('r'::('e'::('s'::[])))))))))))))
                          (leaf_names_ m) (fnames m)
                          ('F'::('e'::('a'::('t'::('u'::('r'::('e'::('s'::[]))))))))
                          (Zpos XH))
                 else if eqb0 meth
                           ('c'::('o'::('m'::('p'::('o'::('u'::('n'::('d'::('_'::('f'::('e'::('a'::('t'::('u'::('r'::('e'::('s'::[])))))))))))))))))
                      then ok
                             (listing meth
                               ('C'::('o'::('m'::('p'::('o'::('u'::('n'::('d'::(' '::('f'::('e'::('a'::('t'::('u'::('r'::('e'::('s'::[])))))))))))))))))
                               (map name
                                 (filter (fun f -> negb (feat_is_leaf f))
                                   (feats m))) (fnames m)
                               ('F'::('e'::('a'::('t'::('u'::('r'::('e'::('s'::[]))))))))
                               (Zpos XH))
                      else if eqb0 meth
                                ('c'::('o'::('n'::('c'::('r'::('e'::('t'::('e'::('_'::('c'::('o'::('m'::('p'::('o'::('u'::('n'::('d'::('_'::('f'::('e'::('a'::('t'::('u'::('r'::('e'::('s'::[]))))))))))))))))))))))))))
                           then ok
                                  (listing meth
                                    ('C'::('o'::('n'::('c'::('r'::('e'::('t'::('e'::(' '::('c'::('o'::('m'::('p'::('o'::('u'::('n'::('d'::(' '::('f'::('e'::('a'::('t'::('u'::('r'::('e'::('s'::[]))))))))))))))))))))))))))
                                    (map name
                                      (filter (fun f ->
                                        (&&) (negb (is_abstract_truthy f))
                                          (negb (feat_is_leaf f))) (feats m)))
                                    (concrete_names m)
                                    ('C'::('o'::('n'::('c'::('r'::('e'::('t'::('e'::(' '::('f'::('e'::('a'::('t'::('u'::('r'::('e'::('s'::[])))))))))))))))))
                                    (Zpos (XO XH)))
                           else if eqb0 meth
                                     ('c'::('o'::('n'::('c'::('r'::('e'::('t'::('e'::('_'::('l'::('e'::('a'::('f'::('_'::('f'::('e'::('a'::('t'::('u'::('r'::('e'::('s'::[]))))))))))))))))))))))
                                then ok
                                       (listing meth
                                         ('C'::('o'::('n'::('c'::('r'::('e'::('t'::('e'::(' '::('l'::('e'::('a'::('f'::(' '::('f'::('e'::('a'::('t'::('u'::('r'::('e'::('s'::[]))))))))))))))))))))))
                                         (map name
                                           (filter (fun f ->
                                             (&&)
                                               (negb (is_abstract_truthy f))
                                               (feat_is_leaf f)) (feats m)))
                                         (concrete_names m)
                                         ('C'::('o'::('n'::('c'::('r'::('e'::('t'::('e'::(' '::('f'::('e'::('a'::('t'::('u'::('r'::('e'::('s'::[])))))))))))))))))
                                         (Zpos (XO XH)))
                                else if eqb0 meth
                                          ('a'::('b'::('s'::('t'::('r'::('a'::('c'::('t'::('_'::('c'::('o'::('m'::('p'::('o'::('u'::('n'::('d'::('_'::('f'::('e'::('a'::('t'::('u'::('r'::('e'::('s'::[]))))))))))))))))))))))))))
                                     then ok
                                            (listing meth
                                              ('A'::('b'::('s'::('t'::('r'::('a'::('c'::('t'::(' '::('c'::('o'::('m'::('p'::('o'::('u'::('n'::('d'::(' '::('f'::('e'::('a'::('t'::('u'::('r'::('e'::('s'::[]))))))))))))))))))))))))))
                                              (map name
                                                (filter (fun f ->
                                                  (&&) (is_abstract_truthy f)
                                                    (negb (feat_is_leaf f)))
                                                  (feats m)))
                                              (abstract_names m)
                                              ('A'::('b'::('s'::('t'::('r'::('a'::('c'::('t'::(' '::('f'::('e'::('a'::('t'::('u'::('r'::('e'::('s'::[])))))))))))))))))
                                              (Zpos (XO XH)))
                                     else if eqb0 meth
                                               ('a'::('b'::('s'::('t'::('r'::('a'::('c'::('t'::('_'::('l'::('e'::('a'::('f'::('_'::('f'::('e'::('a'::('t'::('u'::('r'::('e'::('s'::[]))))))))))))))))))))))
                                          then ok
                                                 (listing meth
                                                   ('A'::('b'::('s'::('t'::('r'::('a'::('c'::('t'::(' '::('l'::('e'::('a'::('f'::(' '::('f'::('e'::('a'::('t'::('u'::('r'::('e'::('s'::[]))))))))))))))))))))))
                                                   (map name
                                                     (filter (fun f ->
                                                       (&&)
                                                         (is_abstract_truthy
                                                           f) (feat_is_leaf f))
                                                       (feats m)))
                                                   (abstract_names m)
                                                   ('A'::('b'::('s'::('t'::('r'::('a'::('c'::('t'::(' '::('f'::('e'::('a'::('t'::('u'::('r'::('e'::('s'::[])))))))))))))))))
                                                   (Zpos (XO XH)))
                                          else if eqb0 meth
                                                    ('t'::('r'::('e'::('e'::('_'::('r'::('e'::('l'::('a'::('t'::('i'::('o'::('n'::('s'::('h'::('i'::('p'::('s'::[]))))))))))))))))))
                                               then let l =
                                                      map (fun pr ->
                                                        rel_str
                                                          (name (fst pr))
                                                          (snd pr))
                                                        (subrelations_ctx
                                                          m.root)
                                                    in
                                                    ok
                                                      (mk meth
                                                        ('T'::('r'::('e'::('e'::(' '::('r'::('e'::('l'::('a'::('t'::('i'::('o'::('n'::('s'::('h'::('i'::('p'::('s'::[]))))))))))))))))))
                                                        (MNames l) (Some
                                                        (zlen l)) None None
                                                        Z0)
                                               else if eqb0 meth
                                                         ('r'::('o'::('o'::('t'::('_'::('f'::('e'::('a'::('t'::('u'::('r'::('e'::[]))))))))))))
                                                    then ok
                                                           (mk meth
                                                             ('R'::('o'::('o'::('t'::(' '::('f'::('e'::('a'::('t'::('u'::('r'::('e'::[]))))))))))))
                                                             (MStr
                                                             (name m.root))
                                                             (Some (Zpos XH))
                                                             (Some
                                                             (get_ratio (Zpos
                                                               XH)
                                                               (zlen
                                                                 (fnames m))
                                                               (Zpos (XO (XO
                                                               XH))))) (Some
                                                             ('F'::('e'::('a'::('t'::('u'::('r'::('e'::('s'::[])))))))))
                                                             (Zpos XH))
                                                    else if eqb0 meth
                                                              ('t'::('o'::('p'::('_'::('f'::('e'::('a'::('t'::('u'::('r'::('e'::('s'::[]))))))))))))
                                                         then ok
                                                                (listing meth
                                                                  ('T'::('o'::('p'::(' '::('f'::('e'::('a'::('t'::('u'::('r'::('e'::('s'::[]))))))))))))
                                                                  (map name
                                                                    (children
                                                                    m.root))
                                                                  (fnames m)
                                                                  ('R'::('o'::('o'::('t'::(' '::('f'::('e'::('a'::('t'::('u'::('r'::('e'::[]))))))))))))
                                                                  (Zpos (XO
                                                                  XH)))
                                                         else if eqb0 meth
                                                                   ('s'::('o'::('l'::('i'::('t'::('a'::('r'::('y'::('_'::('f'::('e'::('a'::('t'::('u'::('r'::('e'::('s'::[])))))))))))))))))
                                                              then ok
                                                                    (listing
                                                                    meth
                                                                    ('S'::('o'::('l'::('i'::('t'::('a'::('r'::('y'::(' '::('f'::('e'::('a'::('t'::('u'::('r'::('e'::('s'::[])))))))))))))))))
                                                                    (solitary_names
                                                                    m)
                                                                    (fnames m)
                                                                    ('F'::('e'::('a'::('t'::('u'::('r'::('e'::('s'::[]))))))))
                                                                    (Zpos XH))
                                                              else if 
                                                                    eqb0 meth
                                                                    ('g'::('r'::('o'::('u'::('p'::('e'::('d'::('_'::('f'::('e'::('a'::('t'::('u'::('r'::('e'::('s'::[]))))))))))))))))
                                                                   then 
                                                                    ok
                                                                    (listing
                                                                    meth
                                                                    ('G'::('r'::('o'::('u'::('p'::('e'::('d'::(' '::('f'::('e'::('a'::('t'::('u'::('r'::('e'::('s'::[]))))))))))))))))
                                                                    (grouped_names
                                                                    m)
                                                                    (fnames m)
                                                                    ('F'::('e'::('a'::('t'::('u'::('r'::('e'::('s'::[]))))))))
                                                                    (Zpos XH))
                                                                   else 
                                                                    if 
                                                                    eqb0 meth
                                                                    ('m'::('a'::('n'::('d'::('a'::('t'::('o'::('r'::('y'::('_'::('f'::('e'::('a'::('t'::('u'::('r'::('e'::('s'::[]))))))))))))))))))
                                                                    then 
                                                                    ok
                                                                    (listing
                                                                    meth
                                                                    ('M'::('a'::('n'::('d'::('a'::('t'::('o'::('r'::('y'::(' '::('f'::('e'::('a'::('t'::('u'::('r'::('e'::('s'::[]))))))))))))))))))
                                                                    (map name
                                                                    (get_mandatory_features
                                                                    m))
                                                                    (solitary_names
                                                                    m)
                                                                    ('T'::('r'::('e'::('e'::(' '::('r'::('e'::('l'::('a'::('t'::('i'::('o'::('n'::('s'::('h'::('i'::('p'::('s'::[]))))))))))))))))))
                                                                    (Zpos XH))
                                                                    else 
                                                                    if 
                                                                    eqb0 meth
                                                                    ('o'::('p'::('t'::('i'::('o'::('n'::('a'::('l'::('_'::('f'::('e'::('a'::('t'::('u'::('r'::('e'::('s'::[])))))))))))))))))
                                                                    then 
                                                                    ok
                                                                    (listing
                                                                    meth
                                                                    ('O'::('p'::('t'::('i'::('o'::('n'::('a'::('l'::(' '::('f'::('e'::('a'::('t'::('u'::('r'::('e'::('s'::[])))))))))))))))))
                                                                    (map name
                                                                    (get_optional_features
                                                                    m))
                                                                    (solitary_names
                                                                    m)
                                                                    ('T'::('r'::('e'::('e'::(' '::('r'::('e'::('l'::('a'::('t'::('i'::('o'::('n'::('s'::('h'::('i'::('p'::('s'::[]))))))))))))))))))
                                                                    (Zpos XH))
                                                                    else 
                                                                    if 
                                                                    eqb0 meth
                                                                    ('f'::('e'::('a'::('t'::('u'::('r'::('e'::('_'::('g'::('r'::('o'::('u'::('p'::('s'::[]))))))))))))))
                                                                    then 
                                                                    ok
                                                                    (listing
                                                                    meth
                                                                    ('F'::('e'::('a'::('t'::('u'::('r'::('e'::(' '::('g'::('r'::('o'::('u'::('p'::('s'::[]))))))))))))))
                                                                    (group_names
                                                                    m)
                                                                    (map
                                                                    (fun _ ->
                                                                    [])
                                                                    (get_relations
                                                                    m))
                                                                    ('T'::('r'::('e'::('e'::(' '::('r'::('e'::('l'::('a'::('t'::('i'::('o'::('n'::('s'::('h'::('i'::('p'::('s'::[]))))))))))))))))))
                                                                    (Zpos XH))
                                                                    else 
                                                                    if 
                                                                    eqb0 meth
                                                                    ('a'::('l'::('t'::('e'::('r'::('n'::('a'::('t'::('i'::('v'::('e'::('_'::('g'::('r'::('o'::('u'::('p'::('s'::[]))))))))))))))))))
                                                                    then 
                                                                    ok
                                                                    (listing
                                                                    meth
                                                                    ('A'::('l'::('t'::('e'::('r'::('n'::('a'::('t'::('i'::('v'::('e'::(' '::('g'::('r'::('o'::('u'::('p'::('s'::[]))))))))))))))))))
                                                                    (map name
                                                                    (get_alternative_group_features
                                                                    m))
                                                                    (group_names
                                                                    m)
                                                                    ('F'::('e'::('a'::('t'::('u'::('r'::('e'::(' '::('g'::('r'::('o'::('u'::('p'::('s'::[]))))))))))))))
                                                                    (Zpos (XO
                                                                    XH)))
                                                                    else 
                                                                    if 
                                                                    eqb0 meth
                                                                    ('o'::('r'::('_'::('g'::('r'::('o'::('u'::('p'::('s'::[])))))))))
                                                                    then 
                                                                    ok
                                                                    (listing
                                                                    meth
                                                                    ('O'::('r'::(' '::('g'::('r'::('o'::('u'::('p'::('s'::[])))))))))
                                                                    (map name
                                                                    (get_or_group_features
                                                                    m))
                                                                    (group_names
                                                                    m)
                                                                    ('F'::('e'::('a'::('t'::('u'::('r'::('e'::(' '::('g'::('r'::('o'::('u'::('p'::('s'::[]))))))))))))))
                                                                    (Zpos (XO
                                                                    XH)))
                                                                    else 
                                                                    if 
                                                                    eqb0 meth
                                                                    ('m'::('u'::('t'::('e'::('x'::('_'::('g'::('r'::('o'::('u'::('p'::('s'::[]))))))))))))
                                                                    then 
                                                                    ok
                                                                    (listing
                                                                    meth
                                                                    ('M'::('u'::('t'::('e'::('x'::(' '::('g'::('r'::('o'::('u'::('p'::('s'::[]))))))))))))
                                                                    (map name
                                                                    (filter
                                                                    feat_is_mutex_group
                                                                    (feats m)))
                                                                    (group_names
                                                                    m)
                                                                    ('F'::('e'::('a'::('t'::('u'::('r'::('e'::(' '::('g'::('r'::('o'::('u'::('p'::('s'::[]))))))))))))))
                                                                    (Zpos (XO
                                                                    XH)))
                                                                    else 
                                                                    if 
                                                                    eqb0 meth
                                                                    ('c'::('a'::('r'::('d'::('i'::('n'::('a'::('l'::('i'::('t'::('y'::('_'::('g'::('r'::('o'::('u'::('p'::('s'::[]))))))))))))))))))
                                                                    then 
                                                                    ok
                                                                    (listing
                                                                    meth
                                                                    ('C'::('a'::('r'::('d'::('i'::('n'::('a'::('l'::('i'::('t'::('y'::(' '::('g'::('r'::('o'::('u'::('p'::('s'::[]))))))))))))))))))
                                                                    (map name
                                                                    (filter
                                                                    feat_is_cardinality_group
                                                                    (feats m)))
                                                                    (group_names
                                                                    m)
                                                                    ('F'::('e'::('a'::('t'::('u'::('r'::('e'::(' '::('g'::('r'::('o'::('u'::('p'::('s'::[]))))))))))))))
                                                                    (Zpos (XO
                                                                    XH)))
                                                                    else 
                                                                    if 
                                                                    eqb0 meth
                                                                    ('b'::('r'::('a'::('n'::('c'::('h'::('i'::('n'::('g'::('_'::('f'::('a'::('c'::('t'::('o'::('r'::[]))))))))))))))))
                                                                    then 
                                                                    ok
                                                                    (mk meth
                                                                    ('B'::('r'::('a'::('n'::('c'::('h'::('i'::('n'::('g'::(' '::('f'::('a'::('c'::('t'::('o'::('r'::[]))))))))))))))))
                                                                    (MHund
                                                                    (average_branching_factor
                                                                    m)) None
                                                                    None None
                                                                    Z0)
                                                                    else 
                                                                    if 
                                                                    eqb0 meth
                                                                    ('m'::('i'::('n'::('_'::('c'::('h'::('i'::('l'::('d'::('r'::('e'::('n'::('_'::('p'::('e'::('r'::('_'::('f'::('e'::('a'::('t'::('u'::('r'::('e'::[]))))))))))))))))))))))))
                                                                    then 
                                                                    ok
                                                                    (mk meth
                                                                    ('M'::('i'::('n'::(' '::('c'::('h'::('i'::('l'::('d'::('r'::('e'::('n'::(' '::('p'::('e'::('r'::(' '::('f'::('e'::('a'::('t'::('u'::('r'::('e'::[]))))))))))))))))))))))))
                                                                    (MInt
                                                                    (zmin_list
                                                                    (map
                                                                    nchildren_of
                                                                    (filter
                                                                    (fun f ->
                                                                    negb
                                                                    (feat_is_leaf
                                                                    f))
                                                                    (feats m)))
                                                                    Z0)) None
                                                                    None
                                                                    (Some
                                                                    ('B'::('r'::('a'::('n'::('c'::('h'::('i'::('n'::('g'::(' '::('f'::('a'::('c'::('t'::('o'::('r'::[])))))))))))))))))
                                                                    (Zpos XH))
                                                                    else 
                                                                    if 
                                                                    eqb0 meth
                                                                    ('m'::('a'::('x'::('_'::('c'::('h'::('i'::('l'::('d'::('r'::('e'::('n'::('_'::('p'::('e'::('r'::('_'::('f'::('e'::('a'::('t'::('u'::('r'::('e'::[]))))))))))))))))))))))))
                                                                    then 
                                                                    ok
                                                                    (mk meth
                                                                    ('M'::('a'::('x'::(' '::('c'::('h'::('i'::('l'::('d'::('r'::('e'::('n'::(' '::('p'::('e'::('r'::(' '::('f'::('e'::('a'::('t'::('u'::('r'::('e'::[]))))))))))))))))))))))))
                                                                    (MInt
                                                                    (zmax_list
                                                                    (map
                                                                    nchildren_of
                                                                    (feats m))
                                                                    Z0)) None
                                                                    None
                                                                    (Some
                                                                    ('B'::('r'::('a'::('n'::('c'::('h'::('i'::('n'::('g'::(' '::('f'::('a'::('c'::('t'::('o'::('r'::[])))))))))))))))))
                                                                    (Zpos XH))
                                                                    else 
                                                                    if 
                                                                    eqb0 meth
                                                                    ('a'::('v'::('g'::('_'::('c'::('h'::('i'::('l'::('d'::('r'::('e'::('n'::('_'::('p'::('e'::('r'::('_'::('f'::('e'::('a'::('t'::('u'::('r'::('e'::[]))))))))))))))))))))))))
                                                                    then 
                                                                    let s =
                                                                    zsum
                                                                    (map
                                                                    nchildren_of
                                                                    (feats m))
                                                                    in
                                                                    ok
                                                                    (mk meth
                                                                    ('A'::('v'::('g'::(' '::('c'::('h'::('i'::('l'::('d'::('r'::('e'::('n'::(' '::('p'::('e'::('r'::(' '::('f'::('e'::('a'::('t'::('u'::('r'::('e'::[]))))))))))))))))))))))))
                                                                    (MHund
                                                                    (if 
                                                                    Z.eqb s Z0
                                                                    then Z0
                                                                    else 
                                                                    pyround_div
                                                                    s
                                                                    (zlen
                                                                    (feats m))
                                                                    (Zpos (XO
                                                                    XH))))
                                                                    None None
                                                                    (Some
                                                                    ('B'::('r'::('a'::('n'::('c'::('h'::('i'::('n'::('g'::(' '::('f'::('a'::('c'::('t'::('o'::('r'::[])))))))))))))))))
                                                                    (Zpos XH))
                                                                    else 
                                                                    if 
                                                                    eqb0 meth
                                                                    ('d'::('e'::('p'::('t'::('h'::('_'::('t'::('r'::('e'::('e'::[]))))))))))
                                                                    then 
                                                                    ok
                                                                    (mk meth
                                                                    ('D'::('e'::('p'::('t'::('h'::(' '::('o'::('f'::(' '::('t'::('r'::('e'::('e'::[])))))))))))))
                                                                    (MInt
                                                                    (zmax_list
                                                                    (leaf_depths
                                                                    m) Z0))
                                                                    None None
                                                                    None Z0)
                                                                    else 
                                                                    if 
                                                                    eqb0 meth
                                                                    ('m'::('a'::('x'::('_'::('d'::('e'::('p'::('t'::('h'::('_'::('t'::('r'::('e'::('e'::[]))))))))))))))
                                                                    then 
                                                                    ok
                                                                    (mk meth
                                                                    ('M'::('a'::('x'::(' '::('d'::('e'::('p'::('t'::('h'::(' '::('o'::('f'::(' '::('t'::('r'::('e'::('e'::[])))))))))))))))))
                                                                    (MInt
                                                                    (zmax_list
                                                                    (leaf_depths
                                                                    m) Z0))
                                                                    None None
                                                                    (Some
                                                                    ('D'::('e'::('p'::('t'::('h'::(' '::('o'::('f'::(' '::('t'::('r'::('e'::('e'::[]))))))))))))))
                                                                    (Zpos XH))
                                                                    else 
                                                                    if 
                                                                    eqb0 meth
                                                                    ('m'::('e'::('a'::('n'::('_'::('d'::('e'::('p'::('t'::('h'::('_'::('t'::('r'::('e'::('e'::[])))))))))))))))
                                                                    then 
                                                                    ok
                                                                    (mk meth
                                                                    ('M'::('e'::('a'::('n'::(' '::('d'::('e'::('p'::('t'::('h'::(' '::('o'::('f'::(' '::('t'::('r'::('e'::('e'::[]))))))))))))))))))
                                                                    (MHund
                                                                    (mean_hund
                                                                    (leaf_depths
                                                                    m))) None
                                                                    None
                                                                    (Some
                                                                    ('D'::('e'::('p'::('t'::('h'::(' '::('o'::('f'::(' '::('t'::('r'::('e'::('e'::[]))))))))))))))
                                                                    (Zpos XH))
                                                                    else 
                                                                    if 
                                                                    eqb0 meth
                                                                    ('m'::('e'::('d'::('i'::('a'::('n'::('_'::('d'::('e'::('p'::('t'::('h'::('_'::('t'::('r'::('e'::('e'::[])))))))))))))))))
                                                                    then 
                                                                    ok
                                                                    (mk meth
                                                                    ('M'::('e'::('d'::('i'::('a'::('n'::(' '::('d'::('e'::('p'::('t'::('h'::(' '::('o'::('f'::(' '::('t'::('r'::('e'::('e'::[]))))))))))))))))))))
                                                                    (MHund
                                                                    (median_hund
                                                                    (leaf_depths
                                                                    m))) None
                                                                    None
                                                                    (Some
                                                                    ('D'::('e'::('p'::('t'::('h'::(' '::('o'::('f'::(' '::('t'::('r'::('e'::('e'::[]))))))))))))))
                                                                    (Zpos XH))
                                                                    else 
                                                                    if 
                                                                    eqb0 meth
                                                                    ('c'::('r'::('o'::('s'::('s'::('_'::('t'::('r'::('e'::('e'::('_'::('c'::('o'::('n'::('s'::('t'::('r'::('a'::('i'::('n'::('t'::('s'::[]))))))))))))))))))))))
                                                                    then 
                                                                    let l =
                                                                    map
                                                                    ctc_str
                                                                    m.ctcs
                                                                    in
                                                                    ok
                                                                    (mk meth
                                                                    ('C'::('r'::('o'::('s'::('s'::('-'::('t'::('r'::('e'::('e'::(' '::('c'::('o'::('n'::('s'::('t'::('r'::('a'::('i'::('n'::('t'::('s'::[]))))))))))))))))))))))
                                                                    (MNames
                                                                    l) (Some
                                                                    (zlen l))
                                                                    None None
                                                                    Z0)
                                                                    else 
                                                                    if 
                                                                    eqb0 meth
                                                                    ('s'::('i'::('m'::('p'::('l'::('e'::('_'::('c'::('o'::('n'::('s'::('t'::('r'::('a'::('i'::('n'::('t'::('s'::[]))))))))))))))))))
                                                                    then 
                                                                    ctc_listing_entry
                                                                    m meth
                                                                    ('S'::('i'::('m'::('p'::('l'::('e'::(' '::('c'::('o'::('n'::('s'::('t'::('r'::('a'::('i'::('n'::('t'::('s'::[]))))))))))))))))))
                                                                    (get_simple_constraints
                                                                    m)
                                                                    (all_ctc_idx
                                                                    m)
                                                                    ('C'::('r'::('o'::('s'::('s'::('-'::('t'::('r'::('e'::('e'::(' '::('c'::('o'::('n'::('s'::('t'::('r'::('a'::('i'::('n'::('t'::('s'::[]))))))))))))))))))))))
                                                                    (Zpos XH)
                                                                    else 
                                                                    if 
                                                                    eqb0 meth
                                                                    ('r'::('e'::('q'::('u'::('i'::('r'::('e'::('s'::('_'::('c'::('o'::('n'::('s'::('t'::('r'::('a'::('i'::('n'::('t'::('s'::[]))))))))))))))))))))
                                                                    then 
                                                                    ctc_listing_entry
                                                                    m meth
                                                                    ('R'::('e'::('q'::('u'::('i'::('r'::('e'::('s'::(' '::('c'::('o'::('n'::('s'::('t'::('r'::('a'::('i'::('n'::('t'::('s'::[]))))))))))))))))))))
                                                                    (get_requires_constraints
                                                                    m)
                                                                    (get_simple_constraints
                                                                    m)
                                                                    ('S'::('i'::('m'::('p'::('l'::('e'::(' '::('c'::('o'::('n'::('s'::('t'::('r'::('a'::('i'::('n'::('t'::('s'::[]))))))))))))))))))
                                                                    (Zpos (XO
                                                                    XH))
                                                                    else 
                                                                    if 
                                                                    eqb0 meth
                                                                    ('e'::('x'::('c'::('l'::('u'::('d'::('e'::('s'::('_'::('c'::('o'::('n'::('s'::('t'::('r'::('a'::('i'::('n'::('t'::('s'::[]))))))))))))))))))))
                                                                    then 
                                                                    ctc_listing_entry
                                                                    m meth
                                                                    ('E'::('x'::('c'::('l'::('u'::('d'::('e'::('s'::(' '::('c'::('o'::('n'::('s'::('t'::('r'::('a'::('i'::('n'::('t'::('s'::[]))))))))))))))))))))
                                                                    (get_excludes_constraints
                                                                    m)
                                                                    (get_simple_constraints
                                                                    m)
                                                                    ('S'::('i'::('m'::('p'::('l'::('e'::(' '::('c'::('o'::('n'::('s'::('t'::('r'::('a'::('i'::('n'::('t'::('s'::[]))))))))))))))))))
                                                                    (Zpos (XO
                                                                    XH))
                                                                    else 
                                                                    if 
                                                                    eqb0 meth
                                                                    ('c'::('o'::('m'::('p'::('l'::('e'::('x'::('_'::('c'::('o'::('n'::('s'::('t'::('r'::('a'::('i'::('n'::('t'::('s'::[])))))))))))))))))))
                                                                    then 
                                                                    ctc_listing_entry
                                                                    m meth
                                                                    ('C'::('o'::('m'::('p'::('l'::('e'::('x'::(' '::('c'::('o'::('n'::('s'::('t'::('r'::('a'::('i'::('n'::('t'::('s'::[])))))))))))))))))))
                                                                    (get_complex_constraints
                                                                    m)
                                                                    (all_ctc_idx
                                                                    m)
                                                                    ('C'::('r'::('o'::('s'::('s'::('-'::('t'::('r'::('e'::('e'::(' '::('c'::('o'::('n'::('s'::('t'::('r'::('a'::('i'::('n'::('t'::('s'::[]))))))))))))))))))))))
                                                                    (Zpos XH)
                                                                    else 
                                                                    if 
                                                                    eqb0 meth
                                                                    ('p'::('s'::('e'::('u'::('d'::('o'::('_'::('c'::('o'::('m'::('p'::('l'::('e'::('x'::('_'::('c'::('o'::('n'::('s'::('t'::('r'::('a'::('i'::('n'::('t'::('s'::[]))))))))))))))))))))))))))
                                                                    then 
                                                                    ctc_listing_entry
                                                                    m meth
                                                                    ('P'::('s'::('e'::('u'::('d'::('o'::('-'::('c'::('o'::('m'::('p'::('l'::('e'::('x'::(' '::('c'::('o'::('n'::('s'::('t'::('r'::('a'::('i'::('n'::('t'::('s'::[]))))))))))))))))))))))))))
                                                                    (get_pseudocomplex_constraints
                                                                    m)
                                                                    (get_complex_constraints
                                                                    m)
                                                                    ('C'::('o'::('m'::('p'::('l'::('e'::('x'::(' '::('c'::('o'::('n'::('s'::('t'::('r'::('a'::('i'::('n'::('t'::('s'::[])))))))))))))))))))
                                                                    (Zpos (XO
                                                                    XH))
                                                                    else 
                                                                    if 
                                                                    eqb0 meth
                                                                    ('s'::('t'::('r'::('i'::('c'::('t'::('_'::('c'::('o'::('m'::('p'::('l'::('e'::('x'::('_'::('c'::('o'::('n'::('s'::('t'::('r'::('a'::('i'::('n'::('t'::('s'::[]))))))))))))))))))))))))))
                                                                    then 
                                                                    ctc_listing_entry
                                                                    m meth
                                                                    ('S'::('t'::('r'::('i'::('c'::('t'::('-'::('c'::('o'::('m'::('p'::('l'::('e'::('x'::(' '::('c'::('o'::('n'::('s'::('t'::('r'::('a'::('i'::('n'::('t'::('s'::[]))))))))))))))))))))))))))
                                                                    (get_strictcomplex_constraints
                                                                    m)
                                                                    (get_complex_constraints
                                                                    m)
                                                                    ('C'::('o'::('m'::('p'::('l'::('e'::('x'::(' '::('c'::('o'::('n'::('s'::('t'::('r'::('a'::('i'::('n'::('t'::('s'::[])))))))))))))))))))
                                                                    (Zpos (XO
                                                                    XH))
                                                                    else 
                                                                    if 
                                                                    eqb0 meth
                                                                    ('m'::('i'::('n'::('_'::('c'::('o'::('n'::('s'::('t'::('r'::('a'::('i'::('n'::('t'::('s'::('_'::('p'::('e'::('r'::('_'::('f'::('e'::('a'::('t'::('u'::('r'::('e'::[])))))))))))))))))))))))))))
                                                                    then 
                                                                    ok
                                                                    (mk meth
                                                                    ('M'::('i'::('n'::(' '::('c'::('o'::('n'::('s'::('t'::('r'::('a'::('i'::('n'::('t'::('s'::(' '::('p'::('e'::('r'::(' '::('f'::('e'::('a'::('t'::('u'::('r'::('e'::[])))))))))))))))))))))))))))
                                                                    (MInt
                                                                    (zmin_list
                                                                    (cpf m)
                                                                    Z0)) None
                                                                    None
                                                                    (Some
                                                                    ('C'::('r'::('o'::('s'::('s'::('-'::('t'::('r'::('e'::('e'::(' '::('c'::('o'::('n'::('s'::('t'::('r'::('a'::('i'::('n'::('t'::('s'::[])))))))))))))))))))))))
                                                                    (Zpos XH))
                                                                    else 
                                                                    if 
                                                                    eqb0 meth
                                                                    ('m'::('a'::('x'::('_'::('c'::('o'::('n'::('s'::('t'::('r'::('a'::('i'::('n'::('t'::('s'::('_'::('p'::('e'::('r'::('_'::('f'::('e'::('a'::('t'::('u'::('r'::('e'::[])))))))))))))))))))))))))))
                                                                    then 
                                                                    ok
                                                                    (mk meth
                                                                    ('M'::('a'::('x'::(' '::('c'::('o'::('n'::('s'::('t'::('r'::('a'::('i'::('n'::('t'::('s'::(' '::('p'::('e'::('r'::(' '::('f'::('e'::('a'::('t'::('u'::('r'::('e'::[])))))))))))))))))))))))))))
                                                                    (MInt
                                                                    (zmax_list
                                                                    (cpf m)
                                                                    Z0)) None
                                                                    None
                                                                    (Some
                                                                    ('C'::('r'::('o'::('s'::('s'::('-'::('t'::('r'::('e'::('e'::(' '::('c'::('o'::('n'::('s'::('t'::('r'::('a'::('i'::('n'::('t'::('s'::[])))))))))))))))))))))))
                                                                    (Zpos XH))
                                                                    else 
                                                                    if 
                                                                    eqb0 meth
                                                                    ('a'::('v'::('g'::('_'::('c'::('o'::('n'::('s'::('t'::('r'::('a'::('i'::('n'::('t'::('s'::('_'::('p'::('e'::('r'::('_'::('f'::('e'::('a'::('t'::('u'::('r'::('e'::[])))))))))))))))))))))))))))
                                                                    then 
                                                                    ok
                                                                    (mk meth
                                                                    ('A'::('v'::('g'::(' '::('c'::('o'::('n'::('s'::('t'::('r'::('a'::('i'::('n'::('t'::('s'::(' '::('p'::('e'::('r'::(' '::('f'::('e'::('a'::('t'::('u'::('r'::('e'::[])))))))))))))))))))))))))))
                                                                    (MHund
                                                                    (mean_hund
                                                                    (cpf m)))
                                                                    None None
                                                                    (Some
                                                                    ('C'::('r'::('o'::('s'::('s'::('-'::('t'::('r'::('e'::('e'::(' '::('c'::('o'::('n'::('s'::('t'::('r'::('a'::('i'::('n'::('t'::('s'::[])))))))))))))))))))))))
                                                                    (Zpos XH))
                                                                    else 
                                                                    if 
                                                                    eqb0 meth
                                                                    ('e'::('x'::('t'::('r'::('a'::('_'::('c'::('o'::('n'::('s'::('t'::('r'::('a'::('i'::('n'::('t'::('_'::('r'::('e'::('p'::('r'::('e'::('s'::('e'::('n'::('t'::('a'::('t'::('i'::('v'::('e'::('n'::('e'::('s'::('s'::[])))))))))))))))))))))))))))))))))))
                                                                    then 
                                                                    let l =
                                                                    filter
                                                                    (fun s ->
                                                                    list_existsb_eq
                                                                    s
                                                                    (fnames m))
                                                                    (fold_left
                                                                    (fun acc c ->
                                                                    fold_left
                                                                    (fun a s ->
                                                                    add_once
                                                                    s a)
                                                                    (ctc_features
                                                                    c.c_ast)
                                                                    acc)
                                                                    m.ctcs [])
                                                                    in
                                                                    ok
                                                                    (mk meth
                                                                    ('F'::('e'::('a'::('t'::('u'::('r'::('e'::('s'::(' '::('i'::('n'::(' '::('c'::('o'::('n'::('s'::('t'::('r'::('a'::('i'::('n'::('t'::('s'::[])))))))))))))))))))))))
                                                                    (MNames
                                                                    l) (Some
                                                                    (zlen l))
                                                                    (Some
                                                                    (get_ratio
                                                                    (zlen l)
                                                                    (zlen
                                                                    (fnames m))
                                                                    (Zpos (XO
                                                                    XH))))
                                                                    (Some
                                                                    ('C'::('r'::('o'::('s'::('s'::('-'::('t'::('r'::('e'::('e'::(' '::('c'::('o'::('n'::('s'::('t'::('r'::('a'::('i'::('n'::('t'::('s'::[])))))))))))))))))))))))
                                                                    (Zpos XH))
                                                                    else 
                                                                    Err
                                                                    OtherExn

(** val report : fm -> char list list option -> entry list result **)

let report m flt =
  let methods =
    match flt with
    | Some l -> filter (fun n0 -> list_existsb_eq n0 l) metric_methods
    | None -> metric_methods
  in
  mapM (metric m) methods

type draw =
| DChoice of nat
| DUniform of z * z
| DRandint of z

type dec = { d_m : z; d_e : z }

(** val digits_to_z : char list -> z -> z option **)

let rec digits_to_z s acc =
  match s with
  | [] -> Some acc
  | c::rest ->
    if is_digit c
    then digits_to_z rest
           (Z.sub
             (Z.add (Z.mul acc (Zpos (XO (XI (XO XH))))) (Z.of_N (ascii_n c)))
             (Zpos (XO (XO (XO (XO (XI XH)))))))
    else None

(** val split_at :
    char -> char list -> char list -> char list * char list option **)

let rec split_at c s acc =
  match s with
  | [] -> ((str_rev acc), None)
  | d::rest ->
    if (=) c d then ((str_rev acc), (Some rest)) else split_at c rest (d::acc)

(** val str_len : char list -> z **)

let str_len s =
  Z.of_nat (length0 s)

(** val signed : char list -> bool * char list **)

let signed s = match s with
| [] -> (false, s)
| a::rest ->
  (* If this appears, you're using Ascii internals. Please don't *)
 (fun f c ->
  let n = Char.code c in
  let h i = (n land (1 lsl i)) <> 0 in
  f (h 0) (h 1) (h 2) (h 3) (h 4) (h 5) (h 6) (h 7))
    (fun b b0 b1 b2 b3 b4 b5 b6 ->
    if b
    then if b0
         then if b1
              then (false, s)
              else if b2
                   then if b3
                        then (false, s)
                        else if b4
                             then if b5
                                  then (false, s)
                                  else if b6
                                       then (false, s)
                                       else (false, rest)
                             else (false, s)
                   else (false, s)
         else if b1
              then if b2
                   then if b3
                        then (false, s)
                        else if b4
                             then if b5
                                  then (false, s)
                                  else if b6 then (false, s) else (true, rest)
                             else (false, s)
                   else (false, s)
              else (false, s)
    else (false, s))
    a

(** val dec_of_repr : char list -> dec option **)

let dec_of_repr r =
  let (mant, expo) = split_at 'e' r [] in
  let (neg, mant') = signed mant in
  let (ip, fp) = split_at '.' mant' [] in
  let fp' = match fp with
            | Some f -> f
            | None -> [] in
  (match digits_to_z (append ip fp') Z0 with
   | Some m ->
     let e10 =
       match expo with
       | Some ex ->
         let (eneg, ex') = signed ex in
         (match digits_to_z ex' Z0 with
          | Some z0 -> Some (if eneg then Z.opp z0 else z0)
          | None -> None)
       | None -> Some Z0
     in
     (match e10 with
      | Some e ->
        Some { d_m = (if neg then Z.opp m else m); d_e =
          (Z.sub e (str_len fp')) }
      | None -> None)
   | None -> None)

(** val dec_of_bound : aval -> dec option **)

let dec_of_bound = function
| VInt z0 -> Some { d_m = z0; d_e = Z0 }
| VFloat r -> dec_of_repr r
| _ -> None

(** val dec_leb : dec -> dec -> bool **)

let dec_leb a b =
  let e = Z.min a.d_e b.d_e in
  Z.leb (Z.mul a.d_m (Z.pow (Zpos (XO (XI (XO XH)))) (Z.sub a.d_e e)))
    (Z.mul b.d_m (Z.pow (Zpos (XO (XI (XO XH)))) (Z.sub b.d_e e)))

(** val dot_digits : aval -> z **)

let dot_digits = function
| VFloat r ->
  let rec go s n0 =
    match s with
    | [] -> Zneg XH
    | c::rest -> if (=) c '.' then n0 else go rest (Z.add n0 (Zpos XH))
  in go (str_rev r) Z0
| _ -> Zneg XH

(** val round_dec : z -> z -> z -> dec **)

let round_dec num den digits =
  let neg = Z.ltb num Z0 in
  let n0 = Z.abs num in
  let q =
    if Z.leb Z0 digits
    then div_rne (Z.mul n0 (Z.pow (Zpos (XO (XI (XO XH)))) digits)) den
    else div_rne n0
           (Z.mul den (Z.pow (Zpos (XO (XI (XO XH)))) (Z.opp digits)))
  in
  { d_m = (if neg then Z.opp q else q); d_e = (Z.opp digits) }

(** val is_float : aval -> bool **)

let is_float = function
| VFloat _ -> true
| _ -> false

(** val is_int : aval -> bool **)

let is_int = function
| VInt _ -> true
| _ -> false

type gval =
| GElem of aval
| GInt of z
| GDec of dec
| GBound of aval
| GNone

(** val value_from_ranges :
    range list -> draw list -> (gval * draw list) result **)

let value_from_ranges ranges = function
| [] -> Err OtherExn
| d :: rest ->
  (match d with
   | DChoice i ->
     (match nth_error ranges i with
      | Some rg ->
        let lo = rg.rg_min in
        let hi = rg.rg_max in
        if (||) (is_float lo) (is_float hi)
        then (match rest with
              | [] -> Err OtherExn
              | d0 :: rest' ->
                (match d0 with
                 | DUniform (num, den) ->
                   let digits = Z.max (dot_digits lo) (dot_digits hi) in
                   let v = round_dec num den digits in
                   (match dec_of_bound lo with
                    | Some dlo ->
                      (match dec_of_bound hi with
                       | Some dhi ->
                         let v1 = if dec_leb dlo v then GDec v else GBound lo
                         in
                         let v1d = if dec_leb dlo v then v else dlo in
                         Ok ((if dec_leb v1d dhi then v1 else GBound hi),
                         rest')
                       | None -> Err TypeError)
                    | None -> Err TypeError)
                 | _ -> Err OtherExn))
        else if (&&) (is_int lo) (is_int hi)
             then (match rest with
                   | [] -> Err OtherExn
                   | d0 :: rest' ->
                     (match d0 with
                      | DRandint z0 -> Ok ((GInt z0), rest')
                      | _ -> Err OtherExn))
             else Err FlamaException
      | None -> Err IndexError)
   | _ -> Err OtherExn)

(** val value_from_domain :
    domain -> draw list -> (gval * draw list) result **)

let value_from_domain d draws =
  match d.dom_elems with
  | [] ->
    (match d.dom_ranges with
     | [] -> Ok (GNone, draws)
     | _ :: _ -> value_from_ranges d.dom_ranges draws)
  | _ :: _ ->
    (match d.dom_ranges with
     | [] ->
       (match draws with
        | [] -> Err OtherExn
        | d0 :: rest ->
          (match d0 with
           | DChoice i ->
             (match nth_error d.dom_elems i with
              | Some el -> Ok ((GElem el), rest)
              | None -> Err IndexError)
           | _ -> Err OtherExn))
     | _ :: _ ->
       (match draws with
        | [] -> Err OtherExn
        | d0 :: rest ->
          (match d0 with
           | DChoice i ->
             (match nth_error d.dom_elems i with
              | Some el ->
                (match value_from_ranges d.dom_ranges rest with
                 | Ok a ->
                   let (rv, rest') = a in
                   (match rest' with
                    | [] -> Err OtherExn
                    | d1 :: rest'' ->
                      (match d1 with
                       | DChoice j ->
                         if Nat.eqb j O
                         then Ok ((GElem el), rest'')
                         else if Nat.eqb j (S O)
                              then Ok (rv, rest'')
                              else Err IndexError
                       | _ -> Err OtherExn))
                 | Err e -> Err e)
              | None -> Err IndexError)
           | _ -> Err OtherExn)))

(** val gval_aval : gval -> aval **)

let gval_aval = function
| GElem v -> v
| GInt z0 -> VInt z0
| GDec d ->
  VFloat
    (append ('d'::('e'::('c'::(' '::[]))))
      (append (z_to_string d.d_m) (append (' '::[]) (z_to_string d.d_e))))
| GBound v -> v
| GNone -> VNone

(** val has_attr : char list -> feature -> bool **)

let has_attr nm f =
  existsb (fun a -> eqb0 nm a.a_name) (info f).f_attrs

(** val targeted : bool -> char list -> feature -> bool **)

let targeted only_leaf nm f =
  (&&) ((||) (negb only_leaf) (feat_is_leaf f)) (negb (has_attr nm f))

(** val decide :
    feature list -> bool -> char list -> domain -> draw list -> (aval option
    list * draw list) result **)

let rec decide fs only_leaf nm d draws =
  match fs with
  | [] -> Ok ([], draws)
  | f :: rest ->
    if targeted only_leaf nm f
    then (match value_from_domain d draws with
          | Ok a ->
            let (g, draws') = a in
            (match decide rest only_leaf nm d draws' with
             | Ok a0 ->
               let (vs, dr) = a0 in Ok (((Some (gval_aval g)) :: vs), dr)
             | Err e -> Err e)
          | Err e -> Err e)
    else (match decide rest only_leaf nm d draws with
          | Ok a -> let (vs, dr) = a in Ok ((None :: vs), dr)
          | Err e -> Err e)

(** val lookup_value :
    char list -> feature list -> aval option list -> aval option **)

let rec lookup_value n0 fs vs =
  match fs with
  | [] -> None
  | f :: fs' ->
    (match vs with
     | [] -> None
     | v :: vs' -> if eqb0 (name f) n0 then v else lookup_value n0 fs' vs')

(** val apply_values :
    char list -> domain -> feature list -> aval option list -> feature ->
    feature **)

let rec apply_values nm d fs vs = function
| Feature (i, rs) ->
  let i' =
    match lookup_value i.f_name fs vs with
    | Some v ->
      { f_name = i.f_name; f_abstract = i.f_abstract; f_type = i.f_type;
        f_cmin = i.f_cmin; f_cmax = i.f_cmax; f_attrs =
        (app i.f_attrs ({ a_name = nm; a_dom = (Some d); a_default = v;
          a_null = VNone } :: [])) }
    | None -> i
  in
  Feature (i',
  (map (fun r ->
    let Relation (a, b, cs) = r in
    Relation (a, b, (map (apply_values nm d fs vs) cs))) rs))

(** val gen_random_attribute :
    char list -> domain option -> bool -> draw list -> fm -> fm result **)

let gen_random_attribute nm dom only_leaf draws m =
  match dom with
  | Some d ->
    (match d.dom_elems with
     | [] ->
       (match d.dom_ranges with
        | [] -> Err FlamaException
        | _ :: _ ->
          let fs = get_features m in
          (match decide fs only_leaf nm d draws with
           | Ok a ->
             let (vs, _) = a in
             Ok { root = (apply_values nm d fs vs m.root); ctcs = m.ctcs }
           | Err e -> Err e))
     | _ :: _ ->
       let fs = get_features m in
       (match decide fs only_leaf nm d draws with
        | Ok a ->
          let (vs, _) = a in
          Ok { root = (apply_values nm d fs vs m.root); ctcs = m.ctcs }
        | Err e -> Err e))
  | None -> Err FlamaException

(** val e_aval : aval -> sexp **)

let rec e_aval = function
| VNone -> e_tag ('n'::('o'::('n'::('e'::[])))) []
| VBool b -> e_tag ('b'::[]) ((e_bool b) :: [])
| VInt z0 -> e_tag ('i'::[]) ((e_z z0) :: [])
| VFloat r -> e_tag ('f'::('l'::[])) ((SStr r) :: [])
| VStr s -> e_tag ('s'::[]) ((SStr s) :: [])
| VList l -> e_tag ('l'::[]) (map e_aval l)
| VMap kv ->
  e_tag ('m'::[])
    (map (fun p -> SList ((SStr (fst p)) :: ((e_aval (snd p)) :: []))) kv)

(** val d_aval : sexp -> aval option **)

let rec d_aval = function
| SList l ->
  (match l with
   | [] -> None
   | s0 :: args ->
     (match s0 with
      | SAtom t ->
        if eqb0 t ('n'::('o'::('n'::('e'::[]))))
        then Some VNone
        else if eqb0 t ('b'::[])
             then (match args with
                   | [] -> None
                   | x :: l0 ->
                     (match l0 with
                      | [] -> option_map (fun x0 -> VBool x0) (d_bool x)
                      | _ :: _ -> None))
             else if eqb0 t ('i'::[])
                  then (match args with
                        | [] -> None
                        | x :: l0 ->
                          (match l0 with
                           | [] -> option_map (fun x0 -> VInt x0) (d_z x)
                           | _ :: _ -> None))
                  else if eqb0 t ('f'::('l'::[]))
                       then (match args with
                             | [] -> None
                             | s1 :: l0 ->
                               (match s1 with
                                | SStr r ->
                                  (match l0 with
                                   | [] -> Some (VFloat r)
                                   | _ :: _ -> None)
                                | _ -> None))
                       else if eqb0 t ('s'::[])
                            then (match args with
                                  | [] -> None
                                  | s1 :: l0 ->
                                    (match s1 with
                                     | SStr r ->
                                       (match l0 with
                                        | [] -> Some (VStr r)
                                        | _ :: _ -> None)
                                     | _ -> None))
                            else if eqb0 t ('l'::[])
                                 then option_map (fun x -> VList x)
                                        (omap d_aval args)
                                 else if eqb0 t ('m'::[])
                                      then option_map (fun x -> VMap x)
                                             (omap (fun p ->
                                               match p with
                                               | SAtom _ -> None
                                               | SStr _ -> None
                                               | SList l0 ->
                                                 (match l0 with
                                                  | [] -> None
                                                  | s1 :: l1 ->
                                                    (match s1 with
                                                     | SAtom _ -> None
                                                     | SStr k ->
                                                       (match l1 with
                                                        | [] -> None
                                                        | v :: l2 ->
                                                          (match l2 with
                                                           | [] ->
                                                             option_map
                                                               (fun x -> (k,
                                                               x)) (d_aval v)
                                                           | _ :: _ -> None))
                                                     | SList _ -> None)))
                                               args)
                                      else None
      | _ -> None))
| _ -> None

(** val e_ndata : ndata -> sexp **)

let e_ndata = function
| DOp o -> e_tag ('o'::('p'::[])) ((SAtom (astop_value o)) :: [])
| DStr s -> e_tag ('s'::[]) ((SStr s) :: [])
| DInt z0 -> e_tag ('i'::[]) ((e_z z0) :: [])
| DFloat r -> e_tag ('f'::('l'::[])) ((SStr r) :: [])
| DBool b -> e_tag ('b'::[]) ((e_bool b) :: [])

(** val d_ndata : sexp -> ndata option **)

let d_ndata = function
| SList l ->
  (match l with
   | [] -> None
   | s0 :: l0 ->
     (match s0 with
      | SAtom t ->
        (match l0 with
         | [] -> None
         | x :: l1 ->
           (match l1 with
            | [] ->
              if eqb0 t ('o'::('p'::[]))
              then (match x with
                    | SAtom v ->
                      option_map (fun x0 -> DOp x0) (astop_of_value v)
                    | _ -> None)
              else if eqb0 t ('s'::[])
                   then option_map (fun x0 -> DStr x0) (d_str x)
                   else if eqb0 t ('i'::[])
                        then option_map (fun x0 -> DInt x0) (d_z x)
                        else if eqb0 t ('f'::('l'::[]))
                             then option_map (fun x0 -> DFloat x0) (d_str x)
                             else if eqb0 t ('b'::[])
                                  then option_map (fun x0 -> DBool x0)
                                         (d_bool x)
                                  else None
            | _ :: _ -> None))
      | _ -> None))
| _ -> None

(** val e_node : node -> sexp **)

let rec e_node = function
| Node (d, l, r) ->
  SList ((SAtom
    ('n'::[])) :: ((e_ndata d) :: ((match l with
                                    | Some a -> e_node a
                                    | None -> SAtom ('n'::('i'::('l'::[])))) :: ((
    match r with
    | Some b -> e_node b
    | None -> SAtom ('n'::('i'::('l'::[])))) :: []))))

(** val d_node : sexp -> node option **)

let rec d_node = function
| SList l0 ->
  (match l0 with
   | [] -> None
   | s0 :: l1 ->
     (match s0 with
      | SAtom _ ->
        (match l1 with
         | [] -> None
         | d :: l2 ->
           (match l2 with
            | [] -> None
            | l :: l3 ->
              (match l3 with
               | [] -> None
               | r :: l4 ->
                 (match l4 with
                  | [] ->
                    (match d_ndata d with
                     | Some d' ->
                       let sub0 = fun x ->
                         match x with
                         | SAtom _ -> Some None
                         | _ ->
                           (match d_node x with
                            | Some n0 -> Some (Some n0)
                            | None -> None)
                       in
                       (match sub0 l with
                        | Some l' ->
                          (match sub0 r with
                           | Some r' -> Some (Node (d', l', r'))
                           | None -> None)
                        | None -> None)
                     | None -> None)
                  | _ :: _ -> None))))
      | _ -> None))
| _ -> None

(** val e_ftype : ftype -> sexp **)

let e_ftype t =
  SAtom
    (match t with
     | TBoolean -> 'B'::('o'::('o'::('l'::('e'::('a'::('n'::[]))))))
     | TInteger -> 'I'::('n'::('t'::('e'::('g'::('e'::('r'::[]))))))
     | TReal -> 'R'::('e'::('a'::('l'::[])))
     | TString -> 'S'::('t'::('r'::('i'::('n'::('g'::[]))))))

(** val d_ftype : sexp -> ftype option **)

let d_ftype = function
| SAtom x ->
  if eqb0 x ('B'::('o'::('o'::('l'::('e'::('a'::('n'::[])))))))
  then Some TBoolean
  else if eqb0 x ('I'::('n'::('t'::('e'::('g'::('e'::('r'::[])))))))
       then Some TInteger
       else if eqb0 x ('R'::('e'::('a'::('l'::[]))))
            then Some TReal
            else if eqb0 x ('S'::('t'::('r'::('i'::('n'::('g'::[]))))))
                 then Some TString
                 else None
| _ -> None

(** val e_domain : domain -> sexp **)

let e_domain d =
  e_tag ('d'::[]) ((SList
    (map (fun r -> SList ((e_aval r.rg_min) :: ((e_aval r.rg_max) :: [])))
      d.dom_ranges)) :: ((SList (map e_aval d.dom_elems)) :: []))

(** val d_domain : sexp -> domain option **)

let d_domain = function
| SList l ->
  (match l with
   | [] -> None
   | s0 :: l0 ->
     (match s0 with
      | SAtom _ ->
        (match l0 with
         | [] -> None
         | s2 :: l1 ->
           (match s2 with
            | SList rs ->
              (match l1 with
               | [] -> None
               | s3 :: l2 ->
                 (match s3 with
                  | SList es ->
                    (match l2 with
                     | [] ->
                       (match omap (fun r ->
                                match r with
                                | SAtom _ -> None
                                | SStr _ -> None
                                | SList l3 ->
                                  (match l3 with
                                   | [] -> None
                                   | a :: l4 ->
                                     (match l4 with
                                      | [] -> None
                                      | b :: l5 ->
                                        (match l5 with
                                         | [] ->
                                           (match d_aval a with
                                            | Some x ->
                                              (match d_aval b with
                                               | Some y ->
                                                 Some { rg_min = x; rg_max =
                                                   y }
                                               | None -> None)
                                            | None -> None)
                                         | _ :: _ -> None)))) rs with
                        | Some rs' ->
                          (match omap d_aval es with
                           | Some es' ->
                             Some { dom_ranges = rs'; dom_elems = es' }
                           | None -> None)
                        | None -> None)
                     | _ :: _ -> None)
                  | _ -> None))
            | _ -> None))
      | _ -> None))
| _ -> None

(** val e_attr : attr -> sexp **)

let e_attr a =
  e_tag ('a'::[]) ((SStr
    a.a_name) :: ((e_opt e_domain a.a_dom) :: ((e_aval a.a_default) :: (
    (e_aval a.a_null) :: []))))

(** val d_attr : sexp -> attr option **)

let d_attr = function
| SList l ->
  (match l with
   | [] -> None
   | s0 :: l0 ->
     (match s0 with
      | SAtom _ ->
        (match l0 with
         | [] -> None
         | s2 :: l1 ->
           (match s2 with
            | SStr n0 ->
              (match l1 with
               | [] -> None
               | d :: l2 ->
                 (match l2 with
                  | [] -> None
                  | dv :: l3 ->
                    (match l3 with
                     | [] -> None
                     | nv :: l4 ->
                       (match l4 with
                        | [] ->
                          let dom =
                            if is_nil d
                            then Some None
                            else (match d_domain d with
                                  | Some x -> Some (Some x)
                                  | None -> None)
                          in
                          (match dom with
                           | Some d' ->
                             (match d_aval dv with
                              | Some dv' ->
                                (match d_aval nv with
                                 | Some nv' ->
                                   Some { a_name = n0; a_dom = d';
                                     a_default = dv'; a_null = nv' }
                                 | None -> None)
                              | None -> None)
                           | None -> None)
                        | _ :: _ -> None))))
            | _ -> None))
      | _ -> None))
| _ -> None

(** val e_feature : feature -> sexp **)

let rec e_feature = function
| Feature (i, rs) ->
  e_tag ('f'::[]) ((SStr
    i.f_name) :: ((e_aval i.f_abstract) :: ((e_ftype i.f_type) :: ((e_z
                                                                    i.f_cmin) :: (
    (e_z i.f_cmax) :: ((SList (map e_attr i.f_attrs)) :: ((SList
    (map (fun r ->
      let Relation (a, b, cs) = r in
      e_tag ('r'::[]) ((e_z a) :: ((e_z b) :: ((SList
        (map e_feature cs)) :: [])))) rs)) :: [])))))))

(** val d_feature : sexp -> feature option **)

let rec d_feature = function
| SList l ->
  (match l with
   | [] -> None
   | s0 :: l0 ->
     (match s0 with
      | SAtom _ ->
        (match l0 with
         | [] -> None
         | s2 :: l1 ->
           (match s2 with
            | SStr nm ->
              (match l1 with
               | [] -> None
               | ab :: l2 ->
                 (match l2 with
                  | [] -> None
                  | ty :: l3 ->
                    (match l3 with
                     | [] -> None
                     | cmin :: l4 ->
                       (match l4 with
                        | [] -> None
                        | cmax :: l5 ->
                          (match l5 with
                           | [] -> None
                           | s3 :: l6 ->
                             (match s3 with
                              | SList attrs ->
                                (match l6 with
                                 | [] -> None
                                 | s4 :: l7 ->
                                   (match s4 with
                                    | SList rs ->
                                      (match l7 with
                                       | [] ->
                                         (match d_aval ab with
                                          | Some ab' ->
                                            (match d_ftype ty with
                                             | Some ty' ->
                                               (match d_z cmin with
                                                | Some c1 ->
                                                  (match d_z cmax with
                                                   | Some c2 ->
                                                     (match omap d_attr attrs with
                                                      | Some at' ->
                                                        (match omap (fun r ->
                                                                 match r with
                                                                 | SAtom _ ->
                                                                   None
                                                                 | SStr _ ->
                                                                   None
                                                                 | SList l8 ->
                                                                   (match l8 with
                                                                    | [] ->
                                                                    None
                                                                    | s1 :: l9 ->
                                                                    (match s1 with
                                                                    | SAtom _ ->
                                                                    (match l9 with
                                                                    | [] ->
                                                                    None
                                                                    | mn :: l10 ->
                                                                    (match l10 with
                                                                    | [] ->
                                                                    None
                                                                    | mx :: l11 ->
                                                                    (match l11 with
                                                                    | [] ->
                                                                    None
                                                                    | s5 :: l12 ->
                                                                    (match s5 with
                                                                    | SAtom _ ->
                                                                    None
                                                                    | SStr _ ->
                                                                    None
                                                                    | SList cs ->
                                                                    (match l12 with
                                                                    | [] ->
                                                                    (match 
                                                                    d_z mn with
                                                                    | Some a ->
                                                                    (match 
                                                                    d_z mx with
                                                                    | Some b ->
                                                                    (match 
                                                                    omap
                                                                    d_feature
                                                                    cs with
                                                                    | Some l13 ->
                                                                    Some
                                                                    (Relation
                                                                    (a, b,
                                                                    l13))
                                                                    | None ->
                                                                    None)
                                                                    | None ->
                                                                    None)
                                                                    | None ->
                                                                    None)
                                                                    | _ :: _ ->
                                                                    None)))))
                                                                    | _ ->
                                                                    None))) rs with
                                                         | Some rs' ->
                                                           Some (Feature
                                                             ({ f_name = nm;
                                                             f_abstract =
                                                             ab'; f_type =
                                                             ty'; f_cmin =
                                                             c1; f_cmax = c2;
                                                             f_attrs = at' },
                                                             rs'))
                                                         | None -> None)
                                                      | None -> None)
                                                   | None -> None)
                                                | None -> None)
                                             | None -> None)
                                          | None -> None)
                                       | _ :: _ -> None)
                                    | _ -> None))
                              | _ -> None))))))
            | _ -> None))
      | _ -> None))
| _ -> None

(** val e_ctc : ctc -> sexp **)

let e_ctc c =
  e_tag ('c'::[]) ((SStr c.c_name) :: ((e_node c.c_ast) :: []))

(** val d_ctc : sexp -> ctc option **)

let d_ctc = function
| SList l ->
  (match l with
   | [] -> None
   | s0 :: l0 ->
     (match s0 with
      | SAtom _ ->
        (match l0 with
         | [] -> None
         | s2 :: l1 ->
           (match s2 with
            | SStr n0 ->
              (match l1 with
               | [] -> None
               | a :: l2 ->
                 (match l2 with
                  | [] ->
                    (match d_node a with
                     | Some a' -> Some { c_name = n0; c_ast = a' }
                     | None -> None)
                  | _ :: _ -> None))
            | _ -> None))
      | _ -> None))
| _ -> None

(** val e_fm : fm -> sexp **)

let e_fm m =
  e_tag ('f'::('m'::[])) ((e_feature m.root) :: ((SList
    (map e_ctc m.ctcs)) :: []))

(** val d_fm : sexp -> fm option **)

let d_fm = function
| SList l ->
  (match l with
   | [] -> None
   | s0 :: l0 ->
     (match s0 with
      | SAtom _ ->
        (match l0 with
         | [] -> None
         | f :: l1 ->
           (match l1 with
            | [] -> None
            | s2 :: l2 ->
              (match s2 with
               | SList cs ->
                 (match l2 with
                  | [] ->
                    (match d_feature f with
                     | Some f' ->
                       (match omap d_ctc cs with
                        | Some cs' -> Some { root = f'; ctcs = cs' }
                        | None -> None)
                     | None -> None)
                  | _ :: _ -> None)
               | _ -> None)))
      | _ -> None))
| _ -> None

(** val e_ptr : ptr -> sexp **)

let e_ptr = function
| PNone -> SAtom ('n'::('i'::('l'::[])))
| PPath l ->
  e_tag ('p'::[])
    (flat_map (fun ij -> (e_nat (fst ij)) :: ((e_nat (snd ij)) :: [])) l)
| PExt -> SAtom ('e'::('x'::('t'::[])))

(** val e_pfeature : pfeature -> sexp **)

let rec e_pfeature = function
| PFeature (i, p, ap, rs) ->
  e_tag ('p'::('f'::[])) ((SStr
    i.f_name) :: ((e_aval i.f_abstract) :: ((e_ftype i.f_type) :: ((e_z
                                                                    i.f_cmin) :: (
    (e_z i.f_cmax) :: ((e_ptr p) :: ((SList
    (map (fun ap_ -> SList ((e_attr (fst ap_)) :: ((e_ptr (snd ap_)) :: [])))
      (combine i.f_attrs ap))) :: ((SList
    (map (fun r ->
      let PRelation (rp, a, b, cs) = r in
      e_tag ('p'::('r'::[])) ((e_ptr rp) :: ((e_z a) :: ((e_z b) :: ((SList
        (map e_pfeature cs)) :: []))))) rs)) :: []))))))))

(** val e_pfm : pfm -> sexp **)

let e_pfm m =
  e_tag ('p'::('f'::('m'::[]))) ((e_pfeature m.proot) :: ((SList
    (map e_ctc m.pctcs)) :: []))

(** val e_xml : xml -> sexp **)

let rec e_xml = function
| Elem (t, a, txt, kids) ->
  e_tag ('x'::[]) ((SStr t) :: ((SList
    (map (fun kv -> SList ((SStr (fst kv)) :: ((SStr (snd kv)) :: []))) a)) :: (
    (e_opt (fun x0 -> SStr x0) txt) :: ((SList (map e_xml kids)) :: []))))

(** val d_xml : sexp -> xml option **)

let rec d_xml = function
| SList l ->
  (match l with
   | [] -> None
   | s0 :: l0 ->
     (match s0 with
      | SAtom _ ->
        (match l0 with
         | [] -> None
         | s2 :: l1 ->
           (match s2 with
            | SStr t ->
              (match l1 with
               | [] -> None
               | s3 :: l2 ->
                 (match s3 with
                  | SList a ->
                    (match l2 with
                     | [] -> None
                     | txt :: l3 ->
                       (match l3 with
                        | [] -> None
                        | s4 :: l4 ->
                          (match s4 with
                           | SList kids ->
                             (match l4 with
                              | [] ->
                                (match omap (fun kv ->
                                         match kv with
                                         | SAtom _ -> None
                                         | SStr _ -> None
                                         | SList l5 ->
                                           (match l5 with
                                            | [] -> None
                                            | s1 :: l6 ->
                                              (match s1 with
                                               | SAtom _ -> None
                                               | SStr k ->
                                                 (match l6 with
                                                  | [] -> None
                                                  | s5 :: l7 ->
                                                    (match s5 with
                                                     | SAtom _ -> None
                                                     | SStr v ->
                                                       (match l7 with
                                                        | [] -> Some (k, v)
                                                        | _ :: _ -> None)
                                                     | SList _ -> None))
                                               | SList _ -> None))) a with
                                 | Some a' ->
                                   (match if is_nil txt
                                          then Some None
                                          else option_map (fun x -> Some x)
                                                 (d_str txt) with
                                    | Some txt' ->
                                      (match omap d_xml kids with
                                       | Some kids' ->
                                         Some (Elem (t, a', txt', kids'))
                                       | None -> None)
                                    | None -> None)
                                 | None -> None)
                              | _ :: _ -> None)
                           | _ -> None)))
                  | _ -> None))
            | _ -> None))
      | _ -> None))
| _ -> None

(** val e_uvalue : uvalue -> sexp **)

let rec e_uvalue = function
| UVBool t -> e_tag ('v'::('b'::[])) ((SStr t) :: [])
| UVFloat (t, r) -> e_tag ('v'::('f'::[])) ((SStr t) :: ((SStr r) :: []))
| UVInt t -> e_tag ('v'::('i'::[])) ((SStr t) :: [])
| UVStr t -> e_tag ('v'::('s'::[])) ((SStr t) :: [])
| UVAttrs l -> e_tag ('v'::('a'::[])) (map e_uattr l)
| UVVector l -> e_tag ('v'::('v'::[])) (map e_uvalue l)

(** val e_uattr : uattr -> sexp **)

and e_uattr = function
| UAValue (k, v) ->
  e_tag ('a'::('v'::[])) ((SStr
    k) :: ((match v with
            | Some x -> e_uvalue x
            | None -> SAtom ('n'::('i'::('l'::[])))) :: []))
| UAConstraint -> e_tag ('a'::('c'::[])) []
| UAOther -> e_tag ('a'::('o'::[])) []

(** val d_uvalue : sexp -> uvalue option **)

let rec d_uvalue = function
| SList l ->
  (match l with
   | [] -> None
   | s0 :: args ->
     (match s0 with
      | SAtom t ->
        if eqb0 t ('v'::('b'::[]))
        then (match args with
              | [] -> None
              | s1 :: l0 ->
                (match s1 with
                 | SStr x ->
                   (match l0 with
                    | [] -> Some (UVBool x)
                    | _ :: _ -> None)
                 | _ -> None))
        else if eqb0 t ('v'::('f'::[]))
             then (match args with
                   | [] -> None
                   | s1 :: l0 ->
                     (match s1 with
                      | SStr x ->
                        (match l0 with
                         | [] -> None
                         | s2 :: l1 ->
                           (match s2 with
                            | SStr r ->
                              (match l1 with
                               | [] -> Some (UVFloat (x, r))
                               | _ :: _ -> None)
                            | _ -> None))
                      | _ -> None))
             else if eqb0 t ('v'::('i'::[]))
                  then (match args with
                        | [] -> None
                        | s1 :: l0 ->
                          (match s1 with
                           | SStr x ->
                             (match l0 with
                              | [] -> Some (UVInt x)
                              | _ :: _ -> None)
                           | _ -> None))
                  else if eqb0 t ('v'::('s'::[]))
                       then (match args with
                             | [] -> None
                             | s1 :: l0 ->
                               (match s1 with
                                | SStr x ->
                                  (match l0 with
                                   | [] -> Some (UVStr x)
                                   | _ :: _ -> None)
                                | _ -> None))
                       else if eqb0 t ('v'::('v'::[]))
                            then option_map (fun x -> UVVector x)
                                   (omap d_uvalue args)
                            else if eqb0 t ('v'::('a'::[]))
                                 then option_map (fun x -> UVAttrs x)
                                        (omap (fun a ->
                                          match a with
                                          | SAtom _ -> None
                                          | SStr _ -> None
                                          | SList l0 ->
                                            (match l0 with
                                             | [] -> None
                                             | s1 :: l1 ->
                                               (match s1 with
                                                | SAtom ta ->
                                                  (match l1 with
                                                   | [] ->
                                                     if eqb0 ta
                                                          ('a'::('c'::[]))
                                                     then Some UAConstraint
                                                     else if eqb0 ta
                                                               ('a'::('o'::[]))
                                                          then Some UAOther
                                                          else None
                                                   | s2 :: l2 ->
                                                     (match s2 with
                                                      | SStr k ->
                                                        (match l2 with
                                                         | [] -> None
                                                         | v :: l3 ->
                                                           (match l3 with
                                                            | [] ->
                                                              if eqb0 ta
                                                                   ('a'::('v'::[]))
                                                              then (match v with
                                                                    | SAtom _ ->
                                                                    Some
                                                                    (UAValue
                                                                    (k, None))
                                                                    | _ ->
                                                                    option_map
                                                                    (fun x ->
                                                                    UAValue
                                                                    (k, (Some
                                                                    x)))
                                                                    (d_uvalue
                                                                    v))
                                                              else None
                                                            | _ :: _ -> None))
                                                      | _ -> None))
                                                | _ -> None))) args)
                                 else None
      | _ -> None))
| _ -> None

(** val d_uattrs : sexp -> uattr list option option **)

let d_uattrs s = match s with
| SAtom _ -> Some None
| _ ->
  (match d_uvalue s with
   | Some u -> (match u with
                | UVAttrs l -> Some (Some l)
                | _ -> None)
   | None -> None)

(** val e_gkind : gkind -> sexp **)

let e_gkind = function
| GOr -> SAtom ('o'::('r'::[]))
| GAlt -> SAtom ('a'::('l'::('t'::[])))
| GOpt -> SAtom ('o'::('p'::('t'::[])))
| GMand -> SAtom ('m'::('a'::('n'::('d'::[]))))
| GCard t -> e_tag ('c'::('a'::('r'::('d'::[])))) ((SStr t) :: [])

(** val d_gkind : sexp -> gkind option **)

let d_gkind = function
| SAtom x ->
  if eqb0 x ('o'::('r'::[]))
  then Some GOr
  else if eqb0 x ('a'::('l'::('t'::[])))
       then Some GAlt
       else if eqb0 x ('o'::('p'::('t'::[])))
            then Some GOpt
            else if eqb0 x ('m'::('a'::('n'::('d'::[]))))
                 then Some GMand
                 else None
| SStr _ -> None
| SList l ->
  (match l with
   | [] -> None
   | s0 :: l0 ->
     (match s0 with
      | SAtom _ ->
        (match l0 with
         | [] -> None
         | s2 :: l1 ->
           (match s2 with
            | SStr t -> (match l1 with
                         | [] -> Some (GCard t)
                         | _ :: _ -> None)
            | _ -> None))
      | _ -> None))

(** val e_ufeature : ufeature -> sexp **)

let rec e_ufeature = function
| UFeature (ty, ref, fc, at_, gs) ->
  e_tag ('u'::('f'::[])) ((e_opt (fun x -> SStr x) ty) :: ((SStr
    ref) :: ((e_opt (fun x -> SStr x) fc) :: ((match at_ with
                                               | Some l ->
                                                 e_uvalue (UVAttrs l)
                                               | None ->
                                                 SAtom ('n'::('i'::('l'::[])))) :: ((SList
    (map (fun g ->
      let UGroup (k, cs) = g in
      e_tag ('g'::[]) ((e_gkind k) :: ((SList (map e_ufeature cs)) :: [])))
      gs)) :: [])))))

(** val d_optstr : sexp -> char list option option **)

let d_optstr = function
| SAtom _ -> Some None
| SStr x -> Some (Some x)
| SList _ -> None

(** val d_ufeature : sexp -> ufeature option **)

let rec d_ufeature = function
| SList l ->
  (match l with
   | [] -> None
   | s0 :: l0 ->
     (match s0 with
      | SAtom _ ->
        (match l0 with
         | [] -> None
         | ty :: l1 ->
           (match l1 with
            | [] -> None
            | s2 :: l2 ->
              (match s2 with
               | SStr ref ->
                 (match l2 with
                  | [] -> None
                  | fc :: l3 ->
                    (match l3 with
                     | [] -> None
                     | at_ :: l4 ->
                       (match l4 with
                        | [] -> None
                        | s3 :: l5 ->
                          (match s3 with
                           | SList gs ->
                             (match l5 with
                              | [] ->
                                (match d_optstr ty with
                                 | Some ty' ->
                                   (match d_optstr fc with
                                    | Some fc' ->
                                      (match d_uattrs at_ with
                                       | Some at' ->
                                         (match omap (fun g ->
                                                  match g with
                                                  | SAtom _ -> None
                                                  | SStr _ -> None
                                                  | SList l6 ->
                                                    (match l6 with
                                                     | [] -> None
                                                     | s1 :: l7 ->
                                                       (match s1 with
                                                        | SAtom _ ->
                                                          (match l7 with
                                                           | [] -> None
                                                           | k :: l8 ->
                                                             (match l8 with
                                                              | [] -> None
                                                              | s4 :: l9 ->
                                                                (match s4 with
                                                                 | SAtom _ ->
                                                                   None
                                                                 | SStr _ ->
                                                                   None
                                                                 | SList cs ->
                                                                   (match l9 with
                                                                    | [] ->
                                                                    (match 
                                                                    d_gkind k with
                                                                    | Some k' ->
                                                                    (match 
                                                                    omap
                                                                    d_ufeature
                                                                    cs with
                                                                    | Some cs' ->
                                                                    Some
                                                                    (UGroup
                                                                    (k', cs'))
                                                                    | None ->
                                                                    None)
                                                                    | None ->
                                                                    None)
                                                                    | _ :: _ ->
                                                                    None))))
                                                        | _ -> None))) gs with
                                          | Some gs' ->
                                            Some (UFeature (ty', ref, fc',
                                              at', gs'))
                                          | None -> None)
                                       | None -> None)
                                    | None -> None)
                                 | None -> None)
                              | _ :: _ -> None)
                           | _ -> None))))
               | _ -> None)))
      | _ -> None))
| _ -> None

(** val aggr_atom : aggr -> char list **)

let aggr_atom = function
| AgSum -> 's'::('u'::('m'::[]))
| AgAvg -> 'a'::('v'::('g'::[]))
| AgLen -> 'l'::('e'::('n'::[]))
| AgFloor -> 'f'::('l'::('o'::('o'::('r'::[]))))
| AgCeil -> 'c'::('e'::('i'::('l'::[])))

(** val d_aggr : char list -> aggr option **)

let d_aggr s =
  if eqb0 s ('s'::('u'::('m'::[])))
  then Some AgSum
  else if eqb0 s ('a'::('v'::('g'::[])))
       then Some AgAvg
       else if eqb0 s ('l'::('e'::('n'::[])))
            then Some AgLen
            else if eqb0 s ('f'::('l'::('o'::('o'::('r'::[])))))
                 then Some AgFloor
                 else if eqb0 s ('c'::('e'::('i'::('l'::[]))))
                      then Some AgCeil
                      else None

(** val e_ucst : ucst -> sexp **)

let rec e_ucst = function
| KLiteral r -> e_tag ('k'::('l'::[])) ((SStr r) :: [])
| KNot x -> e_tag ('k'::('n'::[])) ((e_ucst x) :: [])
| KBin (o, a, b) ->
  e_tag ('k'::('b'::[])) ((SAtom
    (astop_value o)) :: ((e_ucst a) :: ((e_ucst b) :: [])))
| KParen x -> e_tag ('k'::('p'::[])) ((e_ucst x) :: [])
| KInt t -> e_tag ('k'::('i'::[])) ((SStr t) :: [])
| KFloat (t, r) -> e_tag ('k'::('f'::[])) ((SStr t) :: ((SStr r) :: []))
| KStr t -> e_tag ('k'::('s'::[])) ((SStr t) :: [])
| KAggr (a, refs) ->
  e_tag ('k'::('a'::[])) ((SAtom (aggr_atom a)) :: ((SList
    (map (fun x -> SStr x) refs)) :: []))

(** val d_ucst : sexp -> ucst option **)

let rec d_ucst = function
| SList l ->
  (match l with
   | [] -> None
   | s0 :: args ->
     (match s0 with
      | SAtom t ->
        if eqb0 t ('k'::('l'::[]))
        then (match args with
              | [] -> None
              | s1 :: l0 ->
                (match s1 with
                 | SStr r ->
                   (match l0 with
                    | [] -> Some (KLiteral r)
                    | _ :: _ -> None)
                 | _ -> None))
        else if eqb0 t ('k'::('n'::[]))
             then (match args with
                   | [] -> None
                   | x :: l0 ->
                     (match l0 with
                      | [] -> option_map (fun x0 -> KNot x0) (d_ucst x)
                      | _ :: _ -> None))
             else if eqb0 t ('k'::('p'::[]))
                  then (match args with
                        | [] -> None
                        | x :: l0 ->
                          (match l0 with
                           | [] -> option_map (fun x0 -> KParen x0) (d_ucst x)
                           | _ :: _ -> None))
                  else if eqb0 t ('k'::('b'::[]))
                       then (match args with
                             | [] -> None
                             | s1 :: l0 ->
                               (match s1 with
                                | SAtom o ->
                                  (match l0 with
                                   | [] -> None
                                   | a :: l1 ->
                                     (match l1 with
                                      | [] -> None
                                      | b :: l2 ->
                                        (match l2 with
                                         | [] ->
                                           (match astop_of_value o with
                                            | Some o' ->
                                              (match d_ucst a with
                                               | Some a' ->
                                                 (match d_ucst b with
                                                  | Some b' ->
                                                    Some (KBin (o', a', b'))
                                                  | None -> None)
                                               | None -> None)
                                            | None -> None)
                                         | _ :: _ -> None)))
                                | _ -> None))
                       else if eqb0 t ('k'::('i'::[]))
                            then (match args with
                                  | [] -> None
                                  | s1 :: l0 ->
                                    (match s1 with
                                     | SStr x ->
                                       (match l0 with
                                        | [] -> Some (KInt x)
                                        | _ :: _ -> None)
                                     | _ -> None))
                            else if eqb0 t ('k'::('f'::[]))
                                 then (match args with
                                       | [] -> None
                                       | s1 :: l0 ->
                                         (match s1 with
                                          | SStr x ->
                                            (match l0 with
                                             | [] -> None
                                             | s2 :: l1 ->
                                               (match s2 with
                                                | SStr r ->
                                                  (match l1 with
                                                   | [] ->
                                                     Some (KFloat (x, r))
                                                   | _ :: _ -> None)
                                                | _ -> None))
                                          | _ -> None))
                                 else if eqb0 t ('k'::('s'::[]))
                                      then (match args with
                                            | [] -> None
                                            | s1 :: l0 ->
                                              (match s1 with
                                               | SStr x ->
                                                 (match l0 with
                                                  | [] -> Some (KStr x)
                                                  | _ :: _ -> None)
                                               | _ -> None))
                                      else if eqb0 t ('k'::('a'::[]))
                                           then (match args with
                                                 | [] -> None
                                                 | s1 :: l0 ->
                                                   (match s1 with
                                                    | SAtom a ->
                                                      (match l0 with
                                                       | [] -> None
                                                       | s2 :: l1 ->
                                                         (match s2 with
                                                          | SList refs ->
                                                            (match l1 with
                                                             | [] ->
                                                               (match 
                                                                d_aggr a with
                                                                | Some a' ->
                                                                  (match 
                                                                   omap d_str
                                                                    refs with
                                                                   | Some r' ->
                                                                    Some
                                                                    (KAggr
                                                                    (a', r'))
                                                                   | None ->
                                                                    None)
                                                                | None -> None)
                                                             | _ :: _ -> None)
                                                          | _ -> None))
                                                    | _ -> None))
                                           else None
      | _ -> None))
| _ -> None

(** val e_udoc : udoc -> sexp **)

let e_udoc d =
  e_tag ('u'::('d'::('o'::('c'::[]))))
    ((e_opt e_ufeature d.d_root) :: ((match d.d_ctcs with
                                      | Some l -> SList (map e_ucst l)
                                      | None -> SAtom ('n'::('i'::('l'::[])))) :: []))

(** val d_udoc : sexp -> udoc option **)

let d_udoc = function
| SList l ->
  (match l with
   | [] -> None
   | s0 :: l0 ->
     (match s0 with
      | SAtom _ ->
        (match l0 with
         | [] -> None
         | r :: l1 ->
           (match l1 with
            | [] -> None
            | cs :: l2 ->
              (match l2 with
               | [] ->
                 let root_ =
                   match r with
                   | SAtom _ -> Some None
                   | _ -> option_map (fun x -> Some x) (d_ufeature r)
                 in
                 let ctcs_ =
                   match cs with
                   | SAtom _ -> Some None
                   | SStr _ -> None
                   | SList l3 -> option_map (fun x -> Some x) (omap d_ucst l3)
                 in
                 (match root_ with
                  | Some r' ->
                    (match ctcs_ with
                     | Some c' -> Some { d_root = r'; d_ctcs = c' }
                     | None -> None)
                  | None -> None)
               | _ :: _ -> None)))
      | _ -> None))
| _ -> None

(** val e_aitem : aitem -> sexp **)

let e_aitem = function
| ISingle (o, n0) -> e_tag ('i'::('s'::[])) ((e_bool o) :: ((SStr n0) :: []))
| IGroup (a, b, cs) ->
  e_tag ('i'::('g'::[])) ((SStr a) :: ((SStr b) :: ((SList
    (map (fun x -> SStr x) cs)) :: [])))

(** val d_aitem : sexp -> aitem option **)

let d_aitem = function
| SList l ->
  (match l with
   | [] -> None
   | s0 :: l0 ->
     (match s0 with
      | SAtom _ ->
        (match l0 with
         | [] -> None
         | o :: l1 ->
           (match o with
            | SAtom _ ->
              (match l1 with
               | [] -> None
               | s3 :: l2 ->
                 (match s3 with
                  | SStr n0 ->
                    (match l2 with
                     | [] -> option_map (fun b -> ISingle (b, n0)) (d_bool o)
                     | _ :: _ -> None)
                  | _ -> None))
            | SStr a ->
              (match l1 with
               | [] -> None
               | s2 :: l2 ->
                 (match s2 with
                  | SStr b ->
                    (match l2 with
                     | [] -> option_map (fun b0 -> ISingle (b0, b)) (d_bool o)
                     | s3 :: l3 ->
                       (match s3 with
                        | SList cs ->
                          (match l3 with
                           | [] ->
                             option_map (fun x -> IGroup (a, b, x))
                               (omap d_str cs)
                           | _ :: _ -> None)
                        | _ -> None))
                  | _ -> None))
            | SList _ ->
              (match l1 with
               | [] -> None
               | s2 :: l3 ->
                 (match s2 with
                  | SStr n0 ->
                    (match l3 with
                     | [] -> option_map (fun b -> ISingle (b, n0)) (d_bool o)
                     | _ :: _ -> None)
                  | _ -> None))))
      | _ -> None))
| _ -> None

(** val e_avalue : avalue -> sexp **)

let e_avalue = function
| AvInt t -> e_tag ('v'::('i'::[])) ((SStr t) :: [])
| AvText t -> e_tag ('v'::('t'::[])) ((SStr t) :: [])
| AvDouble (t, r) -> e_tag ('v'::('d'::[])) ((SStr t) :: ((SStr r) :: []))

(** val d_avalue : sexp -> avalue option **)

let d_avalue = function
| SList l ->
  (match l with
   | [] -> None
   | s0 :: l0 ->
     (match s0 with
      | SAtom k ->
        (match l0 with
         | [] -> None
         | s1 :: l1 ->
           (match s1 with
            | SStr t ->
              (match l1 with
               | [] ->
                 if eqb0 k ('v'::('i'::[]))
                 then Some (AvInt t)
                 else Some (AvText t)
               | s2 :: l2 ->
                 (match s2 with
                  | SStr r ->
                    (match l2 with
                     | [] -> Some (AvDouble (t, r))
                     | _ :: _ -> None)
                  | _ -> None))
            | _ -> None))
      | _ -> None))
| _ -> None

(** val e_adomain : adomain -> sexp **)

let e_adomain = function
| ADiscrete l -> e_tag ('d'::('d'::[])) (map e_avalue l)
| ARange l ->
  e_tag ('d'::('r'::[]))
    (map (fun ab -> SList ((SStr (fst ab)) :: ((SStr (snd ab)) :: []))) l)

(** val d_adomain : sexp -> adomain option **)

let d_adomain = function
| SList l ->
  (match l with
   | [] -> None
   | s0 :: args ->
     (match s0 with
      | SAtom k ->
        if eqb0 k ('d'::('d'::[]))
        then option_map (fun x -> ADiscrete x) (omap d_avalue args)
        else option_map (fun x -> ARange x)
               (omap (fun x ->
                 match x with
                 | SAtom _ -> None
                 | SStr _ -> None
                 | SList l0 ->
                   (match l0 with
                    | [] -> None
                    | s1 :: l1 ->
                      (match s1 with
                       | SAtom _ -> None
                       | SStr a ->
                         (match l1 with
                          | [] -> None
                          | s2 :: l2 ->
                            (match s2 with
                             | SAtom _ -> None
                             | SStr b ->
                               (match l2 with
                                | [] -> Some (a, b)
                                | _ :: _ -> None)
                             | SList _ -> None))
                       | SList _ -> None))) args)
      | _ -> None))
| _ -> None

(** val e_aexpr : aexpr -> sexp **)

let rec e_aexpr = function
| EVar t -> e_tag ('e'::('v'::[])) ((SStr t) :: [])
| ENum t -> e_tag ('e'::('n'::[])) ((SStr t) :: [])
| EBin (op, a, b) ->
  e_tag ('e'::('b'::[])) ((SStr op) :: ((e_aexpr a) :: ((e_aexpr b) :: [])))
| ENot a -> e_tag ('e'::('n'::('o'::('t'::[])))) ((e_aexpr a) :: [])
| EParen a -> e_tag ('e'::('p'::[])) ((e_aexpr a) :: [])

(** val d_aexpr : sexp -> aexpr option **)

let rec d_aexpr = function
| SList l ->
  (match l with
   | [] -> None
   | s0 :: l0 ->
     (match s0 with
      | SAtom k ->
        (match l0 with
         | [] -> None
         | a :: l1 ->
           (match a with
            | SAtom _ ->
              (match l1 with
               | [] ->
                 if eqb0 k ('e'::('n'::('o'::('t'::[]))))
                 then option_map (fun x -> ENot x) (d_aexpr a)
                 else if eqb0 k ('e'::('p'::[]))
                      then option_map (fun x -> EParen x) (d_aexpr a)
                      else None
               | _ :: _ -> None)
            | SStr op ->
              (match l1 with
               | [] ->
                 if eqb0 k ('e'::('v'::[]))
                 then Some (EVar op)
                 else if eqb0 k ('e'::('n'::[])) then Some (ENum op) else None
               | a0 :: l2 ->
                 (match l2 with
                  | [] -> None
                  | b :: l3 ->
                    (match l3 with
                     | [] ->
                       (match d_aexpr a0 with
                        | Some a' ->
                          (match d_aexpr b with
                           | Some b' -> Some (EBin (op, a', b'))
                           | None -> None)
                        | None -> None)
                     | _ :: _ -> None)))
            | SList _ ->
              (match l1 with
               | [] ->
                 if eqb0 k ('e'::('n'::('o'::('t'::[]))))
                 then option_map (fun x -> ENot x) (d_aexpr a)
                 else if eqb0 k ('e'::('p'::[]))
                      then option_map (fun x -> EParen x) (d_aexpr a)
                      else None
               | _ :: _ -> None)))
      | _ -> None))
| _ -> None

(** val e_actc : actc -> sexp **)

let e_actc = function
| CSimple (e, t) -> e_tag ('c'::('s'::[])) ((e_aexpr e) :: ((SStr t) :: []))
| CBrackets (w, l) ->
  e_tag ('c'::('b'::[])) ((SStr w) :: ((SList
    (map (fun et -> SList ((e_aexpr (fst et)) :: ((SStr (snd et)) :: []))) l)) :: []))

(** val d_actc : sexp -> actc option **)

let d_actc = function
| SList l0 ->
  (match l0 with
   | [] -> None
   | s0 :: l1 ->
     (match s0 with
      | SAtom _ ->
        (match l1 with
         | [] -> None
         | e :: l2 ->
           (match e with
            | SAtom _ ->
              (match l2 with
               | [] -> None
               | s3 :: l ->
                 (match s3 with
                  | SStr t ->
                    (match l with
                     | [] ->
                       option_map (fun e' -> CSimple (e', t)) (d_aexpr e)
                     | _ :: _ -> None)
                  | _ -> None))
            | SStr w ->
              (match l2 with
               | [] -> None
               | s2 :: l3 ->
                 (match s2 with
                  | SAtom _ -> None
                  | SStr t ->
                    (match l3 with
                     | [] ->
                       option_map (fun e' -> CSimple (e', t)) (d_aexpr e)
                     | _ :: _ -> None)
                  | SList l ->
                    (match l3 with
                     | [] ->
                       option_map (fun x -> CBrackets (w, x))
                         (omap (fun x ->
                           match x with
                           | SAtom _ -> None
                           | SStr _ -> None
                           | SList l4 ->
                             (match l4 with
                              | [] -> None
                              | e0 :: l5 ->
                                (match l5 with
                                 | [] -> None
                                 | s1 :: l6 ->
                                   (match s1 with
                                    | SAtom _ -> None
                                    | SStr t ->
                                      (match l6 with
                                       | [] ->
                                         option_map (fun e' -> (e', t))
                                           (d_aexpr e0)
                                       | _ :: _ -> None)
                                    | SList _ -> None)))) l)
                     | _ :: _ -> None)))
            | SList _ ->
              (match l2 with
               | [] -> None
               | s2 :: l3 ->
                 (match s2 with
                  | SStr t ->
                    (match l3 with
                     | [] ->
                       option_map (fun e' -> CSimple (e', t)) (d_aexpr e)
                     | _ :: _ -> None)
                  | _ -> None))))
      | _ -> None))
| _ -> None

(** val e_adoc : adoc -> sexp **)

let e_adoc d =
  e_tag ('a'::('d'::('o'::('c'::[])))) ((SList
    (map (fun rs -> SList ((SStr rs.rs_parent) :: ((SList
      (map e_aitem rs.rs_items)) :: []))) d.ad_rels)) :: ((match d.ad_attrs with
                                                           | Some l ->
                                                             SList
                                                               (map (fun a ->
                                                                 SList ((SStr
                                                                 a.at_feature) :: ((SStr
                                                                 a.at_name) :: (
                                                                 (e_adomain
                                                                   a.at_domain) :: (
                                                                 (e_avalue
                                                                   a.at_default) :: (
                                                                 (e_avalue
                                                                   a.at_null) :: []))))))
                                                                 l)
                                                           | None ->
                                                             SAtom
                                                               ('n'::('i'::('l'::[])))) :: ((
    match d.ad_ctcs with
    | Some l -> SList (map e_actc l)
    | None -> SAtom ('n'::('i'::('l'::[])))) :: [])))

(** val d_adoc : sexp -> adoc option **)

let d_adoc = function
| SList l ->
  (match l with
   | [] -> None
   | s0 :: l0 ->
     (match s0 with
      | SAtom _ ->
        (match l0 with
         | [] -> None
         | s2 :: l1 ->
           (match s2 with
            | SList rels0 ->
              (match l1 with
               | [] -> None
               | attrs :: l2 ->
                 (match l2 with
                  | [] -> None
                  | ctcs0 :: l3 ->
                    (match l3 with
                     | [] ->
                       let r =
                         omap (fun x ->
                           match x with
                           | SAtom _ -> None
                           | SStr _ -> None
                           | SList l4 ->
                             (match l4 with
                              | [] -> None
                              | s1 :: l5 ->
                                (match s1 with
                                 | SAtom _ -> None
                                 | SStr p ->
                                   (match l5 with
                                    | [] -> None
                                    | s3 :: l6 ->
                                      (match s3 with
                                       | SAtom _ -> None
                                       | SStr _ -> None
                                       | SList items ->
                                         (match l6 with
                                          | [] ->
                                            option_map (fun it ->
                                              { rs_parent = p; rs_items =
                                              it }) (omap d_aitem items)
                                          | _ :: _ -> None)))
                                 | SList _ -> None))) rels0
                       in
                       let a =
                         match attrs with
                         | SAtom _ -> Some None
                         | SStr _ -> None
                         | SList l4 ->
                           option_map (fun x -> Some x)
                             (omap (fun x ->
                               match x with
                               | SAtom _ -> None
                               | SStr _ -> None
                               | SList l5 ->
                                 (match l5 with
                                  | [] -> None
                                  | s1 :: l6 ->
                                    (match s1 with
                                     | SAtom _ -> None
                                     | SStr f ->
                                       (match l6 with
                                        | [] -> None
                                        | s3 :: l7 ->
                                          (match s3 with
                                           | SAtom _ -> None
                                           | SStr n0 ->
                                             (match l7 with
                                              | [] -> None
                                              | dm :: l8 ->
                                                (match l8 with
                                                 | [] -> None
                                                 | dv :: l9 ->
                                                   (match l9 with
                                                    | [] -> None
                                                    | nv :: l10 ->
                                                      (match l10 with
                                                       | [] ->
                                                         (match d_adomain dm with
                                                          | Some dm' ->
                                                            (match d_avalue dv with
                                                             | Some dv' ->
                                                               (match 
                                                                d_avalue nv with
                                                                | Some nv' ->
                                                                  Some
                                                                    { at_feature =
                                                                    f;
                                                                    at_name =
                                                                    n0;
                                                                    at_domain =
                                                                    dm';
                                                                    at_default =
                                                                    dv';
                                                                    at_null =
                                                                    nv' }
                                                                | None -> None)
                                                             | None -> None)
                                                          | None -> None)
                                                       | _ :: _ -> None))))
                                           | SList _ -> None))
                                     | SList _ -> None))) l4)
                       in
                       let c =
                         match ctcs0 with
                         | SAtom _ -> Some None
                         | SStr _ -> None
                         | SList l4 ->
                           option_map (fun x -> Some x) (omap d_actc l4)
                       in
                       (match r with
                        | Some r' ->
                          (match a with
                           | Some a' ->
                             (match c with
                              | Some c' ->
                                Some { ad_rels = r'; ad_attrs = a'; ad_ctcs =
                                  c' }
                              | None -> None)
                           | None -> None)
                        | None -> None)
                     | _ :: _ -> None)))
            | _ -> None))
      | _ -> None))
| _ -> None

(** val d_optnat : sexp -> nat option option **)

let d_optnat s = match s with
| SAtom s0 ->
  (match s0 with
   | [] -> (match d_nat s with
            | Some n0 -> Some (Some n0)
            | None -> None)
   | a::s1 ->
     (* If this appears, you're using Ascii internals. Please don't *)
 (fun f c ->
  let n = Char.code c in
  let h i = (n land (1 lsl i)) <> 0 in
  f (h 0) (h 1) (h 2) (h 3) (h 4) (h 5) (h 6) (h 7))
       (fun b b0 b1 b2 b3 b4 b5 b6 ->
       if b
       then (match d_nat s with
             | Some n0 -> Some (Some n0)
             | None -> None)
       else if b0
            then if b1
                 then if b2
                      then if b3
                           then (match d_nat s with
                                 | Some n0 -> Some (Some n0)
                                 | None -> None)
                           else if b4
                                then if b5
                                     then if b6
                                          then (match d_nat s with
                                                | Some n0 -> Some (Some n0)
                                                | None -> None)
                                          else (match s1 with
                                                | [] ->
                                                  (match d_nat s with
                                                   | Some n0 -> Some (Some n0)
                                                   | None -> None)
                                                | a0::s2 ->
                                                  (* If this appears, you're using Ascii internals. Please don't *)
 (fun f c ->
  let n = Char.code c in
  let h i = (n land (1 lsl i)) <> 0 in
  f (h 0) (h 1) (h 2) (h 3) (h 4) (h 5) (h 6) (h 7))
                                                    (fun b7 b8 b9 b10 b11 b12 b13 b14 ->
                                                    if b7
                                                    then if b8
                                                         then (match 
                                                               d_nat s with
                                                               | Some n0 ->
                                                                 Some (Some
                                                                   n0)
                                                               | None -> None)
                                                         else if b9
                                                              then (match 
                                                                    d_nat s with
                                                                    | Some n0 ->
                                                                    Some
                                                                    (Some n0)
                                                                    | None ->
                                                                    None)
                                                              else if b10
                                                                   then 
                                                                    if b11
                                                                    then 
                                                                    (match 
                                                                    d_nat s with
                                                                    | Some n0 ->
                                                                    Some
                                                                    (Some n0)
                                                                    | None ->
                                                                    None)
                                                                    else 
                                                                    if b12
                                                                    then 
                                                                    if b13
                                                                    then 
                                                                    if b14
                                                                    then 
                                                                    (match 
                                                                    d_nat s with
                                                                    | Some n0 ->
                                                                    Some
                                                                    (Some n0)
                                                                    | None ->
                                                                    None)
                                                                    else 
                                                                    (match s2 with
                                                                    | [] ->
                                                                    (match 
                                                                    d_nat s with
                                                                    | Some n0 ->
                                                                    Some
                                                                    (Some n0)
                                                                    | None ->
                                                                    None)
                                                                    | a1::s3 ->
                                                                    (* If this appears, you're using Ascii internals. Please don't *)
 (fun f c ->
  let n = Char.code c in
  let h i = (n land (1 lsl i)) <> 0 in
  f (h 0) (h 1) (h 2) (h 3) (h 4) (h 5) (h 6) (h 7))
                                                                    (fun b15 b16 b17 b18 b19 b20 b21 b22 ->
                                                                    if b15
                                                                    then 
                                                                    (match 
                                                                    d_nat s with
                                                                    | Some n0 ->
                                                                    Some
                                                                    (Some n0)
                                                                    | None ->
                                                                    None)
                                                                    else 
                                                                    if b16
                                                                    then 
                                                                    (match 
                                                                    d_nat s with
                                                                    | Some n0 ->
                                                                    Some
                                                                    (Some n0)
                                                                    | None ->
                                                                    None)
                                                                    else 
                                                                    if b17
                                                                    then 
                                                                    if b18
                                                                    then 
                                                                    if b19
                                                                    then 
                                                                    (match 
                                                                    d_nat s with
                                                                    | Some n0 ->
                                                                    Some
                                                                    (Some n0)
                                                                    | None ->
                                                                    None)
                                                                    else 
                                                                    if b20
                                                                    then 
                                                                    if b21
                                                                    then 
                                                                    if b22
                                                                    then 
                                                                    (match 
                                                                    d_nat s with
                                                                    | Some n0 ->
                                                                    Some
                                                                    (Some n0)
                                                                    | None ->
                                                                    None)
                                                                    else 
                                                                    (match s3 with
                                                                    | [] ->
                                                                    Some None
                                                                    | _::_ ->
                                                                    (match 
                                                                    d_nat s with
                                                                    | Some n0 ->
                                                                    Some
                                                                    (Some n0)
                                                                    | None ->
                                                                    None))
                                                                    else 
                                                                    (match 
                                                                    d_nat s with
                                                                    | Some n0 ->
                                                                    Some
                                                                    (Some n0)
                                                                    | None ->
                                                                    None)
                                                                    else 
                                                                    (match 
                                                                    d_nat s with
                                                                    | Some n0 ->
                                                                    Some
                                                                    (Some n0)
                                                                    | None ->
                                                                    None)
                                                                    else 
                                                                    (match 
                                                                    d_nat s with
                                                                    | Some n0 ->
                                                                    Some
                                                                    (Some n0)
                                                                    | None ->
                                                                    None)
                                                                    else 
                                                                    (match 
                                                                    d_nat s with
                                                                    | Some n0 ->
                                                                    Some
                                                                    (Some n0)
                                                                    | None ->
                                                                    None))
                                                                    a1)
                                                                    else 
                                                                    (match 
                                                                    d_nat s with
                                                                    | Some n0 ->
                                                                    Some
                                                                    (Some n0)
                                                                    | None ->
                                                                    None)
                                                                    else 
                                                                    (match 
                                                                    d_nat s with
                                                                    | Some n0 ->
                                                                    Some
                                                                    (Some n0)
                                                                    | None ->
                                                                    None)
                                                                   else 
                                                                    (match 
                                                                    d_nat s with
                                                                    | Some n0 ->
                                                                    Some
                                                                    (Some n0)
                                                                    | None ->
                                                                    None)
                                                    else (match d_nat s with
                                                          | Some n0 ->
                                                            Some (Some n0)
                                                          | None -> None))
                                                    a0)
                                     else (match d_nat s with
                                           | Some n0 -> Some (Some n0)
                                           | None -> None)
                                else (match d_nat s with
                                      | Some n0 -> Some (Some n0)
                                      | None -> None)
                      else (match d_nat s with
                            | Some n0 -> Some (Some n0)
                            | None -> None)
                 else (match d_nat s with
                       | Some n0 -> Some (Some n0)
                       | None -> None)
            else (match d_nat s with
                  | Some n0 -> Some (Some n0)
                  | None -> None))
       a)
| _ -> (match d_nat s with
        | Some n0 -> Some (Some n0)
        | None -> None)

(** val d_hop : sexp -> hop option **)

let d_hop = function
| SList l ->
  (match l with
   | [] -> None
   | s0 :: l0 ->
     (match s0 with
      | SAtom s1 ->
        (match s1 with
         | [] -> None
         | a::s2 ->
           (* If this appears, you're using Ascii internals. Please don't *)
 (fun f c ->
  let n = Char.code c in
  let h i = (n land (1 lsl i)) <> 0 in
  f (h 0) (h 1) (h 2) (h 3) (h 4) (h 5) (h 6) (h 7))
             (fun b b0 b1 b2 b3 b4 b5 b6 ->
             if b
             then if b0
                  then if b1
                       then None
                       else if b2
                            then None
                            else if b3
                                 then if b4
                                      then if b5
                                           then if b6
                                                then None
                                                else (match s2 with
                                                      | [] -> None
                                                      | a0::s3 ->
                                                        (* If this appears, you're using Ascii internals. Please don't *)
 (fun f c ->
  let n = Char.code c in
  let h i = (n land (1 lsl i)) <> 0 in
  f (h 0) (h 1) (h 2) (h 3) (h 4) (h 5) (h 6) (h 7))
                                                          (fun b7 b8 b9 b10 b11 b12 b13 b14 ->
                                                          if b7
                                                          then if b8
                                                               then None
                                                               else if b9
                                                                    then 
                                                                    if b10
                                                                    then None
                                                                    else 
                                                                    if b11
                                                                    then None
                                                                    else 
                                                                    if b12
                                                                    then 
                                                                    if b13
                                                                    then 
                                                                    if b14
                                                                    then None
                                                                    else 
                                                                    (match s3 with
                                                                    | [] ->
                                                                    None
                                                                    | a1::s4 ->
                                                                    (* If this appears, you're using Ascii internals. Please don't *)
 (fun f c ->
  let n = Char.code c in
  let h i = (n land (1 lsl i)) <> 0 in
  f (h 0) (h 1) (h 2) (h 3) (h 4) (h 5) (h 6) (h 7))
                                                                    (fun b15 b16 b17 b18 b19 b20 b21 b22 ->
                                                                    if b15
                                                                    then None
                                                                    else 
                                                                    if b16
                                                                    then None
                                                                    else 
                                                                    if b17
                                                                    then 
                                                                    if b18
                                                                    then None
                                                                    else 
                                                                    if b19
                                                                    then 
                                                                    if b20
                                                                    then 
                                                                    if b21
                                                                    then 
                                                                    if b22
                                                                    then None
                                                                    else 
                                                                    (match s4 with
                                                                    | [] ->
                                                                    None
                                                                    | a2::s5 ->
                                                                    (* If this appears, you're using Ascii internals. Please don't *)
 (fun f c ->
  let n = Char.code c in
  let h i = (n land (1 lsl i)) <> 0 in
  f (h 0) (h 1) (h 2) (h 3) (h 4) (h 5) (h 6) (h 7))
                                                                    (fun b23 b24 b25 b26 b27 b28 b29 b30 ->
                                                                    if b23
                                                                    then None
                                                                    else 
                                                                    if b24
                                                                    then None
                                                                    else 
                                                                    if b25
                                                                    then None
                                                                    else 
                                                                    if b26
                                                                    then None
                                                                    else 
                                                                    if b27
                                                                    then 
                                                                    if b28
                                                                    then 
                                                                    if b29
                                                                    then 
                                                                    if b30
                                                                    then None
                                                                    else 
                                                                    (match s5 with
                                                                    | [] ->
                                                                    None
                                                                    | a3::s6 ->
                                                                    (* If this appears, you're using Ascii internals. Please don't *)
 (fun f c ->
  let n = Char.code c in
  let h i = (n land (1 lsl i)) <> 0 in
  f (h 0) (h 1) (h 2) (h 3) (h 4) (h 5) (h 6) (h 7))
                                                                    (fun b31 b32 b33 b34 b35 b36 b37 b38 ->
                                                                    if b31
                                                                    then 
                                                                    if b32
                                                                    then None
                                                                    else 
                                                                    if b33
                                                                    then None
                                                                    else 
                                                                    if b34
                                                                    then None
                                                                    else 
                                                                    if b35
                                                                    then None
                                                                    else 
                                                                    if b36
                                                                    then 
                                                                    if b37
                                                                    then 
                                                                    if b38
                                                                    then None
                                                                    else 
                                                                    (match s6 with
                                                                    | [] ->
                                                                    None
                                                                    | a4::s7 ->
                                                                    (* If this appears, you're using Ascii internals. Please don't *)
 (fun f c ->
  let n = Char.code c in
  let h i = (n land (1 lsl i)) <> 0 in
  f (h 0) (h 1) (h 2) (h 3) (h 4) (h 5) (h 6) (h 7))
                                                                    (fun b39 b40 b41 b42 b43 b44 b45 b46 ->
                                                                    if b39
                                                                    then None
                                                                    else 
                                                                    if b40
                                                                    then 
                                                                    if b41
                                                                    then None
                                                                    else 
                                                                    if b42
                                                                    then None
                                                                    else 
                                                                    if b43
                                                                    then 
                                                                    if b44
                                                                    then 
                                                                    if b45
                                                                    then 
                                                                    if b46
                                                                    then None
                                                                    else 
                                                                    (match s7 with
                                                                    | [] ->
                                                                    None
                                                                    | a5::s8 ->
                                                                    (* If this appears, you're using Ascii internals. Please don't *)
 (fun f c ->
  let n = Char.code c in
  let h i = (n land (1 lsl i)) <> 0 in
  f (h 0) (h 1) (h 2) (h 3) (h 4) (h 5) (h 6) (h 7))
                                                                    (fun b47 b48 b49 b50 b51 b52 b53 b54 ->
                                                                    if b47
                                                                    then 
                                                                    if b48
                                                                    then None
                                                                    else 
                                                                    if b49
                                                                    then 
                                                                    if b50
                                                                    then None
                                                                    else 
                                                                    if b51
                                                                    then None
                                                                    else 
                                                                    if b52
                                                                    then 
                                                                    if b53
                                                                    then 
                                                                    if b54
                                                                    then None
                                                                    else 
                                                                    (match s8 with
                                                                    | [] ->
                                                                    None
                                                                    | a6::s9 ->
                                                                    (* If this appears, you're using Ascii internals. Please don't *)
 (fun f c ->
  let n = Char.code c in
  let h i = (n land (1 lsl i)) <> 0 in
  f (h 0) (h 1) (h 2) (h 3) (h 4) (h 5) (h 6) (h 7))
                                                                    (fun b55 b56 b57 b58 b59 b60 b61 b62 ->
                                                                    if b55
                                                                    then None
                                                                    else 
                                                                    if b56
                                                                    then 
                                                                    if b57
                                                                    then 
                                                                    if b58
                                                                    then 
                                                                    if b59
                                                                    then None
                                                                    else 
                                                                    if b60
                                                                    then 
                                                                    if b61
                                                                    then 
                                                                    if b62
                                                                    then None
                                                                    else 
                                                                    (match s9 with
                                                                    | [] ->
                                                                    None
                                                                    | a7::s10 ->
                                                                    (* If this appears, you're using Ascii internals. Please don't *)
 (fun f c ->
  let n = Char.code c in
  let h i = (n land (1 lsl i)) <> 0 in
  f (h 0) (h 1) (h 2) (h 3) (h 4) (h 5) (h 6) (h 7))
                                                                    (fun b63 b64 b65 b66 b67 b68 b69 b70 ->
                                                                    if b63
                                                                    then None
                                                                    else 
                                                                    if b64
                                                                    then None
                                                                    else 
                                                                    if b65
                                                                    then 
                                                                    if b66
                                                                    then None
                                                                    else 
                                                                    if b67
                                                                    then 
                                                                    if b68
                                                                    then 
                                                                    if b69
                                                                    then 
                                                                    if b70
                                                                    then None
                                                                    else 
                                                                    (match s10 with
                                                                    | [] ->
                                                                    (match l0 with
                                                                    | [] ->
                                                                    None
                                                                    | c :: l1 ->
                                                                    (match l1 with
                                                                    | [] ->
                                                                    None
                                                                    | p :: l2 ->
                                                                    (match l2 with
                                                                    | [] ->
                                                                    (match 
                                                                    d_nat c with
                                                                    | Some c' ->
                                                                    (match 
                                                                    d_optnat p with
                                                                    | Some p' ->
                                                                    Some
                                                                    (HSetParent
                                                                    (c', p'))
                                                                    | None ->
                                                                    None)
                                                                    | None ->
                                                                    None)
                                                                    | _ :: _ ->
                                                                    None)))
                                                                    | _::_ ->
                                                                    None)
                                                                    else None
                                                                    else None
                                                                    else None
                                                                    else None)
                                                                    a7)
                                                                    else None
                                                                    else None
                                                                    else None
                                                                    else None
                                                                    else None)
                                                                    a6)
                                                                    else None
                                                                    else None
                                                                    else None
                                                                    else None)
                                                                    a5)
                                                                    else None
                                                                    else None
                                                                    else None
                                                                    else None)
                                                                    a4)
                                                                    else None
                                                                    else None
                                                                    else None)
                                                                    a3)
                                                                    else None
                                                                    else None
                                                                    else None)
                                                                    a2)
                                                                    else None
                                                                    else None
                                                                    else None
                                                                    else None)
                                                                    a1)
                                                                    else None
                                                                    else None
                                                                    else None
                                                          else None)
                                                          a0)
                                           else None
                                      else None
                                 else None
                  else if b1
                       then None
                       else if b2
                            then None
                            else if b3
                                 then None
                                 else if b4
                                      then if b5
                                           then if b6
                                                then None
                                                else (match s2 with
                                                      | [] -> None
                                                      | a0::s3 ->
                                                        (* If this appears, you're using Ascii internals. Please don't *)
 (fun f c ->
  let n = Char.code c in
  let h i = (n land (1 lsl i)) <> 0 in
  f (h 0) (h 1) (h 2) (h 3) (h 4) (h 5) (h 6) (h 7))
                                                          (fun b7 b8 b9 b10 b11 b12 b13 b14 ->
                                                          if b7
                                                          then None
                                                          else if b8
                                                               then None
                                                               else if b9
                                                                    then 
                                                                    if b10
                                                                    then None
                                                                    else 
                                                                    if b11
                                                                    then None
                                                                    else 
                                                                    if b12
                                                                    then 
                                                                    if b13
                                                                    then 
                                                                    if b14
                                                                    then None
                                                                    else 
                                                                    (match s3 with
                                                                    | [] ->
                                                                    None
                                                                    | a1::s4 ->
                                                                    (* If this appears, you're using Ascii internals. Please don't *)
 (fun f c ->
  let n = Char.code c in
  let h i = (n land (1 lsl i)) <> 0 in
  f (h 0) (h 1) (h 2) (h 3) (h 4) (h 5) (h 6) (h 7))
                                                                    (fun b15 b16 b17 b18 b19 b20 b21 b22 ->
                                                                    if b15
                                                                    then None
                                                                    else 
                                                                    if b16
                                                                    then None
                                                                    else 
                                                                    if b17
                                                                    then 
                                                                    if b18
                                                                    then None
                                                                    else 
                                                                    if b19
                                                                    then None
                                                                    else 
                                                                    if b20
                                                                    then 
                                                                    if b21
                                                                    then 
                                                                    if b22
                                                                    then None
                                                                    else 
                                                                    (match s4 with
                                                                    | [] ->
                                                                    None
                                                                    | a2::s5 ->
                                                                    (* If this appears, you're using Ascii internals. Please don't *)
 (fun f c ->
  let n = Char.code c in
  let h i = (n land (1 lsl i)) <> 0 in
  f (h 0) (h 1) (h 2) (h 3) (h 4) (h 5) (h 6) (h 7))
                                                                    (fun b23 b24 b25 b26 b27 b28 b29 b30 ->
                                                                    if b23
                                                                    then 
                                                                    if b24
                                                                    then 
                                                                    if b25
                                                                    then None
                                                                    else 
                                                                    if b26
                                                                    then None
                                                                    else 
                                                                    if b27
                                                                    then None
                                                                    else 
                                                                    if b28
                                                                    then 
                                                                    if b29
                                                                    then 
                                                                    if b30
                                                                    then None
                                                                    else 
                                                                    (match s5 with
                                                                    | [] ->
                                                                    None
                                                                    | a3::s6 ->
                                                                    (* If this appears, you're using Ascii internals. Please don't *)
 (fun f c ->
  let n = Char.code c in
  let h i = (n land (1 lsl i)) <> 0 in
  f (h 0) (h 1) (h 2) (h 3) (h 4) (h 5) (h 6) (h 7))
                                                                    (fun b31 b32 b33 b34 b35 b36 b37 b38 ->
                                                                    if b31
                                                                    then None
                                                                    else 
                                                                    if b32
                                                                    then None
                                                                    else 
                                                                    if b33
                                                                    then None
                                                                    else 
                                                                    if b34
                                                                    then 
                                                                    if b35
                                                                    then None
                                                                    else 
                                                                    if b36
                                                                    then 
                                                                    if b37
                                                                    then 
                                                                    if b38
                                                                    then None
                                                                    else 
                                                                    (match s6 with
                                                                    | [] ->
                                                                    None
                                                                    | a4::s7 ->
                                                                    (* If this appears, you're using Ascii internals. Please don't *)
 (fun f c ->
  let n = Char.code c in
  let h i = (n land (1 lsl i)) <> 0 in
  f (h 0) (h 1) (h 2) (h 3) (h 4) (h 5) (h 6) (h 7))
                                                                    (fun b39 b40 b41 b42 b43 b44 b45 b46 ->
                                                                    if b39
                                                                    then 
                                                                    if b40
                                                                    then None
                                                                    else 
                                                                    if b41
                                                                    then None
                                                                    else 
                                                                    if b42
                                                                    then 
                                                                    if b43
                                                                    then None
                                                                    else 
                                                                    if b44
                                                                    then 
                                                                    if b45
                                                                    then 
                                                                    if b46
                                                                    then None
                                                                    else 
                                                                    (match s7 with
                                                                    | [] ->
                                                                    None
                                                                    | a5::s8 ->
                                                                    (* If this appears, you're using Ascii internals. Please don't *)
 (fun f c ->
  let n = Char.code c in
  let h i = (n land (1 lsl i)) <> 0 in
  f (h 0) (h 1) (h 2) (h 3) (h 4) (h 5) (h 6) (h 7))
                                                                    (fun b47 b48 b49 b50 b51 b52 b53 b54 ->
                                                                    if b47
                                                                    then None
                                                                    else 
                                                                    if b48
                                                                    then None
                                                                    else 
                                                                    if b49
                                                                    then 
                                                                    if b50
                                                                    then 
                                                                    if b51
                                                                    then None
                                                                    else 
                                                                    if b52
                                                                    then 
                                                                    if b53
                                                                    then 
                                                                    if b54
                                                                    then None
                                                                    else 
                                                                    (match s8 with
                                                                    | [] ->
                                                                    None
                                                                    | a6::s9 ->
                                                                    (* If this appears, you're using Ascii internals. Please don't *)
 (fun f c ->
  let n = Char.code c in
  let h i = (n land (1 lsl i)) <> 0 in
  f (h 0) (h 1) (h 2) (h 3) (h 4) (h 5) (h 6) (h 7))
                                                                    (fun b55 b56 b57 b58 b59 b60 b61 b62 ->
                                                                    if b55
                                                                    then None
                                                                    else 
                                                                    if b56
                                                                    then None
                                                                    else 
                                                                    if b57
                                                                    then 
                                                                    if b58
                                                                    then None
                                                                    else 
                                                                    if b59
                                                                    then None
                                                                    else 
                                                                    if b60
                                                                    then 
                                                                    if b61
                                                                    then 
                                                                    if b62
                                                                    then None
                                                                    else 
                                                                    (match s9 with
                                                                    | [] ->
                                                                    (match l0 with
                                                                    | [] ->
                                                                    None
                                                                    | f :: l1 ->
                                                                    (match l1 with
                                                                    | [] ->
                                                                    None
                                                                    | k :: l2 ->
                                                                    (match l2 with
                                                                    | [] ->
                                                                    None
                                                                    | c :: l3 ->
                                                                    (match l3 with
                                                                    | [] ->
                                                                    (match 
                                                                    d_nat f with
                                                                    | Some f' ->
                                                                    (match 
                                                                    d_nat k with
                                                                    | Some k' ->
                                                                    (match 
                                                                    d_nat c with
                                                                    | Some c' ->
                                                                    Some
                                                                    (HAddChild
                                                                    (f', k',
                                                                    c'))
                                                                    | None ->
                                                                    None)
                                                                    | None ->
                                                                    None)
                                                                    | None ->
                                                                    None)
                                                                    | _ :: _ ->
                                                                    None))))
                                                                    | _::_ ->
                                                                    None)
                                                                    else None
                                                                    else None
                                                                    else None)
                                                                    a6)
                                                                    else None
                                                                    else None
                                                                    else None
                                                                    else None)
                                                                    a5)
                                                                    else None
                                                                    else None
                                                                    else None
                                                                    else None)
                                                                    a4)
                                                                    else None
                                                                    else None
                                                                    else None)
                                                                    a3)
                                                                    else None
                                                                    else None
                                                                    else None
                                                                    else 
                                                                    if b24
                                                                    then 
                                                                    if b25
                                                                    then None
                                                                    else 
                                                                    if b26
                                                                    then None
                                                                    else 
                                                                    if b27
                                                                    then 
                                                                    if b28
                                                                    then 
                                                                    if b29
                                                                    then 
                                                                    if b30
                                                                    then None
                                                                    else 
                                                                    (match s5 with
                                                                    | [] ->
                                                                    None
                                                                    | a3::s6 ->
                                                                    (* If this appears, you're using Ascii internals. Please don't *)
 (fun f c ->
  let n = Char.code c in
  let h i = (n land (1 lsl i)) <> 0 in
  f (h 0) (h 1) (h 2) (h 3) (h 4) (h 5) (h 6) (h 7))
                                                                    (fun b31 b32 b33 b34 b35 b36 b37 b38 ->
                                                                    if b31
                                                                    then 
                                                                    if b32
                                                                    then None
                                                                    else 
                                                                    if b33
                                                                    then 
                                                                    if b34
                                                                    then None
                                                                    else 
                                                                    if b35
                                                                    then None
                                                                    else 
                                                                    if b36
                                                                    then 
                                                                    if b37
                                                                    then 
                                                                    if b38
                                                                    then None
                                                                    else 
                                                                    (match s6 with
                                                                    | [] ->
                                                                    None
                                                                    | a4::s7 ->
                                                                    (* If this appears, you're using Ascii internals. Please don't *)
 (fun f c ->
  let n = Char.code c in
  let h i = (n land (1 lsl i)) <> 0 in
  f (h 0) (h 1) (h 2) (h 3) (h 4) (h 5) (h 6) (h 7))
                                                                    (fun b39 b40 b41 b42 b43 b44 b45 b46 ->
                                                                    if b39
                                                                    then None
                                                                    else 
                                                                    if b40
                                                                    then None
                                                                    else 
                                                                    if b41
                                                                    then 
                                                                    if b42
                                                                    then 
                                                                    if b43
                                                                    then None
                                                                    else 
                                                                    if b44
                                                                    then 
                                                                    if b45
                                                                    then 
                                                                    if b46
                                                                    then None
                                                                    else 
                                                                    (match s7 with
                                                                    | [] ->
                                                                    (match l0 with
                                                                    | [] ->
                                                                    None
                                                                    | f :: l1 ->
                                                                    (match l1 with
                                                                    | [] ->
                                                                    None
                                                                    | rp :: l2 ->
                                                                    (match l2 with
                                                                    | [] ->
                                                                    None
                                                                    | mn :: l3 ->
                                                                    (match l3 with
                                                                    | [] ->
                                                                    None
                                                                    | mx :: l4 ->
                                                                    (match l4 with
                                                                    | [] ->
                                                                    None
                                                                    | s8 :: l5 ->
                                                                    (match s8 with
                                                                    | SList cs ->
                                                                    (match l5 with
                                                                    | [] ->
                                                                    (match 
                                                                    d_nat f with
                                                                    | Some f' ->
                                                                    (match 
                                                                    d_nat rp with
                                                                    | Some rp' ->
                                                                    (match 
                                                                    d_z mn with
                                                                    | Some a5 ->
                                                                    (match 
                                                                    d_z mx with
                                                                    | Some b47 ->
                                                                    (match 
                                                                    omap
                                                                    d_nat cs with
                                                                    | Some cs' ->
                                                                    Some
                                                                    (HAddRel
                                                                    (f', rp',
                                                                    a5, b47,
                                                                    cs'))
                                                                    | None ->
                                                                    None)
                                                                    | None ->
                                                                    None)
                                                                    | None ->
                                                                    None)
                                                                    | None ->
                                                                    None)
                                                                    | None ->
                                                                    None)
                                                                    | _ :: _ ->
                                                                    None)
                                                                    | _ ->
                                                                    None))))))
                                                                    | _::_ ->
                                                                    None)
                                                                    else None
                                                                    else None
                                                                    else None
                                                                    else None)
                                                                    a4)
                                                                    else None
                                                                    else None
                                                                    else None
                                                                    else None)
                                                                    a3)
                                                                    else None
                                                                    else None
                                                                    else None
                                                                    else None)
                                                                    a2)
                                                                    else None
                                                                    else None
                                                                    else None)
                                                                    a1)
                                                                    else None
                                                                    else None
                                                                    else None)
                                                          a0)
                                           else None
                                      else None
             else if b0
                  then if b1
                       then if b2
                            then if b3
                                 then None
                                 else if b4
                                      then if b5
                                           then if b6
                                                then None
                                                else (match s2 with
                                                      | [] -> None
                                                      | a0::s3 ->
                                                        (* If this appears, you're using Ascii internals. Please don't *)
 (fun f c ->
  let n = Char.code c in
  let h i = (n land (1 lsl i)) <> 0 in
  f (h 0) (h 1) (h 2) (h 3) (h 4) (h 5) (h 6) (h 7))
                                                          (fun b7 b8 b9 b10 b11 b12 b13 b14 ->
                                                          if b7
                                                          then if b8
                                                               then None
                                                               else if b9
                                                                    then 
                                                                    if b10
                                                                    then None
                                                                    else 
                                                                    if b11
                                                                    then None
                                                                    else 
                                                                    if b12
                                                                    then 
                                                                    if b13
                                                                    then 
                                                                    if b14
                                                                    then None
                                                                    else 
                                                                    (match s3 with
                                                                    | [] ->
                                                                    None
                                                                    | a1::s4 ->
                                                                    (* If this appears, you're using Ascii internals. Please don't *)
 (fun f c ->
  let n = Char.code c in
  let h i = (n land (1 lsl i)) <> 0 in
  f (h 0) (h 1) (h 2) (h 3) (h 4) (h 5) (h 6) (h 7))
                                                                    (fun b15 b16 b17 b18 b19 b20 b21 b22 ->
                                                                    if b15
                                                                    then 
                                                                    if b16
                                                                    then 
                                                                    if b17
                                                                    then 
                                                                    if b18
                                                                    then None
                                                                    else 
                                                                    if b19
                                                                    then 
                                                                    if b20
                                                                    then 
                                                                    if b21
                                                                    then 
                                                                    if b22
                                                                    then None
                                                                    else 
                                                                    (match s4 with
                                                                    | [] ->
                                                                    (match l0 with
                                                                    | [] ->
                                                                    None
                                                                    | s5 :: l1 ->
                                                                    (match s5 with
                                                                    | SStr nm ->
                                                                    (match l1 with
                                                                    | [] ->
                                                                    None
                                                                    | p :: l2 ->
                                                                    (match l2 with
                                                                    | [] ->
                                                                    (match 
                                                                    d_optnat p with
                                                                    | Some p' ->
                                                                    Some
                                                                    (HNew
                                                                    (nm, p'))
                                                                    | None ->
                                                                    None)
                                                                    | _ :: _ ->
                                                                    None))
                                                                    | _ ->
                                                                    None))
                                                                    | _::_ ->
                                                                    None)
                                                                    else None
                                                                    else None
                                                                    else None
                                                                    else None
                                                                    else None
                                                                    else None)
                                                                    a1)
                                                                    else None
                                                                    else None
                                                                    else None
                                                          else None)
                                                          a0)
                                           else None
                                      else None
                            else None
                       else None
                  else if b1
                       then if b2
                            then None
                            else if b3
                                 then None
                                 else if b4
                                      then if b5
                                           then if b6
                                                then None
                                                else (match s2 with
                                                      | [] -> None
                                                      | a0::s3 ->
                                                        (* If this appears, you're using Ascii internals. Please don't *)
 (fun f c ->
  let n = Char.code c in
  let h i = (n land (1 lsl i)) <> 0 in
  f (h 0) (h 1) (h 2) (h 3) (h 4) (h 5) (h 6) (h 7))
                                                          (fun b7 b8 b9 b10 b11 b12 b13 b14 ->
                                                          if b7
                                                          then if b8
                                                               then None
                                                               else if b9
                                                                    then 
                                                                    if b10
                                                                    then None
                                                                    else 
                                                                    if b11
                                                                    then None
                                                                    else 
                                                                    if b12
                                                                    then 
                                                                    if b13
                                                                    then 
                                                                    if b14
                                                                    then None
                                                                    else 
                                                                    (match s3 with
                                                                    | [] ->
                                                                    None
                                                                    | a1::s4 ->
                                                                    (* If this appears, you're using Ascii internals. Please don't *)
 (fun f c ->
  let n = Char.code c in
  let h i = (n land (1 lsl i)) <> 0 in
  f (h 0) (h 1) (h 2) (h 3) (h 4) (h 5) (h 6) (h 7))
                                                                    (fun b15 b16 b17 b18 b19 b20 b21 b22 ->
                                                                    if b15
                                                                    then None
                                                                    else 
                                                                    if b16
                                                                    then None
                                                                    else 
                                                                    if b17
                                                                    then 
                                                                    if b18
                                                                    then 
                                                                    if b19
                                                                    then None
                                                                    else 
                                                                    if b20
                                                                    then 
                                                                    if b21
                                                                    then 
                                                                    if b22
                                                                    then None
                                                                    else 
                                                                    (match s4 with
                                                                    | [] ->
                                                                    None
                                                                    | a2::s5 ->
                                                                    (* If this appears, you're using Ascii internals. Please don't *)
 (fun f c ->
  let n = Char.code c in
  let h i = (n land (1 lsl i)) <> 0 in
  f (h 0) (h 1) (h 2) (h 3) (h 4) (h 5) (h 6) (h 7))
                                                                    (fun b23 b24 b25 b26 b27 b28 b29 b30 ->
                                                                    if b23
                                                                    then None
                                                                    else 
                                                                    if b24
                                                                    then 
                                                                    if b25
                                                                    then None
                                                                    else 
                                                                    if b26
                                                                    then None
                                                                    else 
                                                                    if b27
                                                                    then 
                                                                    if b28
                                                                    then 
                                                                    if b29
                                                                    then 
                                                                    if b30
                                                                    then None
                                                                    else 
                                                                    (match s5 with
                                                                    | [] ->
                                                                    None
                                                                    | a3::s6 ->
                                                                    (* If this appears, you're using Ascii internals. Please don't *)
 (fun f c ->
  let n = Char.code c in
  let h i = (n land (1 lsl i)) <> 0 in
  f (h 0) (h 1) (h 2) (h 3) (h 4) (h 5) (h 6) (h 7))
                                                                    (fun b31 b32 b33 b34 b35 b36 b37 b38 ->
                                                                    if b31
                                                                    then 
                                                                    if b32
                                                                    then None
                                                                    else 
                                                                    if b33
                                                                    then 
                                                                    if b34
                                                                    then None
                                                                    else 
                                                                    if b35
                                                                    then None
                                                                    else 
                                                                    if b36
                                                                    then 
                                                                    if b37
                                                                    then 
                                                                    if b38
                                                                    then None
                                                                    else 
                                                                    (match s6 with
                                                                    | [] ->
                                                                    None
                                                                    | a4::s7 ->
                                                                    (* If this appears, you're using Ascii internals. Please don't *)
 (fun f c ->
  let n = Char.code c in
  let h i = (n land (1 lsl i)) <> 0 in
  f (h 0) (h 1) (h 2) (h 3) (h 4) (h 5) (h 6) (h 7))
                                                                    (fun b39 b40 b41 b42 b43 b44 b45 b46 ->
                                                                    if b39
                                                                    then None
                                                                    else 
                                                                    if b40
                                                                    then None
                                                                    else 
                                                                    if b41
                                                                    then 
                                                                    if b42
                                                                    then 
                                                                    if b43
                                                                    then None
                                                                    else 
                                                                    if b44
                                                                    then 
                                                                    if b45
                                                                    then 
                                                                    if b46
                                                                    then None
                                                                    else 
                                                                    (match s7 with
                                                                    | [] ->
                                                                    (match l0 with
                                                                    | [] ->
                                                                    None
                                                                    | f :: l1 ->
                                                                    (match l1 with
                                                                    | [] ->
                                                                    None
                                                                    | k :: l2 ->
                                                                    (match l2 with
                                                                    | [] ->
                                                                    (match 
                                                                    d_nat f with
                                                                    | Some f' ->
                                                                    (match 
                                                                    d_nat k with
                                                                    | Some k' ->
                                                                    Some
                                                                    (HDelRel
                                                                    (f', k'))
                                                                    | None ->
                                                                    None)
                                                                    | None ->
                                                                    None)
                                                                    | _ :: _ ->
                                                                    None)))
                                                                    | _::_ ->
                                                                    None)
                                                                    else None
                                                                    else None
                                                                    else None
                                                                    else None)
                                                                    a4)
                                                                    else None
                                                                    else None
                                                                    else None
                                                                    else None)
                                                                    a3)
                                                                    else None
                                                                    else None
                                                                    else None
                                                                    else None)
                                                                    a2)
                                                                    else None
                                                                    else None
                                                                    else None
                                                                    else None)
                                                                    a1)
                                                                    else None
                                                                    else None
                                                                    else None
                                                          else None)
                                                          a0)
                                           else None
                                      else None
                       else None)
             a)
      | _ -> None))
| _ -> None

(** val e_hrel : hrel -> sexp **)

let e_hrel r =
  e_tag ('r'::[])
    ((e_nat r.hr_owner) :: ((e_z r.hr_min) :: ((e_z r.hr_max) :: ((e_list
                                                                    e_nat
                                                                    r.hr_children) :: []))))

(** val e_heap : heap -> sexp **)

let e_heap h =
  SList
    (map (fun i ->
      e_tag ('f'::[]) ((SStr
        (h_name h i)) :: ((e_opt e_nat (h_parent h i)) :: ((e_list e_hrel
                                                             (h_rels h i)) :: (
        (e_list e_nat (h_children h i)) :: ((e_bool (h_is_root h i)) :: (
        (e_bool (h_is_leaf h i)) :: ((e_bool (h_is_mandatory h i)) :: (
        (e_bool (h_is_optional h i)) :: []))))))))) (seq O (length h)))

(** val e_names : feature list -> sexp **)

let e_names l =
  SList (map (fun f -> SStr (name f)) l)

(** val feature_flags : feature option -> feature -> bool list **)

let feature_flags p f =
  (feat_is_root p) :: ((feat_is_mandatory p f) :: ((feat_is_optional p f) :: (
    (feat_is_or_group f) :: ((feat_is_alternative_group f) :: ((feat_is_mutex_group
                                                                 f) :: (
    (feat_is_cardinality_group f) :: ((feat_is_group f) :: ((feat_is_multiple_group_decomposition
                                                              f) :: (
    (feat_is_leaf f) :: ((feat_is_boolean f) :: ((feat_is_numerical f) :: (
    (feat_is_string f) :: ((feat_is_multifeature f) :: ((feat_is_empty p f) :: []))))))))))))))

(** val relation_flags : relation -> bool list **)

let relation_flags r =
  (rel_is_mandatory r) :: ((rel_is_optional r) :: ((rel_is_or r) :: (
    (rel_is_alternative r) :: ((rel_is_mutex r) :: ((rel_is_cardinal r) :: (
    (rel_is_group r) :: []))))))

(** val index_of_name : char list -> feature list -> nat option **)

let index_of_name n0 l =
  let rec go i = function
  | [] -> None
  | f :: fs -> if eqb0 (name f) n0 then Some i else go (S i) fs
  in go O l

(** val op_queries : fm -> sexp **)

let op_queries m =
  let fs = get_features_ctx m in
  e_tag ('q'::[])
    ((e_tag ('f'::('e'::('a'::('t'::('u'::('r'::('e'::('s'::[]))))))))
       (map (fun pf -> SList ((SStr
         (name (snd pf))) :: ((e_opt (fun q -> SStr (name q)) (fst pf)) :: (
         (e_names (children (snd pf))) :: ((e_bits
                                             (feature_flags (fst pf) (snd pf))) :: [])))))
         fs)) :: ((e_tag
                    ('r'::('e'::('l'::('a'::('t'::('i'::('o'::('n'::('s'::[])))))))))
                    (map (fun pr -> SList ((SStr
                      (name (fst pr))) :: ((e_names (r_children (snd pr))) :: (
                      (e_z (r_min (snd pr))) :: ((e_z (r_max (snd pr))) :: (
                      (e_bits (relation_flags (snd pr))) :: ((SStr
                      (rel_str (name (fst pr)) (snd pr))) :: [])))))))
                      (subrelations_ctx m.root))) :: ((e_tag
                                                        ('l'::('i'::('s'::('t'::('i'::('n'::('g'::('s'::[]))))))))
                                                        ((e_tag
                                                           ('f'::('e'::('a'::('t'::('u'::('r'::('e'::('s'::[]))))))))
                                                           ((e_names
                                                              (get_features m)) :: [])) :: (
                                                        (e_tag
                                                          ('b'::('o'::('o'::('l'::('e'::('a'::('n'::[])))))))
                                                          ((e_names
                                                             (get_boolean_features
                                                               m)) :: [])) :: (
                                                        (e_tag
                                                          ('n'::('u'::('m'::('e'::('r'::('i'::('c'::('a'::('l'::[])))))))))
                                                          ((e_names
                                                             (get_numerical_features
                                                               m)) :: [])) :: (
                                                        (e_tag
                                                          ('s'::('t'::('r'::('i'::('n'::('g'::[]))))))
                                                          ((e_names
                                                             (get_string_features
                                                               m)) :: [])) :: (
                                                        (e_tag
                                                          ('m'::('a'::('n'::('d'::('a'::('t'::('o'::('r'::('y'::[])))))))))
                                                          ((e_names
                                                             (get_mandatory_features
                                                               m)) :: [])) :: (
                                                        (e_tag
                                                          ('o'::('p'::('t'::('i'::('o'::('n'::('a'::('l'::[]))))))))
                                                          ((e_names
                                                             (get_optional_features
                                                               m)) :: [])) :: (
                                                        (e_tag
                                                          ('a'::('l'::('t'::('e'::('r'::('n'::('a'::('t'::('i'::('v'::('e'::('_'::('g'::('r'::('o'::('u'::('p'::[])))))))))))))))))
                                                          ((e_names
                                                             (get_alternative_group_features
                                                               m)) :: [])) :: (
                                                        (e_tag
                                                          ('o'::('r'::('_'::('g'::('r'::('o'::('u'::('p'::[]))))))))
                                                          ((e_names
                                                             (get_or_group_features
                                                               m)) :: [])) :: []))))))))) :: (
    (e_tag ('l'::('o'::('o'::('k'::('u'::('p'::[]))))))
      (map (fun n0 -> SList ((SStr
        n0) :: ((e_opt e_nat (index_of_name n0 (get_features m))) :: [])))
        (app (map name (get_features m))
          (('_'::('_'::('n'::('o'::('_'::('s'::('u'::('c'::('h'::('_'::('f'::('e'::('a'::('t'::('u'::('r'::('e'::('_'::('_'::[]))))))))))))))))))) :: [])))) :: (
    (e_tag ('c'::('t'::('c'::('s'::[]))))
      ((e_tag ('l'::('o'::('g'::('i'::('c'::('a'::('l'::[])))))))
         ((e_result (e_list e_nat) (get_logical_constraints m)) :: [])) :: (
      (e_tag
        ('a'::('r'::('i'::('t'::('h'::('m'::('e'::('t'::('i'::('c'::[]))))))))))
        ((e_result (e_list e_nat) (get_arithmetic_constraints m)) :: [])) :: (
      (e_tag
        ('a'::('g'::('g'::('r'::('e'::('g'::('a'::('t'::('i'::('o'::('n'::('s'::[]))))))))))))
        ((e_result (e_list e_nat) (get_aggregations_constraints m)) :: [])) :: (
      (e_tag ('c'::('o'::('m'::('p'::('l'::('e'::('x'::[])))))))
        ((e_result (e_list e_nat) (get_complex_constraints m)) :: [])) :: (
      (e_tag ('s'::('i'::('m'::('p'::('l'::('e'::[]))))))
        ((e_result (e_list e_nat) (get_simple_constraints m)) :: [])) :: (
      (e_tag
        ('p'::('s'::('e'::('u'::('d'::('o'::('c'::('o'::('m'::('p'::('l'::('e'::('x'::[])))))))))))))
        ((e_result (e_list e_nat) (get_pseudocomplex_constraints m)) :: [])) :: (
      (e_tag
        ('s'::('t'::('r'::('i'::('c'::('t'::('c'::('o'::('m'::('p'::('l'::('e'::('x'::[])))))))))))))
        ((e_result (e_list e_nat) (get_strictcomplex_constraints m)) :: [])) :: (
      (e_tag ('e'::('x'::('c'::('l'::('u'::('d'::('e'::('s'::[]))))))))
        ((e_result (e_list e_nat) (get_excludes_constraints m)) :: [])) :: (
      (e_tag ('r'::('e'::('q'::('u'::('i'::('r'::('e'::('s'::[]))))))))
        ((e_result (e_list e_nat) (get_requires_constraints m)) :: [])) :: [])))))))))) :: [])))))

(** val e_rbool : bool result -> sexp **)

let e_rbool =
  e_result e_bool

(** val op_ctcq : node -> sexp **)

let op_ctcq n0 =
  e_tag ('k'::[])
    ((e_tag ('s'::('t'::('r'::[]))) ((SStr (node_str n0)) :: [])) :: (
    (e_tag ('p'::('r'::('e'::('t'::('t'::('y'::[]))))))
      ((e_result (fun x -> SStr x) (pretty_str n0)) :: [])) :: ((e_tag
                                                                  ('o'::('p'::('e'::('r'::('a'::('t'::('o'::('r'::('s'::[])))))))))
                                                                  ((SList
                                                                  (map
                                                                    (fun o ->
                                                                    SAtom
                                                                    (astop_value
                                                                    o))
                                                                    (get_operators
                                                                    n0))) :: [])) :: (
    (e_tag ('o'::('p'::('e'::('r'::('a'::('n'::('d'::('s'::[])))))))) ((SList
      (map e_ndata (get_operands n0))) :: [])) :: ((e_tag
                                                     ('f'::('e'::('a'::('t'::('u'::('r'::('e'::('s'::[]))))))))
                                                     ((SList
                                                     (map (fun x -> SStr x)
                                                       (ctc_features n0))) :: [])) :: (
    (e_tag ('l'::('o'::('g'::('i'::('c'::('a'::('l'::[])))))))
      ((e_bool (is_logical n0)) :: [])) :: ((e_tag
                                              ('a'::('r'::('i'::('t'::('h'::('m'::('e'::('t'::('i'::('c'::[]))))))))))
                                              ((e_bool (is_arithmetic n0)) :: [])) :: (
    (e_tag
      ('a'::('g'::('g'::('r'::('e'::('g'::('a'::('t'::('i'::('o'::('n'::[])))))))))))
      ((e_bool (is_aggregation n0)) :: [])) :: ((e_tag
                                                  ('s'::('i'::('n'::('g'::('l'::('e'::[]))))))
                                                  ((e_bool
                                                     (is_single_feature n0)) :: [])) :: (
    (e_tag ('r'::('e'::('q'::('u'::('i'::('r'::('e'::('s'::[]))))))))
      ((e_rbool (is_requires n0)) :: [])) :: ((e_tag
                                                ('e'::('x'::('c'::('l'::('u'::('d'::('e'::('s'::[]))))))))
                                                ((e_rbool (is_excludes n0)) :: [])) :: (
    (e_tag ('s'::('i'::('m'::('p'::('l'::('e'::[]))))))
      ((e_rbool (is_simple n0)) :: [])) :: ((e_tag
                                              ('c'::('o'::('m'::('p'::('l'::('e'::('x'::[])))))))
                                              ((e_rbool (is_complex n0)) :: [])) :: (
    (e_tag ('p'::('s'::('e'::('u'::('d'::('o'::[]))))))
      ((e_rbool (is_pseudocomplex n0)) :: [])) :: ((e_tag
                                                     ('s'::('t'::('r'::('i'::('c'::('t'::[]))))))
                                                     ((e_rbool
                                                        (is_strictcomplex n0)) :: [])) :: (
    (e_tag
      ('l'::('e'::('f'::('t'::('_'::('r'::('i'::('g'::('h'::('t'::[]))))))))))
      ((e_result (fun p -> SList
         ((e_ndata (fst p)) :: ((e_ndata (snd p)) :: []))) (left_right n0)) :: [])) :: (
    (e_tag ('s'::('p'::('l'::('i'::('t'::[])))))
      ((e_result (e_list e_node) (split_asts n0)) :: [])) :: ((e_tag
                                                                ('c'::('l'::('a'::('u'::('s'::('e'::('s'::[])))))))
                                                                ((e_result
                                                                   (e_list
                                                                    (e_list
                                                                    e_ndata))
                                                                   (get_clauses
                                                                    n0)) :: [])) :: []))))))))))))))))))

(** val op_ops : fm -> sexp **)

let op_ops m =
  e_tag ('o'::('p'::('s'::[])))
    ((e_tag ('e'::('s'::('t'::('i'::('m'::('a'::('t'::('e'::[]))))))))
       ((e_z (estimate m.root)) :: [])) :: ((e_tag
                                              ('c'::('o'::('r'::('e'::[]))))
                                              ((e_names
                                                 (core_features m.root)) :: [])) :: (
    (e_tag ('a'::('t'::('o'::('m'::('i'::('c'::[])))))) ((SList
      (map (fun s -> SList (map (fun x -> SStr x) s)) (atomic_sets m))) :: [])) :: (
    (e_tag
      ('c'::('o'::('u'::('n'::('t'::('_'::('l'::('e'::('a'::('f'::('s'::[])))))))))))
      ((e_z (count_leafs m)) :: [])) :: ((e_tag
                                           ('l'::('e'::('a'::('f'::('_'::('f'::('e'::('a'::('t'::('u'::('r'::('e'::('s'::[])))))))))))))
                                           ((e_names (leaf_features m)) :: [])) :: (
    (e_tag ('m'::('a'::('x'::('_'::('d'::('e'::('p'::('t'::('h'::[])))))))))
      ((e_z (max_depth_tree m)) :: [])) :: ((e_tag ('a'::('b'::('f'::[])))
                                              ((e_z
                                                 (average_branching_factor m)) :: [])) :: (
    (e_tag ('a'::('n'::('c'::('e'::('s'::('t'::('o'::('r'::('s'::[])))))))))
      ((SList
      (map (fun fa -> SList ((SStr
        (name (fst fa))) :: ((e_names (snd fa)) :: []))) (ancestors_table m))) :: [])) :: (
    (e_tag ('v'::('p'::('s'::[]))) ((SList
      (map (fun fv -> SList ((SStr
        (name (fst fv))) :: ((e_names (snd fv)) :: []))) (variation_points m))) :: [])) :: [])))))))))

(** val op_sem : fm -> sexp **)

let op_sem m =
  e_tag ('s'::('e'::('m'::[])))
    ((e_tag ('v'::('a'::('l'::('i'::('d'::[]))))) ((SList
       (map (fun s -> SList (map (fun x -> SStr x) s)) (valid_selections m))) :: [])) :: (
    (e_tag ('c'::('o'::('n'::('f'::('s'::[]))))) ((SList
      (map (fun b -> SList (map (fun x -> SStr x) (selected_names m.root b)))
        (confs m.root))) :: [])) :: []))

(** val e_matrix : ('a1 -> 'a2 -> bool) -> 'a1 list -> 'a2 list -> sexp **)

let e_matrix f l1 l2 =
  SList (map (fun a -> e_bits (map (f a) l2)) l1)

(** val hk_eqb :
    (((char list * char list list) * rkey list) * char list list) ->
    (((char list * char list list) * rkey list) * char list list) -> bool **)

let hk_eqb a b =
  let (p, c1) = a in
  let (p0, k1) = p in
  let (r1, f1) = p0 in
  let (p1, c2) = b in
  let (p2, k2) = p1 in
  let (r2, f2) = p2 in
  (&&)
    ((&&) ((&&) (eqb0 r1 r2) (list_eqb eqb0 f1 f2)) (list_eqb rkey_eqb k1 k2))
    (list_eqb eqb0 c1 c2)

(** val op_eqq : fm -> fm -> sexp **)

let op_eqq a b =
  e_tag ('e'::('q'::('q'::[])))
    ((e_tag ('e'::('q'::[])) ((e_bool (fm_eqb str_lower a b)) :: [])) :: (
    (e_tag ('e'::('q'::('_'::('s'::('y'::('m'::[]))))))
      ((e_bool (fm_eqb str_lower b a)) :: [])) :: ((e_tag
                                                     ('e'::('q'::('_'::('r'::('e'::('f'::('l'::[])))))))
                                                     ((e_bool
                                                        ((&&)
                                                          (fm_eqb str_lower a
                                                            a)
                                                          (fm_eqb str_lower b
                                                            b))) :: [])) :: (
    (e_tag ('h'::('a'::('s'::('h'::('_'::('e'::('q'::[])))))))
      ((e_bool (hk_eqb (fm_hash_key str_lower a) (fm_hash_key str_lower b))) :: [])) :: (
    (e_tag
      ('f'::('e'::('a'::('t'::('u'::('r'::('e'::('s'::('_'::('e'::('q'::[])))))))))))
      ((e_matrix feature_eqb (get_features a) (get_features b)) :: [])) :: (
    (e_tag
      ('r'::('e'::('l'::('a'::('t'::('i'::('o'::('n'::('s'::('_'::('e'::('q'::[]))))))))))))
      ((e_matrix relation_eqb (fm_relations a) (fm_relations b)) :: [])) :: (
    (e_tag
      ('r'::('e'::('l'::('a'::('t'::('i'::('o'::('n'::('s'::('_'::('h'::('a'::('s'::('h'::('_'::('e'::('q'::[])))))))))))))))))
      ((e_matrix (fun x y ->
         rkey_eqb (relation_hash_key x) (relation_hash_key y))
         (fm_relations a) (fm_relations b)) :: [])) :: ((e_tag
                                                          ('r'::('e'::('l'::('a'::('t'::('i'::('o'::('n'::('s'::('_'::('l'::('t'::[]))))))))))))
                                                          ((e_matrix
                                                             (fun x y ->
                                                             rkey_ltb
                                                               (relation_sort_key
                                                                 x)
                                                               (relation_sort_key
                                                                 y))
                                                             (fm_relations a)
                                                             (fm_relations b)) :: [])) :: (
    (e_tag ('c'::('t'::('c'::('s'::('_'::('e'::('q'::[])))))))
      ((e_matrix (ctc_eqb str_lower) a.ctcs b.ctcs) :: [])) :: [])))))))))

(** val e_mval : mval -> sexp **)

let e_mval = function
| MNames l ->
  e_tag ('n'::('a'::('m'::('e'::('s'::[]))))) ((SList
    (map (fun x -> SStr x) l)) :: [])
| MStr s -> e_tag ('s'::('t'::('r'::[]))) ((SStr s) :: [])
| MInt z0 -> e_tag ('i'::('n'::('t'::[]))) ((e_z z0) :: [])
| MHund h -> e_tag ('h'::('u'::('n'::('d'::[])))) ((e_z h) :: [])

(** val e_entry : entry -> sexp **)

let e_entry e =
  SList ((SStr e.me_method) :: ((SStr
    e.me_name) :: ((e_mval e.me_result) :: ((e_opt e_z e.me_size) :: (
    (e_opt e_z e.me_ratio) :: ((e_opt (fun x -> SStr x) e.me_parent) :: (
    (e_z e.me_level) :: [])))))))

(** val e_sels : char list list list -> sexp **)

let e_sels l =
  SList (map (fun s -> SList (map (fun x -> SStr x) s)) l)

(** val op_export_sat : fm -> sexp **)

let op_export_sat m =
  let subsets = all_subsets (names m.root) in
  e_tag
    ('e'::('x'::('p'::('o'::('r'::('t'::('_'::('s'::('a'::('t'::[]))))))))))
    ((e_tag ('s'::('p'::('l'::('o'::('t'::[])))))
       ((e_result (fun d ->
          e_sels
            (filter (fun sel ->
              (&&) (sigma_of sel (name m.root)) (sxfm_sat (sigma_of sel) d))
              subsets)) (splot_write m)) :: [])) :: ((e_tag ('p'::('l'::[]))
                                                       ((e_result (fun d ->
                                                          e_sels
                                                            (filter
                                                              (fun sel ->
                                                              pl_sat
                                                                (sigma_of sel)
                                                                d) subsets))
                                                          (pl_write m)) :: [])) :: (
    (e_tag ('c'::('l'::('a'::('f'::('e'::('r'::[]))))))
      ((e_result (fun d ->
         e_sels
           (filter (fun sel ->
             clafer_sat (fun n0 ->
               existsb (fun s -> eqb0 (cl_safename s) n0) sel) d) subsets))
         (clafer_write m)) :: [])) :: [])))

(** val d_draw : sexp -> draw option **)

let d_draw = function
| SList l ->
  (match l with
   | [] -> None
   | s0 :: l0 ->
     (match s0 with
      | SAtom k ->
        (match l0 with
         | [] -> None
         | a :: l1 ->
           (match l1 with
            | [] ->
              if eqb0 k ('c'::[])
              then option_map (fun x -> DChoice x) (d_nat a)
              else if eqb0 k ('r'::[])
                   then option_map (fun x -> DRandint x) (d_z a)
                   else None
            | b :: l2 ->
              (match l2 with
               | [] ->
                 (match d_z a with
                  | Some x ->
                    (match d_z b with
                     | Some y -> Some (DUniform (x, y))
                     | None -> None)
                  | None -> None)
               | _ :: _ -> None)))
      | _ -> None))
| _ -> None

(** val bad : char list -> sexp **)

let bad msg =
  e_tag
    ('b'::('a'::('d'::('-'::('r'::('e'::('q'::('u'::('e'::('s'::('t'::[])))))))))))
    ((SStr msg) :: [])

(** val dispatch : sexp -> sexp **)

let dispatch = function
| SList l ->
  (match l with
   | [] -> bad ('s'::('h'::('a'::('p'::('e'::[])))))
   | s :: args ->
     (match s with
      | SAtom op ->
        if eqb0 op ('q'::('u'::('e'::('r'::('i'::('e'::('s'::[])))))))
        then (match args with
              | [] -> bad ('a'::('r'::('i'::('t'::('y'::[])))))
              | m :: l0 ->
                (match l0 with
                 | [] ->
                   (match d_fm m with
                    | Some m' -> op_queries m'
                    | None -> bad ('f'::('m'::[])))
                 | _ :: _ -> bad ('a'::('r'::('i'::('t'::('y'::[])))))))
        else if eqb0 op ('c'::('t'::('c'::('q'::[]))))
             then (match args with
                   | [] -> bad ('a'::('r'::('i'::('t'::('y'::[])))))
                   | n0 :: l0 ->
                     (match l0 with
                      | [] ->
                        (match d_node n0 with
                         | Some n' -> op_ctcq n'
                         | None -> bad ('n'::('o'::('d'::('e'::[])))))
                      | _ :: _ -> bad ('a'::('r'::('i'::('t'::('y'::[])))))))
             else if eqb0 op ('o'::('p'::('s'::[])))
                  then (match args with
                        | [] -> bad ('a'::('r'::('i'::('t'::('y'::[])))))
                        | m :: l0 ->
                          (match l0 with
                           | [] ->
                             (match d_fm m with
                              | Some m' -> op_ops m'
                              | None -> bad ('f'::('m'::[])))
                           | _ :: _ ->
                             bad ('a'::('r'::('i'::('t'::('y'::[])))))))
                  else if eqb0 op ('s'::('e'::('m'::[])))
                       then (match args with
                             | [] -> bad ('a'::('r'::('i'::('t'::('y'::[])))))
                             | m :: l0 ->
                               (match l0 with
                                | [] ->
                                  (match d_fm m with
                                   | Some m' -> op_sem m'
                                   | None -> bad ('f'::('m'::[])))
                                | _ :: _ ->
                                  bad ('a'::('r'::('i'::('t'::('y'::[])))))))
                       else if eqb0 op ('e'::('q'::('q'::[])))
                            then (match args with
                                  | [] ->
                                    bad ('a'::('r'::('i'::('t'::('y'::[])))))
                                  | m1 :: l0 ->
                                    (match l0 with
                                     | [] ->
                                       bad
                                         ('a'::('r'::('i'::('t'::('y'::[])))))
                                     | m2 :: l1 ->
                                       (match l1 with
                                        | [] ->
                                          (match d_fm m1 with
                                           | Some a ->
                                             (match d_fm m2 with
                                              | Some b -> op_eqq a b
                                              | None -> bad ('f'::('m'::[])))
                                           | None -> bad ('f'::('m'::[])))
                                        | _ :: _ ->
                                          bad
                                            ('a'::('r'::('i'::('t'::('y'::[]))))))))
                            else if eqb0 op
                                      ('j'::('s'::('o'::('n'::('_'::('w'::('r'::('i'::('t'::('e'::[]))))))))))
                                 then (match args with
                                       | [] ->
                                         bad
                                           ('a'::('r'::('i'::('t'::('y'::[])))))
                                       | m :: l0 ->
                                         (match l0 with
                                          | [] ->
                                            (match d_fm m with
                                             | Some m' ->
                                               e_result e_aval (json_write m')
                                             | None -> bad ('f'::('m'::[])))
                                          | _ :: _ ->
                                            bad
                                              ('a'::('r'::('i'::('t'::('y'::[])))))))
                                 else if eqb0 op
                                           ('j'::('s'::('o'::('n'::('_'::('r'::('e'::('a'::('d'::[])))))))))
                                      then (match args with
                                            | [] ->
                                              bad
                                                ('a'::('r'::('i'::('t'::('y'::[])))))
                                            | v :: l0 ->
                                              (match l0 with
                                               | [] ->
                                                 (match d_aval v with
                                                  | Some v' ->
                                                    e_result e_pfm
                                                      (json_read v')
                                                  | None ->
                                                    bad
                                                      ('a'::('v'::('a'::('l'::[])))))
                                               | _ :: _ ->
                                                 bad
                                                   ('a'::('r'::('i'::('t'::('y'::[])))))))
                                      else if eqb0 op
                                                ('g'::('l'::('e'::('n'::('c'::('o'::('e'::('_'::('w'::('r'::('i'::('t'::('e'::[])))))))))))))
                                           then (match args with
                                                 | [] ->
                                                   bad
                                                     ('a'::('r'::('i'::('t'::('y'::[])))))
                                                 | m :: l0 ->
                                                   (match l0 with
                                                    | [] ->
                                                      (match d_fm m with
                                                       | Some m' ->
                                                         e_result e_aval
                                                           (glencoe_write m')
                                                       | None ->
                                                         bad ('f'::('m'::[])))
                                                    | _ :: _ ->
                                                      bad
                                                        ('a'::('r'::('i'::('t'::('y'::[])))))))
                                           else if eqb0 op
                                                     ('g'::('l'::('e'::('n'::('c'::('o'::('e'::('_'::('r'::('e'::('a'::('d'::[]))))))))))))
                                                then (match args with
                                                      | [] ->
                                                        bad
                                                          ('a'::('r'::('i'::('t'::('y'::[])))))
                                                      | v :: l0 ->
                                                        (match l0 with
                                                         | [] ->
                                                           (match d_aval v with
                                                            | Some v' ->
                                                              e_result e_pfm
                                                                (glencoe_read
                                                                  v')
                                                            | None ->
                                                              bad
                                                                ('a'::('v'::('a'::('l'::[])))))
                                                         | _ :: _ ->
                                                           bad
                                                             ('a'::('r'::('i'::('t'::('y'::[])))))))
                                                else if eqb0 op
                                                          ('f'::('i'::('d'::('e'::('_'::('w'::('r'::('i'::('t'::('e'::[]))))))))))
                                                     then (match args with
                                                           | [] ->
                                                             bad
                                                               ('a'::('r'::('i'::('t'::('y'::[])))))
                                                           | m :: l0 ->
                                                             (match l0 with
                                                              | [] ->
                                                                (match 
                                                                 d_fm m with
                                                                 | Some m' ->
                                                                   e_result
                                                                    e_xml
                                                                    (fide_write
                                                                    m')
                                                                 | None ->
                                                                   bad
                                                                    ('f'::('m'::[])))
                                                              | _ :: _ ->
                                                                bad
                                                                  ('a'::('r'::('i'::('t'::('y'::[])))))))
                                                     else if eqb0 op
                                                               ('f'::('i'::('d'::('e'::('_'::('r'::('e'::('a'::('d'::[])))))))))
                                                          then (match args with
                                                                | [] ->
                                                                  bad
                                                                    ('a'::('r'::('i'::('t'::('y'::[])))))
                                                                | v :: l0 ->
                                                                  (match l0 with
                                                                   | [] ->
                                                                    (match 
                                                                    d_xml v with
                                                                    | Some v' ->
                                                                    e_result
                                                                    e_pfm
                                                                    (fide_read
                                                                    v')
                                                                    | None ->
                                                                    bad
                                                                    ('x'::('m'::('l'::[]))))
                                                                   | _ :: _ ->
                                                                    bad
                                                                    ('a'::('r'::('i'::('t'::('y'::[])))))))
                                                          else if eqb0 op
                                                                    ('f'::('a'::('m'::('a'::('_'::('r'::('e'::('a'::('d'::[])))))))))
                                                               then (match args with
                                                                    | [] ->
                                                                    bad
                                                                    ('a'::('r'::('i'::('t'::('y'::[])))))
                                                                    | v :: l0 ->
                                                                    (match l0 with
                                                                    | [] ->
                                                                    (match 
                                                                    d_xml v with
                                                                    | Some v' ->
                                                                    e_result
                                                                    e_pfm
                                                                    (fama_read
                                                                    v')
                                                                    | None ->
                                                                    bad
                                                                    ('x'::('m'::('l'::[]))))
                                                                    | _ :: _ ->
                                                                    bad
                                                                    ('a'::('r'::('i'::('t'::('y'::[])))))))
                                                               else if 
                                                                    eqb0 op
                                                                    ('m'::('e'::('t'::('r'::('i'::('c'::('s'::[])))))))
                                                                    then 
                                                                    (match args with
                                                                    | [] ->
                                                                    bad
                                                                    ('a'::('r'::('i'::('t'::('y'::[])))))
                                                                    | flt :: l0 ->
                                                                    (match l0 with
                                                                    | [] ->
                                                                    bad
                                                                    ('a'::('r'::('i'::('t'::('y'::[])))))
                                                                    | m :: l1 ->
                                                                    (match l1 with
                                                                    | [] ->
                                                                    (match 
                                                                    d_fm m with
                                                                    | Some m' ->
                                                                    let f =
                                                                    match flt with
                                                                    | SAtom _ ->
                                                                    Some None
                                                                    | SStr _ ->
                                                                    Some None
                                                                    | SList l2 ->
                                                                    option_map
                                                                    (fun x ->
                                                                    Some x)
                                                                    (omap
                                                                    d_str l2)
                                                                    in
                                                                    (
                                                                    match f with
                                                                    | Some f' ->
                                                                    e_result
                                                                    (e_list
                                                                    e_entry)
                                                                    (report
                                                                    m' f')
                                                                    | None ->
                                                                    bad
                                                                    ('f'::('i'::('l'::('t'::('e'::('r'::[])))))))
                                                                    | None ->
                                                                    bad
                                                                    ('f'::('m'::[])))
                                                                    | _ :: _ ->
                                                                    bad
                                                                    ('a'::('r'::('i'::('t'::('y'::[]))))))))
                                                                    else 
                                                                    if 
                                                                    eqb0 op
                                                                    ('u'::('v'::('l'::('_'::('w'::('r'::('i'::('t'::('e'::[])))))))))
                                                                    then 
                                                                    (match args with
                                                                    | [] ->
                                                                    bad
                                                                    ('a'::('r'::('i'::('t'::('y'::[])))))
                                                                    | m :: l0 ->
                                                                    (match l0 with
                                                                    | [] ->
                                                                    (match 
                                                                    d_fm m with
                                                                    | Some m' ->
                                                                    e_result
                                                                    (fun x ->
                                                                    SStr x)
                                                                    (uvl_write
                                                                    m')
                                                                    | None ->
                                                                    bad
                                                                    ('f'::('m'::[])))
                                                                    | _ :: _ ->
                                                                    bad
                                                                    ('a'::('r'::('i'::('t'::('y'::[])))))))
                                                                    else 
                                                                    if 
                                                                    eqb0 op
                                                                    ('u'::('v'::('l'::('_'::('c'::('s'::('t'::[])))))))
                                                                    then 
                                                                    (match args with
                                                                    | [] ->
                                                                    bad
                                                                    ('a'::('r'::('i'::('t'::('y'::[])))))
                                                                    | m :: l0 ->
                                                                    (match l0 with
                                                                    | [] ->
                                                                    (match 
                                                                    d_fm m with
                                                                    | Some m' ->
                                                                    e_result
                                                                    e_udoc
                                                                    (cst_of_fm
                                                                    m')
                                                                    | None ->
                                                                    bad
                                                                    ('f'::('m'::[])))
                                                                    | _ :: _ ->
                                                                    bad
                                                                    ('a'::('r'::('i'::('t'::('y'::[])))))))
                                                                    else 
                                                                    if 
                                                                    eqb0 op
                                                                    ('u'::('v'::('l'::('_'::('r'::('e'::('a'::('d'::('_'::('c'::('s'::('t'::[]))))))))))))
                                                                    then 
                                                                    (match args with
                                                                    | [] ->
                                                                    bad
                                                                    ('a'::('r'::('i'::('t'::('y'::[])))))
                                                                    | c :: l0 ->
                                                                    (match l0 with
                                                                    | [] ->
                                                                    (match 
                                                                    d_udoc c with
                                                                    | Some c' ->
                                                                    e_result
                                                                    e_pfm
                                                                    (uvl_read_cst
                                                                    c')
                                                                    | None ->
                                                                    bad
                                                                    ('u'::('d'::('o'::('c'::[])))))
                                                                    | _ :: _ ->
                                                                    bad
                                                                    ('a'::('r'::('i'::('t'::('y'::[])))))))
                                                                    else 
                                                                    if 
                                                                    eqb0 op
                                                                    ('u'::('v'::('l'::('_'::('r'::('e'::('n'::('d'::('e'::('r'::[]))))))))))
                                                                    then 
                                                                    (match args with
                                                                    | [] ->
                                                                    bad
                                                                    ('a'::('r'::('i'::('t'::('y'::[])))))
                                                                    | c :: l0 ->
                                                                    (match l0 with
                                                                    | [] ->
                                                                    (match 
                                                                    d_udoc c with
                                                                    | Some c' ->
                                                                    SStr
                                                                    (render
                                                                    c')
                                                                    | None ->
                                                                    bad
                                                                    ('u'::('d'::('o'::('c'::[])))))
                                                                    | _ :: _ ->
                                                                    bad
                                                                    ('a'::('r'::('i'::('t'::('y'::[])))))))
                                                                    else 
                                                                    if 
                                                                    eqb0 op
                                                                    ('a'::('f'::('m'::('_'::('w'::('r'::('i'::('t'::('e'::[])))))))))
                                                                    then 
                                                                    (match args with
                                                                    | [] ->
                                                                    bad
                                                                    ('a'::('r'::('i'::('t'::('y'::[])))))
                                                                    | m :: l0 ->
                                                                    (match l0 with
                                                                    | [] ->
                                                                    (match 
                                                                    d_fm m with
                                                                    | Some m' ->
                                                                    e_result
                                                                    (fun x ->
                                                                    SStr x)
                                                                    (afm_write
                                                                    m')
                                                                    | None ->
                                                                    bad
                                                                    ('f'::('m'::[])))
                                                                    | _ :: _ ->
                                                                    bad
                                                                    ('a'::('r'::('i'::('t'::('y'::[])))))))
                                                                    else 
                                                                    if 
                                                                    eqb0 op
                                                                    ('a'::('f'::('m'::('_'::('c'::('s'::('t'::[])))))))
                                                                    then 
                                                                    (match args with
                                                                    | [] ->
                                                                    bad
                                                                    ('a'::('r'::('i'::('t'::('y'::[])))))
                                                                    | m :: l0 ->
                                                                    (match l0 with
                                                                    | [] ->
                                                                    (match 
                                                                    d_fm m with
                                                                    | Some m' ->
                                                                    e_result
                                                                    e_adoc
                                                                    (afm_cst
                                                                    m')
                                                                    | None ->
                                                                    bad
                                                                    ('f'::('m'::[])))
                                                                    | _ :: _ ->
                                                                    bad
                                                                    ('a'::('r'::('i'::('t'::('y'::[])))))))
                                                                    else 
                                                                    if 
                                                                    eqb0 op
                                                                    ('a'::('f'::('m'::('_'::('r'::('e'::('a'::('d'::('_'::('c'::('s'::('t'::[]))))))))))))
                                                                    then 
                                                                    (match args with
                                                                    | [] ->
                                                                    bad
                                                                    ('a'::('r'::('i'::('t'::('y'::[])))))
                                                                    | c :: l0 ->
                                                                    (match l0 with
                                                                    | [] ->
                                                                    (match 
                                                                    d_adoc c with
                                                                    | Some c' ->
                                                                    e_result
                                                                    e_pfm
                                                                    (afm_read_cst
                                                                    c')
                                                                    | None ->
                                                                    bad
                                                                    ('a'::('d'::('o'::('c'::[])))))
                                                                    | _ :: _ ->
                                                                    bad
                                                                    ('a'::('r'::('i'::('t'::('y'::[])))))))
                                                                    else 
                                                                    if 
                                                                    eqb0 op
                                                                    ('s'::('p'::('l'::('o'::('t'::('_'::('t'::('e'::('x'::('t'::[]))))))))))
                                                                    then 
                                                                    (match args with
                                                                    | [] ->
                                                                    bad
                                                                    ('a'::('r'::('i'::('t'::('y'::[])))))
                                                                    | m :: l0 ->
                                                                    (match l0 with
                                                                    | [] ->
                                                                    (match 
                                                                    d_fm m with
                                                                    | Some m' ->
                                                                    e_result
                                                                    (fun x ->
                                                                    SStr x)
                                                                    (splot_text
                                                                    m')
                                                                    | None ->
                                                                    bad
                                                                    ('f'::('m'::[])))
                                                                    | _ :: _ ->
                                                                    bad
                                                                    ('a'::('r'::('i'::('t'::('y'::[])))))))
                                                                    else 
                                                                    if 
                                                                    eqb0 op
                                                                    ('p'::('l'::('_'::('l'::('i'::('n'::('e'::('s'::[]))))))))
                                                                    then 
                                                                    (match args with
                                                                    | [] ->
                                                                    bad
                                                                    ('a'::('r'::('i'::('t'::('y'::[])))))
                                                                    | m :: l0 ->
                                                                    (match l0 with
                                                                    | [] ->
                                                                    (match 
                                                                    d_fm m with
                                                                    | Some m' ->
                                                                    e_result
                                                                    (e_list
                                                                    (fun x ->
                                                                    SStr x))
                                                                    (pl_lines
                                                                    m')
                                                                    | None ->
                                                                    bad
                                                                    ('f'::('m'::[])))
                                                                    | _ :: _ ->
                                                                    bad
                                                                    ('a'::('r'::('i'::('t'::('y'::[])))))))
                                                                    else 
                                                                    if 
                                                                    eqb0 op
                                                                    ('c'::('l'::('a'::('f'::('e'::('r'::('_'::('t'::('e'::('x'::('t'::[])))))))))))
                                                                    then 
                                                                    (match args with
                                                                    | [] ->
                                                                    bad
                                                                    ('a'::('r'::('i'::('t'::('y'::[])))))
                                                                    | m :: l0 ->
                                                                    (match l0 with
                                                                    | [] ->
                                                                    (match 
                                                                    d_fm m with
                                                                    | Some m' ->
                                                                    e_result
                                                                    (fun x ->
                                                                    SStr x)
                                                                    (clafer_text
                                                                    m')
                                                                    | None ->
                                                                    bad
                                                                    ('f'::('m'::[])))
                                                                    | _ :: _ ->
                                                                    bad
                                                                    ('a'::('r'::('i'::('t'::('y'::[])))))))
                                                                    else 
                                                                    if 
                                                                    eqb0 op
                                                                    ('e'::('x'::('p'::('o'::('r'::('t'::('_'::('s'::('a'::('t'::[]))))))))))
                                                                    then 
                                                                    (match args with
                                                                    | [] ->
                                                                    bad
                                                                    ('a'::('r'::('i'::('t'::('y'::[])))))
                                                                    | m :: l0 ->
                                                                    (match l0 with
                                                                    | [] ->
                                                                    (match 
                                                                    d_fm m with
                                                                    | Some m' ->
                                                                    op_export_sat
                                                                    m'
                                                                    | None ->
                                                                    bad
                                                                    ('f'::('m'::[])))
                                                                    | _ :: _ ->
                                                                    bad
                                                                    ('a'::('r'::('i'::('t'::('y'::[])))))))
                                                                    else 
                                                                    if 
                                                                    eqb0 op
                                                                    ('g'::('e'::('n'::('r'::('a'::('n'::('d'::('o'::('m'::[])))))))))
                                                                    then 
                                                                    (match args with
                                                                    | [] ->
                                                                    bad
                                                                    ('a'::('r'::('i'::('t'::('y'::[])))))
                                                                    | s0 :: l0 ->
                                                                    (match s0 with
                                                                    | SStr nm ->
                                                                    (match l0 with
                                                                    | [] ->
                                                                    bad
                                                                    ('a'::('r'::('i'::('t'::('y'::[])))))
                                                                    | dom :: l1 ->
                                                                    (match l1 with
                                                                    | [] ->
                                                                    bad
                                                                    ('a'::('r'::('i'::('t'::('y'::[])))))
                                                                    | ol :: l2 ->
                                                                    (match l2 with
                                                                    | [] ->
                                                                    bad
                                                                    ('a'::('r'::('i'::('t'::('y'::[])))))
                                                                    | s1 :: l3 ->
                                                                    (match s1 with
                                                                    | SList draws ->
                                                                    (match l3 with
                                                                    | [] ->
                                                                    bad
                                                                    ('a'::('r'::('i'::('t'::('y'::[])))))
                                                                    | m :: l4 ->
                                                                    (match l4 with
                                                                    | [] ->
                                                                    let dom' =
                                                                    if 
                                                                    is_nil dom
                                                                    then 
                                                                    Some None
                                                                    else 
                                                                    (match 
                                                                    d_domain
                                                                    dom with
                                                                    | Some x ->
                                                                    Some
                                                                    (Some x)
                                                                    | None ->
                                                                    None)
                                                                    in
                                                                    (
                                                                    match dom' with
                                                                    | Some dm ->
                                                                    (match 
                                                                    d_bool ol with
                                                                    | Some b ->
                                                                    (match 
                                                                    omap
                                                                    d_draw
                                                                    draws with
                                                                    | Some dr ->
                                                                    (match 
                                                                    d_fm m with
                                                                    | Some m' ->
                                                                    e_result
                                                                    e_fm
                                                                    (gen_random_attribute
                                                                    nm dm b
                                                                    dr m')
                                                                    | None ->
                                                                    bad
                                                                    ('g'::('e'::('n'::('r'::('a'::('n'::('d'::('o'::('m'::(' '::('a'::('r'::('g'::('s'::[])))))))))))))))
                                                                    | None ->
                                                                    bad
                                                                    ('g'::('e'::('n'::('r'::('a'::('n'::('d'::('o'::('m'::(' '::('a'::('r'::('g'::('s'::[])))))))))))))))
                                                                    | None ->
                                                                    bad
                                                                    ('g'::('e'::('n'::('r'::('a'::('n'::('d'::('o'::('m'::(' '::('a'::('r'::('g'::('s'::[])))))))))))))))
                                                                    | None ->
                                                                    bad
                                                                    ('g'::('e'::('n'::('r'::('a'::('n'::('d'::('o'::('m'::(' '::('a'::('r'::('g'::('s'::[])))))))))))))))
                                                                    | _ :: _ ->
                                                                    bad
                                                                    ('a'::('r'::('i'::('t'::('y'::[])))))))
                                                                    | _ ->
                                                                    bad
                                                                    ('a'::('r'::('i'::('t'::('y'::[])))))))))
                                                                    | _ ->
                                                                    bad
                                                                    ('a'::('r'::('i'::('t'::('y'::[])))))))
                                                                    else 
                                                                    if 
                                                                    eqb0 op
                                                                    ('h'::('e'::('a'::('p'::('_'::('r'::('u'::('n'::[]))))))))
                                                                    then 
                                                                    (match args with
                                                                    | [] ->
                                                                    bad
                                                                    ('a'::('r'::('i'::('t'::('y'::[])))))
                                                                    | s0 :: l0 ->
                                                                    (match s0 with
                                                                    | SList ops ->
                                                                    (match l0 with
                                                                    | [] ->
                                                                    (match 
                                                                    omap
                                                                    d_hop ops with
                                                                    | Some ops' ->
                                                                    e_tag
                                                                    ('h'::('e'::('a'::('p'::[]))))
                                                                    ((e_bool
                                                                    (guards
                                                                    [] ops')) :: (
                                                                    (e_heap
                                                                    (run []
                                                                    ops')) :: []))
                                                                    | None ->
                                                                    bad
                                                                    ('h'::('o'::('p'::[]))))
                                                                    | _ :: _ ->
                                                                    bad
                                                                    ('a'::('r'::('i'::('t'::('y'::[]))))))
                                                                    | _ ->
                                                                    bad
                                                                    ('a'::('r'::('i'::('t'::('y'::[])))))))
                                                                    else 
                                                                    if 
                                                                    eqb0 op
                                                                    ('e'::('c'::('h'::('o'::('_'::('f'::('m'::[])))))))
                                                                    then 
                                                                    (match args with
                                                                    | [] ->
                                                                    bad
                                                                    ('a'::('r'::('i'::('t'::('y'::[])))))
                                                                    | m :: l0 ->
                                                                    (match l0 with
                                                                    | [] ->
                                                                    (match 
                                                                    d_fm m with
                                                                    | Some m' ->
                                                                    e_fm m'
                                                                    | None ->
                                                                    bad
                                                                    ('f'::('m'::[])))
                                                                    | _ :: _ ->
                                                                    bad
                                                                    ('a'::('r'::('i'::('t'::('y'::[])))))))
                                                                    else 
                                                                    bad
                                                                    ('u'::('n'::('k'::('n'::('o'::('w'::('n'::(' '::('o'::('p'::[]))))))))))
      | _ -> bad ('s'::('h'::('a'::('p'::('e'::[])))))))
| _ -> bad ('s'::('h'::('a'::('p'::('e'::[])))))
