
val implb : bool -> bool -> bool

val xorb : bool -> bool -> bool

val negb : bool -> bool

type nat =
| O
| S of nat

val option_map : ('a1 -> 'a2) -> 'a1 option -> 'a2 option

val fst : ('a1 * 'a2) -> 'a1

val snd : ('a1 * 'a2) -> 'a2

val length : 'a1 list -> nat

val app : 'a1 list -> 'a1 list -> 'a1 list

type comparison =
| Eq
| Lt
| Gt

val compOpp : comparison -> comparison

type uint =
| Nil
| D0 of uint
| D1 of uint
| D2 of uint
| D3 of uint
| D4 of uint
| D5 of uint
| D6 of uint
| D7 of uint
| D8 of uint
| D9 of uint

type signed_int =
| Pos of uint
| Neg of uint

val revapp : uint -> uint -> uint

val rev : uint -> uint

module Little :
 sig
  val double : uint -> uint

  val succ_double : uint -> uint
 end

val add : nat -> nat -> nat

val mul : nat -> nat -> nat

val sub : nat -> nat -> nat

val eqb : bool -> bool -> bool

type positive =
| XI of positive
| XO of positive
| XH

type n =
| N0
| Npos of positive

type z =
| Z0
| Zpos of positive
| Zneg of positive

module Nat :
 sig
  val eqb : nat -> nat -> bool

  val leb : nat -> nat -> bool

  val ltb : nat -> nat -> bool

  val max : nat -> nat -> nat

  val even : nat -> bool

  val divmod : nat -> nat -> nat -> nat -> nat * nat

  val div : nat -> nat -> nat
 end

module Pos :
 sig
  val succ : positive -> positive

  val add : positive -> positive -> positive

  val add_carry : positive -> positive -> positive

  val pred_double : positive -> positive

  val mul : positive -> positive -> positive

  val iter : ('a1 -> 'a1) -> 'a1 -> positive -> 'a1

  val size : positive -> positive

  val compare_cont : comparison -> positive -> positive -> comparison

  val compare : positive -> positive -> comparison

  val eqb : positive -> positive -> bool

  val iter_op : ('a1 -> 'a1 -> 'a1) -> positive -> 'a1 -> 'a1

  val to_nat : positive -> nat

  val of_succ_nat : nat -> positive

  val of_uint_acc : uint -> positive -> positive

  val of_uint : uint -> n

  val to_little_uint : positive -> uint

  val to_uint : positive -> uint
 end

module N :
 sig
  val add : n -> n -> n

  val mul : n -> n -> n

  val compare : n -> n -> comparison

  val leb : n -> n -> bool

  val ltb : n -> n -> bool
 end

val zero : char

val one : char

val shift : bool -> char -> char

val ascii_of_pos : positive -> char

val ascii_of_N : n -> char

val n_of_digits : bool list -> n

val n_of_ascii : char -> n

val hd : 'a1 -> 'a1 list -> 'a1

val nth : nat -> 'a1 list -> 'a1 -> 'a1

val nth_error : 'a1 list -> nat -> 'a1 option

val last : 'a1 list -> 'a1 -> 'a1

val concat : 'a1 list list -> 'a1 list

val map : ('a1 -> 'a2) -> 'a1 list -> 'a2 list

val flat_map : ('a1 -> 'a2 list) -> 'a1 list -> 'a2 list

val fold_left : ('a1 -> 'a2 -> 'a1) -> 'a2 list -> 'a1 -> 'a1

val fold_right : ('a2 -> 'a1 -> 'a1) -> 'a1 -> 'a2 list -> 'a1

val existsb : ('a1 -> bool) -> 'a1 list -> bool

val forallb : ('a1 -> bool) -> 'a1 list -> bool

val filter : ('a1 -> bool) -> 'a1 list -> 'a1 list

val find : ('a1 -> bool) -> 'a1 list -> 'a1 option

val combine : 'a1 list -> 'a2 list -> ('a1 * 'a2) list

val firstn : nat -> 'a1 list -> 'a1 list

val skipn : nat -> 'a1 list -> 'a1 list

val seq : nat -> nat -> nat list

val repeat : 'a1 -> nat -> 'a1 list

val list_sum : nat list -> nat

module Z :
 sig
  val double : z -> z

  val succ_double : z -> z

  val pred_double : z -> z

  val pos_sub : positive -> positive -> z

  val add : z -> z -> z

  val opp : z -> z

  val sub : z -> z -> z

  val mul : z -> z -> z

  val pow_pos : z -> positive -> z

  val pow : z -> z -> z

  val compare : z -> z -> comparison

  val leb : z -> z -> bool

  val ltb : z -> z -> bool

  val eqb : z -> z -> bool

  val max : z -> z -> z

  val min : z -> z -> z

  val abs : z -> z

  val to_nat : z -> nat

  val of_nat : nat -> z

  val of_N : n -> z

  val of_uint : uint -> z

  val of_int : signed_int -> z

  val to_int : z -> signed_int

  val pos_div_eucl : positive -> z -> z * z

  val div_eucl : z -> z -> z * z

  val div : z -> z -> z

  val modulo : z -> z -> z

  val even : z -> bool

  val log2 : z -> z
 end

val eqb0 : char list -> char list -> bool

val append : char list -> char list -> char list

val length0 : char list -> nat

type exn =
| FlamaException
| ParsingException
| DuplicatedFeature
| KeyError
| IndexError
| TypeError
| ValueError
| AttributeError
| UnboundLocalError
| ZeroDivisionError
| NotImplementedError
| UnicodeDecodeError
| StatisticsError
| RuntimeError
| OtherExn

type 'a result =
| Ok of 'a
| Err of exn

val mapM : ('a1 -> 'a2 result) -> 'a1 list -> 'a2 list result

val omap : ('a1 -> 'a2 option) -> 'a1 list -> 'a2 list option

val uint_of_char : char -> uint option -> uint option

module NilEmpty :
 sig
  val string_of_uint : uint -> char list

  val uint_of_string : char list -> uint option
 end

module NilZero :
 sig
  val string_of_uint : uint -> char list

  val uint_of_string : char list -> uint option

  val string_of_int : signed_int -> char list

  val int_of_string : char list -> signed_int option
 end

val ascii_n : char -> n

val between : n -> n -> char -> bool

val is_upper : char -> bool

val is_lower : char -> bool

val is_digit : char -> bool

val is_alpha : char -> bool

val is_alnum : char -> bool

val is_safechar : char -> bool

val str_forallb : (char -> bool) -> char list -> bool

val str_existsb : (char -> bool) -> char list -> bool

val str_rev_acc : char list -> char list -> char list

val str_rev : char list -> char list

val str_first : char list -> char option

val str_last : char list -> char option

val starts_with_char : char -> char list -> bool

val ends_with_char : char -> char list -> bool

val ascii_lower : char -> char

val str_map : (char -> char) -> char list -> char list

val str_lower : char list -> char list

val str_join : char list -> char list list -> char list

val str_concat : char list list -> char list

val str_split_aux : char -> char list -> char list -> char list list

val str_split : char -> char list -> char list list

val str_remove_char : char -> char list -> char list

val str_contains_char : char -> char list -> bool

val str_ltb : char list -> char list -> bool

val z_to_string : z -> char list

val string_to_z : char list -> z option

val quote : char list -> char list

val core_safe_simple_name : char list -> char list

val core_safename : char list -> char list

val list_existsb_eq : char list -> char list list -> bool

val nodupb : char list list -> bool

val str_take : nat -> char list -> char list

val str_drop : nat -> char list -> char list

val str_zeros : nat -> char list

val py_positional : char list -> char list option

type sexp =
| SAtom of char list
| SStr of char list
| SList of sexp list

val e_z : z -> sexp

val e_nat : nat -> sexp

val e_bool : bool -> sexp

val e_list : ('a1 -> sexp) -> 'a1 list -> sexp

val e_opt : ('a1 -> sexp) -> 'a1 option -> sexp

val e_tag : char list -> sexp list -> sexp

val e_bits : bool list -> sexp

val exn_name : exn -> char list

val e_result : ('a1 -> sexp) -> 'a1 result -> sexp

val d_str : sexp -> char list option

val d_z : sexp -> z option

val d_nat : sexp -> nat option

val d_bool : sexp -> bool option

val is_nil : sexp -> bool

type astop =
| REQUIRES
| EXCLUDES
| AND
| OR
| XOR
| IMPLIES
| NOT
| EQUIVALENCE
| EQUALS
| LOWER
| GREATER
| LOWER_EQUALS
| GREATER_EQUALS
| NOT_EQUALS
| ADD
| SUB
| MUL
| DIV
| SUM
| AVG
| LEN
| FLOOR
| CEIL

val astop_eqb : astop -> astop -> bool

val astop_value : astop -> char list

val all_astops : astop list

val astop_of_value : char list -> astop option

val op_in : astop -> astop list -> bool

val logical_ops : astop list

val arithmetic_ops : astop list

val aggregation_ops : astop list

type ndata =
| DOp of astop
| DStr of char list
| DInt of z
| DFloat of char list
| DBool of bool

type node =
| Node of ndata * node option * node option

val n_data : node -> ndata

val n_left : node -> node option

val n_right : node -> node option

val term : char list -> node

val un : astop -> node -> node

val bin : astop -> node -> node -> node

val data_str : ndata -> char list

val is_op : node -> bool

val is_term : node -> bool

val is_unary_op : node -> bool

val is_unique_term : node -> bool

val is_aggregate_op : node -> bool

val is_binary_op : node -> bool

val data_label : ndata -> char list

val node_str : node -> char list

val pretty_str : node -> char list result

val self_op : node -> astop list

val get_operators : node -> astop list

val get_operands : node -> ndata list

val data_is : astop -> node -> bool

val nsize : node -> nat

val need : node option -> node result

val simplify_fuel : nat -> node -> node result

val propagate_negation : node -> bool -> node result

val to_cnf_fuel : nat -> node -> node result

val default_fuel : node -> nat

val convert_into_cnf : node -> node result

val neg_lit_plus : ndata -> ndata result

val neg_lit_fmt : ndata -> ndata

val clause_from_or : node -> ndata list result

val clauses_of : node -> ndata list list result

val get_clauses : node -> ndata list list result

type ftype =
| TBoolean
| TInteger
| TReal
| TString

val ftype_eqb : ftype -> ftype -> bool

type aval =
| VNone
| VBool of bool
| VInt of z
| VFloat of char list
| VStr of char list
| VList of aval list
| VMap of (char list * aval) list

type range = { rg_min : aval; rg_max : aval }

type domain = { dom_ranges : range list; dom_elems : aval list }

type attr = { a_name : char list; a_dom : domain option; a_default : 
              aval; a_null : aval }

type finfo = { f_name : char list; f_abstract : aval; f_type : ftype;
               f_cmin : z; f_cmax : z; f_attrs : attr list }

type feature =
| Feature of finfo * relation list
and relation =
| Relation of z * z * feature list

val info : feature -> finfo

val rels : feature -> relation list

val name : feature -> char list

val r_min : relation -> z

val r_max : relation -> z

val r_children : relation -> feature list

type ctc = { c_name : char list; c_ast : node }

type fm = { root : feature; ctcs : ctc list }

val mk_info : char list -> finfo

val leaf : char list -> feature

val fsize : feature -> nat

val subfeatures : feature -> feature list

val subrelations : feature -> relation list

val children : feature -> feature list

val names : feature -> char list list

val fld : node option -> node result

val add_once : char list -> char list list -> char list list

val ctc_features_acc : node -> char list list -> char list list

val ctc_features : node -> char list list

val is_logical : node -> bool

val is_arithmetic : node -> bool

val is_aggregation : node -> bool

val is_single_feature : node -> bool

val neg_of_term : node -> bool result

val is_requires : node -> bool result

val is_excludes : node -> bool result

val is_simple : node -> bool result

val is_complex : node -> bool result

val split_formula : node -> node list result

val flat_mapM : ('a1 -> 'a2 list result) -> 'a1 list -> 'a2 list result

val split_asts : node -> node list result

val forallM : ('a1 -> bool result) -> 'a1 list -> bool result

val existsM : ('a1 -> bool result) -> 'a1 list -> bool result

val is_pseudocomplex : node -> bool result

val is_strictcomplex : node -> bool result

val left_right : node -> (ndata * ndata) result

val nchildren : relation -> z

val rel_is_mandatory : relation -> bool

val rel_is_optional : relation -> bool

val rel_is_or : relation -> bool

val rel_is_alternative : relation -> bool

val rel_is_mutex : relation -> bool

val rel_is_group : relation -> bool

val rel_is_cardinal : relation -> bool

val rel_type_str : relation -> char list

val strip_last_space : char list -> char list

val rel_str : char list -> relation -> char list

val subrelations_ctx : feature -> (feature * relation) list

val get_relations : fm -> relation list

val get_features : fm -> feature list

val get_features_ctx : fm -> (feature option * feature) list

val in_children : feature -> relation -> bool

val feat_is_root : feature option -> bool

val feat_is_mandatory : feature option -> feature -> bool

val feat_is_optional : feature option -> feature -> bool

val feat_is_or_group : feature -> bool

val feat_is_alternative_group : feature -> bool

val feat_is_mutex_group : feature -> bool

val feat_is_cardinality_group : feature -> bool

val feat_is_group : feature -> bool

val feat_is_multiple_group_decomposition : feature -> bool

val feat_is_leaf : feature -> bool

val feat_is_boolean : feature -> bool

val feat_is_numerical : feature -> bool

val feat_is_string : feature -> bool

val feat_is_multifeature : feature -> bool

val feat_is_empty : feature option -> feature -> bool

val filter_ctx : (feature option -> feature -> bool) -> fm -> feature list

val get_boolean_features : fm -> feature list

val get_numerical_features : fm -> feature list

val get_string_features : fm -> feature list

val get_mandatory_features : fm -> feature list

val get_optional_features : fm -> feature list

val get_alternative_group_features : fm -> feature list

val get_or_group_features : fm -> feature list

val filterM_idx : ('a1 -> bool result) -> 'a1 list -> nat list result

val ctc_listing : (node -> bool result) -> fm -> nat list result

val get_logical_constraints : fm -> nat list result

val get_arithmetic_constraints : fm -> nat list result

val get_aggregations_constraints : fm -> nat list result

val get_complex_constraints : fm -> nat list result

val get_simple_constraints : fm -> nat list result

val get_pseudocomplex_constraints : fm -> nat list result

val get_strictcomplex_constraints : fm -> nat list result

val get_excludes_constraints : fm -> nat list result

val get_requires_constraints : fm -> nat list result

val eff_max : z -> nat -> z

val card_okb : z -> z -> nat -> z -> bool

val none_selected : (char list -> bool) -> feature -> bool

val count_sel : (char list -> bool) -> feature list -> z

val sem : (char list -> bool) -> feature -> bool

val eval : (char list -> bool) -> node -> bool option

val valid : fm -> (char list -> bool) -> bool

val zeros : nat -> bool list

val prod_app : 'a1 list list -> 'a1 list list -> 'a1 list list

val confs : feature -> bool list list

val selected_names : feature -> bool list -> char list list

val sigma_of : char list list -> char list -> bool

val all_subsets : char list list -> char list list list

val valid_selections : fm -> char list list list

val div_rne : z -> z -> z

val fdiv : z -> z -> z * z

val scale_round : (z * z) -> z -> z

val pyround_div : z -> z -> z -> z

val zprod : z list -> z

val zsum : z list -> z

val poly_step : z list -> z -> z list

val poly : z list -> z list

val slice : z list -> z -> z -> z list

val estimate : feature -> z

val forces_all : relation -> bool

val core_features : feature -> feature list

val child_is_mandatory : feature -> feature -> bool

val closure : feature -> char list list

val starters : feature -> feature list

val atomic_sets : fm -> char list list list

val count_leafs : fm -> z

val leaf_features : fm -> feature list

val with_ancestors : feature -> feature list -> (feature * feature list) list

val ancestors_table : fm -> (feature * feature list) list

val max_depth_tree : fm -> z

val branch_counts : fm -> z * z

val average_branching_factor : fm -> z

val variants : feature -> feature list

val variation_points : fm -> (feature * feature list) list

val insert :
  ('a1 -> 'a2) -> ('a2 -> 'a2 -> bool) -> 'a1 -> 'a1 list -> 'a1 list

val sort_by : ('a1 -> 'a2) -> ('a2 -> 'a2 -> bool) -> 'a1 list -> 'a1 list

val list_eqb : ('a1 -> 'a1 -> bool) -> 'a1 list -> 'a1 list -> bool

val strs_ltb : char list list -> char list list -> bool

val sort_strs : char list list -> char list list

val dedup_sorted : char list list -> char list list

val strset : char list list -> char list list

val feature_eqb : feature -> feature -> bool

type orel = char list * relation

val child_names : relation -> char list list

val relation_eqb : orel -> orel -> bool

type rkey = ((char list * char list list) * z) * z

val relation_hash_key : orel -> rkey

val relation_sort_key : orel -> rkey

val rkey_ltb : rkey -> rkey -> bool

val ctc_key : (char list -> char list) -> ctc -> char list

val ctc_eqb : (char list -> char list) -> ctc -> ctc -> bool

val fm_relations : fm -> orel list

val fm_eqb : (char list -> char list) -> fm -> fm -> bool

val rkey_eqb : rkey -> rkey -> bool

val dedup_rkeys : rkey list -> rkey list

val rkeyset : rkey list -> rkey list

val fm_hash_key :
  (char list -> char list) -> fm -> ((char list * char list list) * rkey
  list) * char list list

type path = (nat * nat) list

type ptr =
| PNone
| PPath of path
| PExt

type pfeature =
| PFeature of finfo * ptr * ptr list * prelation list
and prelation =
| PRelation of ptr * z * z * pfeature list

type pfm = { proot : pfeature; pctcs : ctc list }

val annotate : path -> ptr -> feature -> pfeature

val annotate_fm : fm -> pfm

type hrel = { hr_owner : nat; hr_min : z; hr_max : z; hr_children : nat list }

type hfeat = { hf_name : char list; hf_parent : nat option;
               hf_rels : hrel list }

type heap = hfeat list

type hop =
| HNew of char list * nat option
| HAddRel of nat * nat * z * z * nat list
| HDelRel of nat * nat
| HAddChild of nat * nat * nat
| HSetParent of nat * nat option

val update_nth : nat -> ('a1 -> 'a1) -> 'a1 list -> 'a1 list

val remove_nth : nat -> 'a1 list -> 'a1 list

val set_parent : nat option -> hfeat -> hfeat

val set_rels : (hrel list -> hrel list) -> hfeat -> hfeat

val add_child_rel : nat -> hrel -> hrel

val step : heap -> hop -> heap

val run : heap -> hop list -> heap

val h_name : heap -> nat -> char list

val h_parent : heap -> nat -> nat option

val h_rels : heap -> nat -> hrel list

val h_children : heap -> nat -> nat list

val h_is_root : heap -> nat -> bool

val h_is_leaf : heap -> nat -> bool

val hrel_is_mandatory : hrel -> bool

val hrel_is_optional : hrel -> bool

val named_in : heap -> nat -> hrel -> bool

val h_is_kind : (hrel -> bool) -> heap -> nat -> bool

val h_is_mandatory : heap -> nat -> bool

val h_is_optional : heap -> nat -> bool

val occurs : heap -> nat -> bool

val nodupb_nat : nat list -> bool

val guard : heap -> hop -> bool

val guards : heap -> hop list -> bool

val jt_FEATURE : char list

val jt_XOR : char list

val jt_OR : char list

val jt_MUTEX : char list

val jt_CARDINALITY : char list

val jt_OPTIONAL : char list

val jt_MANDATORY : char list

val json_relation_type : relation -> char list

val json_attributes : attr list -> aval list

val json_tree : feature -> aval

val json_of_data : ndata -> aval

val json_ctc : node -> aval result

val json_constraints : ctc list -> aval list result

val json_write : fm -> aval result

val assoc : char list -> (char list * aval) list -> aval option

val jget : char list -> aval -> aval result

val jhas : char list -> aval -> bool

val jlist : aval -> aval list result

val jstr : aval -> char list result

val jint : aval -> z result

val json_read_attributes : aval -> attr list result

val json_abstract : aval -> aval

val json_relation_cards : char list -> aval -> nat -> (z * z) result

val json_parse_tree : nat -> path -> ptr -> aval -> pfeature result

val data_of_json : aval -> ndata result

val reduce_op : astop -> node list -> node result

val nth_operand : aval list -> nat -> aval result

val json_parse_ctc : nat -> aval -> node result

val aval_depth : aval -> nat

val json_read : aval -> pfm result

val glencoe_ctc_type : astop -> char list option

val dict_set :
  (char list * aval) list -> char list -> aval -> (char list * aval) list

val glencoe_feature_type : feature -> char list

val glencoe_feature_info : feature option -> feature -> aval

val glencoe_features : fm -> aval

val glencoe_tree : feature -> aval

val glencoe_ctc : node -> aval result

val glencoe_write : fm -> aval result

val jtruthy : aval -> bool

val finfo_get : aval -> aval -> char list -> aval result

val count_true_prefix : bool list -> nat -> nat

val gl_known_type : char list -> bool

val glencoe_parse_tree : nat -> aval -> path -> ptr -> aval -> pfeature result

val glencoe_parse_ctc : nat -> aval -> aval -> node result

val glencoe_read : aval -> pfm result

val fide_TAG_FEATUREMODEL : char list

val fide_TAG_STRUCT : char list

val fide_TAG_FEATURE : char list

val fide_TAG_CONSTRAINTS : char list

val fide_TAG_GRAPHICS : char list

val fide_TAG_DESCRIPTION : char list

val fide_TAG_AND : char list

val fide_TAG_OR : char list

val fide_TAG_ALT : char list

val fide_TAG_RULE : char list

val fide_TAG_VAR : char list

val fide_TAG_NOT : char list

val fide_TAG_IMP : char list

val fide_TAG_DISJ : char list

val fide_TAG_CONJ : char list

val fide_TAG_EQ : char list

val fide_ATTRIB_NAME : char list

val fide_ATTRIB_ABSTRACT : char list

val fide_ATTRIB_MANDATORY : char list

val fide_ctc_type : astop -> char list option

type xml =
| Elem of char list * (char list * char list) list * char list option
   * xml list

val x_tag : xml -> char list

val x_attrs : xml -> (char list * char list) list

val x_children : xml -> xml list

val sassoc : char list -> (char list * char list) list -> char list option

val aval_truthy : aval -> bool

val fide_tag : feature -> char list

val fide_attributes :
  feature option -> feature -> (char list * char list) list

val fide_elem : feature option -> feature -> xml

type cinfo =
| CVar of char list
| COp of char list * cinfo list

val fide_ctc_info : node -> cinfo result

val fide_ctc_elem : cinfo -> xml

val fide_write : fm -> xml result

val fide_skipped : xml -> bool

val fide_read_features :
  xml -> path -> ptr -> bool -> (pfeature * bool) list result

val fide_parse_rule : xml -> node result

val fide_read_constraints : xml -> ctc list result

val fide_read : xml -> pfm result

val xattr : char list -> xml -> char list option

val tag_is : char list -> xml -> bool

val xint : char list -> xml -> z result

val fama_parse_feature :
  xml -> path -> ptr -> char list list -> (pfeature * char list list) result

val fama_parse_ctc : xml -> char list list -> ctc result

val fama_read : xml -> pfm result

val uvl_operator : astop -> char list option

val uvl_keywords : char list list

type uvalue =
| UVBool of char list
| UVFloat of char list * char list
| UVInt of char list
| UVStr of char list
| UVAttrs of uattr list
| UVVector of uvalue list
and uattr =
| UAValue of char list * uvalue option
| UAConstraint
| UAOther

type gkind =
| GOr
| GAlt
| GOpt
| GMand
| GCard of char list

type ufeature =
| UFeature of char list option * char list * char list option
   * uattr list option * ugroup list
and ugroup =
| UGroup of gkind * ufeature list

type aggr =
| AgSum
| AgAvg
| AgLen
| AgFloor
| AgCeil

type ucst =
| KLiteral of char list
| KNot of ucst
| KBin of astop * ucst * ucst
| KParen of ucst
| KInt of char list
| KFloat of char list * char list
| KStr of char list
| KAggr of aggr * char list list

type udoc = { d_root : ufeature option; d_ctcs : ucst list option }

val is_plain_id : char list -> bool

val uvl_safe_simple_name : char list -> char list

val uvl_safename : char list -> char list

val card_text : z -> z -> char list

val float_text : char list -> char list option

val value_cst : aval -> uvalue result

val attrs_cst : feature -> uattr list option result

val group_kind : relation -> gkind

val ftype_value : ftype -> char list

val feature_cst : feature -> ufeature result

val aggr_of : astop -> aggr option

val is_compound : node -> bool

val node_cst : node -> ucst result

val cst_of_fm : fm -> udoc result

val tabs : nat -> char list

val render_value : uvalue -> char list

val render_attrs : uattr list option -> char list

val render_gkind : gkind -> char list

val render_feature : nat -> ufeature -> char list

val aggr_name : aggr -> char list

val render_cst : ucst -> char list

val render : udoc -> char list

val uvl_write : fm -> char list result

val strip_quotes : char list -> char list

val drop_ends : char list -> char list

val split_dotdot : char list -> char list -> (char list * char list) option

val to_int0 : char list -> z result

val parse_cardinality : char list -> (z * z) result

val value_aval : uvalue -> aval result

val read_ftype : char list option -> ftype result

val uvl_read_feature : path -> ptr -> ufeature -> pfeature result

val astop_of_aggr : aggr -> astop

val uvl_read_ctc : ucst -> node result

val uvl_read_cst : udoc -> pfm result

val afm_operator : astop -> char list option

val afm_operator_of_keyword : char list -> astop option

type aitem =
| ISingle of bool * char list
| IGroup of char list * char list * char list list

type arelspec = { rs_parent : char list; rs_items : aitem list }

type avalue =
| AvInt of char list
| AvText of char list
| AvDouble of char list * char list

type adomain =
| ADiscrete of avalue list
| ARange of (char list * char list) list

type aattrspec = { at_feature : char list; at_name : char list;
                   at_domain : adomain; at_default : avalue; at_null : 
                   avalue }

type aexpr =
| EVar of char list
| ENum of char list
| EBin of char list * aexpr * aexpr
| ENot of aexpr
| EParen of aexpr

type actc =
| CSimple of aexpr * char list
| CBrackets of char list * (aexpr * char list) list

type adoc = { ad_rels : arelspec list; ad_attrs : aattrspec list option;
              ad_ctcs : actc list option }

val afm_item : relation -> aitem option

val afm_relspecs : feature -> arelspec list

val afm_value : aval -> avalue result

val afm_attrspec : char list -> attr -> aattrspec result

val afm_expr : node -> aexpr result

val afm_render_expr : aexpr -> char list

val afm_cst : fm -> adoc result

val afm_render_item : aitem -> char list

val afm_render_value : avalue -> char list

val afm_render : adoc -> char list

val afm_write : fm -> char list result

val afm_to_int : char list -> z result

val add_rels : char list -> relation list -> feature -> feature option

val add_attr : char list -> attr -> feature -> feature option

val item_relations : aitem list -> relation list result

val item_names : aitem list -> char list list

val fresh_names : char list list -> feature -> bool

val afm_value_aval : avalue -> aval result

val afm_read_expr : char list -> aexpr -> node result

val afm_read_cst : adoc -> pfm result

val nl : char list

val tab : char list

val tabs0 : nat -> char list

val w_safename : char list -> char list

val clafer_keywords : char list list

val cl_safename : char list -> char list

type sxf =
| SxF of char list * sxitem list
and sxitem =
| SxSolitary of bool * sxf
| SxGroup of z * z * sxf list

val sx_name : sxf -> char list

type splot_doc = { sp_model_name : char list; sp_root : sxf;
                   sp_clauses : (bool * char list) list list }

val splot_tree : feature -> sxf

val splot_literal : ndata -> (bool * char list) result

val splot_clauses : ctc list -> (bool * char list) list list result

val splot_write : fm -> splot_doc result

val sx_none : (char list -> bool) -> sxf -> bool

val sx_sem : (char list -> bool) -> sxf -> bool

val clause_true : (char list -> bool) -> (bool * char list) list -> bool

val sxfm_sat : (char list -> bool) -> splot_doc -> bool

val sx_safename : char list -> char list

val sx_label : char list -> char list

val card_star : z -> char list

val sx_lines : sxf -> nat -> char list list

val xml_escape : bool -> char list -> char list

val render_splot : splot_doc -> char list

val splot_text : fm -> char list result

type pl =
| PVar of char list
| PNot of pl
| PAnd of pl * pl
| POr of pl * pl
| PImp of pl * pl
| PIff of pl * pl
| PParen of pl

val pl_eval : (char list -> bool) -> pl -> bool

val render_pl : pl -> char list

val pjoin : (pl -> pl -> pl) -> pl list -> pl -> pl

val combs : nat -> nat list -> nat list list

val pl_relation : char list -> relation -> pl result

val pl_node : node -> pl result

val pl_write : fm -> pl list result

val pl_sat : (char list -> bool) -> pl list -> bool

val pl_lines : fm -> char list list result

type cgroup =
| GXor
| GOr0
| GMux
| GCardC of z * z

type clf =
| Clf of cgroup option * char list * bool * bool
   * (char list * char list) list * clf list

type cexpr =
| CxVar of char list
| CxNot of cexpr
| CxBin of char list * cexpr * cexpr
| CxParen of cexpr

type cdoc = { cd_attrdecls : (char list * char list) list; cd_root : 
              clf; cd_ctcs : cexpr list; cd_instance_of : char list }

val clafer_group : feature -> cgroup option

val py_str : aval -> char list

val clafer_value : aval -> char list

val clafer_type : aval -> char list

val in_any_number_group : feature option -> feature -> bool

val clafer_tree : feature option -> feature -> clf

val clafer_operator : astop -> char list option

val clafer_node : node -> cexpr result

val clafer_attrdecls : fm -> (char list * char list) list

val nonfinite_float : aval -> bool

val clafer_write : fm -> cdoc result

val cl_name : clf -> char list

val cl_optional : clf -> bool

val cl_none : (char list -> bool) -> clf -> bool

val group_bounds : cgroup -> nat -> z * z

val default_gcard : cgroup option -> bool

val cl_sem : (char list -> bool) -> clf -> bool

val cx_eval : (char list -> bool) -> cexpr -> bool

val clafer_sat : (char list -> bool) -> cdoc -> bool

val render_cgroup : cgroup -> char list

val render_clf : clf -> nat -> char list

val render_cexpr : cexpr -> char list

val render_clafer : cdoc -> char list

val clafer_text : fm -> char list result

val metric_methods : char list list

type mval =
| MNames of char list list
| MStr of char list
| MInt of z
| MHund of z

type entry = { me_method : char list; me_name : char list; me_result : 
               mval; me_size : z option; me_ratio : z option;
               me_parent : char list option; me_level : z }

val zlen : 'a1 list -> z

val get_ratio : z -> z -> z -> z

val mk :
  char list -> char list -> mval -> z option -> z option -> char list option
  -> z -> entry

val listing :
  char list -> char list -> char list list -> char list list -> char list ->
  z -> entry

val ctc_str : ctc -> char list

val is_abstract_truthy : feature -> bool

val feat_is_grouped : feature option -> feature -> bool

val zmin_list : z list -> z -> z

val zmax_list : z list -> z -> z

val zsort : z list -> z list

val median_hund : z list -> z

val mean_hund : z list -> z

val fctx : fm -> (feature option * feature) list

val feats : fm -> feature list

val fnames : fm -> char list list

val abstract_names : fm -> char list list

val concrete_names : fm -> char list list

val leaf_names_ : fm -> char list list

val nchildren_of : feature -> z

val cpf : fm -> z list

val leaf_depths : fm -> z list

val is_group_feature : feature -> bool

val group_names : fm -> char list list

val solitary_names : fm -> char list list

val grouped_names : fm -> char list list

val ctc_strs : fm -> nat list -> char list list

val ctc_listing_entry :
  fm -> char list -> char list -> nat list result -> nat list result ->
  char list -> z -> entry result

val all_ctc_idx : fm -> nat list result

val metric : fm -> char list -> entry result

val report : fm -> char list list option -> entry list result

type draw =
| DChoice of nat
| DUniform of z * z
| DRandint of z

type dec = { d_m : z; d_e : z }

val digits_to_z : char list -> z -> z option

val split_at : char -> char list -> char list -> char list * char list option

val str_len : char list -> z

val signed : char list -> bool * char list

val dec_of_repr : char list -> dec option

val dec_of_bound : aval -> dec option

val dec_leb : dec -> dec -> bool

val dot_digits : aval -> z

val round_dec : z -> z -> z -> dec

val is_float : aval -> bool

val is_int : aval -> bool

type gval =
| GElem of aval
| GInt of z
| GDec of dec
| GBound of aval
| GNone

val value_from_ranges : range list -> draw list -> (gval * draw list) result

val value_from_domain : domain -> draw list -> (gval * draw list) result

val gval_aval : gval -> aval

val has_attr : char list -> feature -> bool

val targeted : bool -> char list -> feature -> bool

val decide :
  feature list -> bool -> char list -> domain -> draw list -> (aval option
  list * draw list) result

val lookup_value :
  char list -> feature list -> aval option list -> aval option

val apply_values :
  char list -> domain -> feature list -> aval option list -> feature ->
  feature

val gen_random_attribute :
  char list -> domain option -> bool -> draw list -> fm -> fm result

val e_aval : aval -> sexp

val d_aval : sexp -> aval option

val e_ndata : ndata -> sexp

val d_ndata : sexp -> ndata option

val e_node : node -> sexp

val d_node : sexp -> node option

val e_ftype : ftype -> sexp

val d_ftype : sexp -> ftype option

val e_domain : domain -> sexp

val d_domain : sexp -> domain option

val e_attr : attr -> sexp

val d_attr : sexp -> attr option

val e_feature : feature -> sexp

val d_feature : sexp -> feature option

val e_ctc : ctc -> sexp

val d_ctc : sexp -> ctc option

val e_fm : fm -> sexp

val d_fm : sexp -> fm option

val e_ptr : ptr -> sexp

val e_pfeature : pfeature -> sexp

val e_pfm : pfm -> sexp

val e_xml : xml -> sexp

val d_xml : sexp -> xml option

val e_uvalue : uvalue -> sexp

val e_uattr : uattr -> sexp

val d_uvalue : sexp -> uvalue option

val d_uattrs : sexp -> uattr list option option

val e_gkind : gkind -> sexp

val d_gkind : sexp -> gkind option

val e_ufeature : ufeature -> sexp

val d_optstr : sexp -> char list option option

val d_ufeature : sexp -> ufeature option

val aggr_atom : aggr -> char list

val d_aggr : char list -> aggr option

val e_ucst : ucst -> sexp

val d_ucst : sexp -> ucst option

val e_udoc : udoc -> sexp

val d_udoc : sexp -> udoc option

val e_aitem : aitem -> sexp

val d_aitem : sexp -> aitem option

val e_avalue : avalue -> sexp

val d_avalue : sexp -> avalue option

val e_adomain : adomain -> sexp

val d_adomain : sexp -> adomain option

val e_aexpr : aexpr -> sexp

val d_aexpr : sexp -> aexpr option

val e_actc : actc -> sexp

val d_actc : sexp -> actc option

val e_adoc : adoc -> sexp

val d_adoc : sexp -> adoc option

val d_optnat : sexp -> nat option option

val d_hop : sexp -> hop option

val e_hrel : hrel -> sexp

val e_heap : heap -> sexp

val e_names : feature list -> sexp

val feature_flags : feature option -> feature -> bool list

val relation_flags : relation -> bool list

val index_of_name : char list -> feature list -> nat option

val op_queries : fm -> sexp

val e_rbool : bool result -> sexp

val op_ctcq : node -> sexp

val op_ops : fm -> sexp

val op_sem : fm -> sexp

val e_matrix : ('a1 -> 'a2 -> bool) -> 'a1 list -> 'a2 list -> sexp

val hk_eqb :
  (((char list * char list list) * rkey list) * char list list) ->
  (((char list * char list list) * rkey list) * char list list) -> bool

val op_eqq : fm -> fm -> sexp

val e_mval : mval -> sexp

val e_entry : entry -> sexp

val e_sels : char list list list -> sexp

val op_export_sat : fm -> sexp

val d_draw : sexp -> draw option

val bad : char list -> sexp

val dispatch : sexp -> sexp
