#!/venv/bin/python
"""tools/src_tie_table.py — markdown summary of seeded/source_tie.json (written by tools/src_mutants.py) for DESIGN §9.7a"""
import collections
import json
import os

VERIF = os.path.dirname(os.path.dirname(os.path.abspath(__file__)))
d = json.load(open(os.path.join(VERIF, "seeded", "source_tie.json")))
per = collections.defaultdict(collections.Counter)
for k, v in d.items():
    per[k.split("-")[0]][v.split(":")[0]] += 1
kinds = ["untranslatable", "proof-breaks", "proof-holds", "same-text", "patch-does-not-apply"]
print("| property | seeded changes touching a translated file | " + " | ".join(kinds) + " |")
print("|---|---|" + "---|" * len(kinds))
tot = collections.Counter()
for p in sorted(per):
    c = per[p]
    tot.update(c)
    print(f"| {p} | {sum(c.values())} | " + " | ".join(str(c.get(k, 0)) for k in kinds) + " |")
print(f"| all | {sum(tot.values())} | " + " | ".join(str(tot.get(k, 0)) for k in kinds) + " |")
held = sorted(k for k, v in d.items() if v.startswith("proof-holds"))
if held:
    print("\nproof-holds: " + ", ".join(held))
