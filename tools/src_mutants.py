#!/venv/bin/python
"""tools/src_mutants.py [ids...] — how many seeded changes does the SOURCE TIE alone catch?

For every seeded change whose patch touches a file the translator reads, the patch is applied to a scratch
copy of the package (never to /repo), the translator is run on the copy into a scratch copy of coq/, and the
Src*Facts proofs are rebuilt there.  Outcome per change: `untranslatable` (the translator stops: the check
reports the obligation source-translation), `proof-breaks` (a Src lemma no longer checks), `same-text` (the
change is outside every translated function), `proof-holds` (a translated function changed and every lemma
still checks: the change is invisible to the tie).  No random input is involved anywhere."""
import glob
import json
import os
import shutil
import subprocess
import sys

VERIF = os.path.dirname(os.path.dirname(os.path.abspath(__file__)))
SCRATCH = "/tmp/srcmut"
TARGETS = ["Proofs/" + os.path.basename(f)[:-2] + ".vo"
           for f in sorted(glob.glob(os.path.join(os.path.dirname(os.path.dirname(os.path.abspath(__file__))), "coq", "Proofs", "Src*.v")))]
READ = ["models/feature_model.py", "operations/fm_", "transformations/json_writer.py", "transformations/glencoe_writer.py",
        "transformations/pl_writer.py", "transformations/splot_writer.py", "transformations/clafer_writer.py",
        "transformations/afm_writer.py", "transformations/uvl_writer.py", "transformations/featureide_writer.py",
        "transformations/json_reader.py", "transformations/glencoe_reader.py", "operations/fm_atomic_sets.py",
        "transformations/featureide_reader.py"]


def sh(cmd, cwd=None, timeout=1800):
    p = subprocess.run(cmd, shell=True, cwd=cwd, stdout=subprocess.PIPE, stderr=subprocess.STDOUT, text=True,
                       timeout=timeout)
    return p.returncode, p.stdout


def main():
    ids = sys.argv[1:]
    shutil.rmtree(SCRATCH, ignore_errors=True)
    os.makedirs(SCRATCH)
    sh(f"rsync -a --exclude='*.aux' {VERIF}/coq/ {SCRATCH}/coq/")
    shutil.copy(os.path.join(VERIF, "tools", "py2coq.py"), os.path.join(SCRATCH, "py2coq.py"))   # the translator as it is NOW
    # the generated files of the scratch copy describe the committed tree, whatever /repo's working tree holds right now
    sh(f"git -C {VERIF} archive HEAD coq/Gen | tar -x -C {SCRATCH}/ && touch {SCRATCH}/coq/Gen/*.v")
    targets = [t for t in TARGETS if os.path.exists(os.path.join(VERIF, "coq", t[:-1]))]
    base = {f: open(f).read() for f in glob.glob(f"{SCRATCH}/coq/Gen/Src_*.v")}
    out = {}
    for meta in sorted(glob.glob(f"{VERIF}/seeded/*/meta.json")):
        mid = os.path.basename(os.path.dirname(meta))
        if ids and mid not in ids:
            continue
        patch = os.path.join(os.path.dirname(meta), "patch.diff")
        txt = open(patch).read()
        if not any(r in txt for r in READ):
            continue
        shutil.rmtree(f"{SCRATCH}/repo", ignore_errors=True)
        sh(f"git -C /repo worktree prune; mkdir -p {SCRATCH}/repo && git -C /repo archive HEAD flamapy | tar -x -C {SCRATCH}/repo")
        rc, o = sh(f"patch -p1 --no-backup-if-mismatch < {patch}", cwd=f"{SCRATCH}/repo")
        if rc != 0:
            out[mid] = "patch-does-not-apply"
            continue
        for f, t in base.items():
            open(f, "w").write(t)
        env = f"VERIF_REPO_PKG={SCRATCH}/repo/flamapy/metamodels/fm_metamodel VERIF_GEN_DIR={SCRATCH}/coq/Gen"
        rc, o = sh(f"{env} /venv/bin/python {SCRATCH}/py2coq.py all")
        bad = [ln for ln in o.splitlines() if "CANNOT TRANSLATE" in ln]
        if rc != 0:
            out[mid] = "untranslatable: " + "; ".join(b.split("CANNOT TRANSLATE", 1)[1].strip()[:110] for b in bad[:3])
        elif all(open(f).read() == t for f, t in base.items()):
            out[mid] = "same-text"
        else:
            rc, o = sh(f"timeout 900 make -f Makefile.coq -j16 -k {' '.join(targets)} 2>&1 | grep -E 'Error|^File' | head -4",
                       cwd=f"{SCRATCH}/coq")
            rc2, _ = sh(f"timeout 900 make -f Makefile.coq -j16 {' '.join(targets)}", cwd=f"{SCRATCH}/coq")
            out[mid] = "proof-holds" if rc2 == 0 else "proof-breaks: " + " ".join(o.split())[:200]
        print(mid, out[mid], flush=True)
    shutil.rmtree(SCRATCH, ignore_errors=True)
    dest = os.path.join(VERIF, "seeded", "source_tie.json")
    if ids and os.path.exists(dest):          # a partial run refreshes its entries only
        out = dict(json.load(open(dest)), **out)
    json.dump(out, open(dest, "w"), indent=1, sort_keys=True)
    kinds = {}
    for v in out.values():
        kinds[v.split(":")[0]] = kinds.get(v.split(":")[0], 0) + 1
    print(kinds)


if __name__ == "__main__":
    main()
