#!/venv/bin/python
"""tools/seeded.py import <PROP>      — confirm the mutants in /tmp/wt_<PROP>/mutants and keep them
   tools/seeded.py run <seed-id> [PROP...] [--tier quick]  — apply to /repo, run checks, revert
   tools/seeded.py runall [--props-of-own]          — run every seeded change against its own check"""
import glob
import json
import os
import shutil
import subprocess
import sys

VERIF = os.path.dirname(os.path.dirname(os.path.abspath(__file__)))
SEEDED = os.path.join(VERIF, "seeded")


def sh(cmd, cwd=None, timeout=1800, env=None):
    p = subprocess.run(cmd, shell=True, cwd=cwd, stdout=subprocess.PIPE, stderr=subprocess.STDOUT,
                       text=True, timeout=timeout, env=env)
    return p.returncode, p.stdout


def confirm(patch, demo, wt):
    """in scratch worktree wt (clean): demo passes, patch applies, tests pass, demo fails"""
    env = dict(os.environ, PYTHONPATH=wt, PYTHONHASHSEED="0")
    log = {}
    sh("git checkout -q -- . ", cwd=wt)
    rc, out = sh(f"/venv/bin/python {demo}", cwd=wt, env=env, timeout=600)
    log["demo_clean"] = (rc, out[-300:])
    if rc != 0:
        return False, log
    rc, out = sh(f"git apply {patch}", cwd=wt)
    log["apply"] = (rc, out[-300:])
    if rc != 0:
        return False, log
    rc, out = sh("/venv/bin/python -m pytest -q -p no:cacheprovider 2>&1 | tail -1", cwd=wt, env=env)
    log["tests"] = out.strip()
    ok_tests = "144 passed" in out
    rc, out = sh(f"/venv/bin/python {demo}", cwd=wt, env=env, timeout=600)
    log["demo_patched"] = (rc, out[-300:])
    sh("git checkout -q -- . ", cwd=wt)
    return ok_tests and rc != 0, log


def do_import(prop):
    src = f"/tmp/wt_{prop}/mutants" if os.path.isdir(f"/tmp/wt_{prop}/mutants") else f"/tmp/wt_{prop}b/mutants"
    wt = f"/tmp/confirm_{prop}"
    sh(f"git -C /repo worktree remove --force {wt}")
    rc, out = sh(f"git -C /repo worktree add -q --detach {wt} HEAD")
    assert rc == 0, out
    try:
        for diff in sorted(glob.glob(f"{src}/m*.diff")):
            k = os.path.basename(diff)[:-5]
            demo = f"{src}/{k}_demo.py"
            meta = json.load(open(f"{src}/{k}.json")) if os.path.exists(f"{src}/{k}.json") else {}
            ok, log = confirm(diff, demo, wt)
            sid = f"{prop}-{k}"
            print(sid, "CONFIRMED" if ok else "REJECTED", log)
            if not ok:
                continue
            d = os.path.join(SEEDED, sid)
            os.makedirs(d, exist_ok=True)
            shutil.copy(diff, os.path.join(d, "patch.diff"))
            shutil.copy(demo, os.path.join(d, "demo.py"))
            base = subprocess.run("git -C /repo rev-parse --short HEAD", shell=True, stdout=subprocess.PIPE, text=True).stdout.strip()
            json.dump({"property": prop, "summary": meta.get("summary", ""), "needs": meta.get("needs", ""),
                       "source": "independent sub-agent given only the property text and a scratch worktree",
                       "confirmed": {"repo_base": base,
                                     "what_i_ran": "scratch worktree: demo.py exits 0 on clean tree; git apply patch.diff; 144 tests pass; demo.py exits 1",
                                     "log": log},
                       "detected_by": None},
                      open(os.path.join(d, "meta.json"), "w"), indent=1)
    finally:
        sh(f"git -C /repo worktree remove --force {wt}")


def run(sid, props, tier="quick"):
    d = os.path.join(SEEDED, sid)
    meta = json.load(open(os.path.join(d, "meta.json")))
    props = props or [meta["property"]]
    rc, out = sh("git -C /repo status --porcelain --untracked-files=no")
    assert out.strip() == "", "/repo not clean: " + out
    rc, out = sh(f"git -C /repo apply --3way {d}/patch.diff 2>&1 || git -C /repo apply {d}/patch.diff")
    results = {}
    saved = {}
    for p in props:        # the evidence files must keep describing the unchanged tree
        ev = os.path.join(VERIF, "evidence", f"{p}.json")
        if os.path.exists(ev):
            saved[ev] = open(ev).read()
    if rc != 0:
        print(sid, "PATCH DOES NOT APPLY", out[-300:])
        sh("git -C /repo reset -q --hard HEAD")
        return None
    try:
        for p in props:
            rc, out = sh(f"./check {p} {tier}", cwd=VERIF, timeout=7200)
            last = [l for l in out.splitlines() if l.startswith("VIOLATION") or l.startswith("[" + p)]
            results[p] = (rc, last)
            how = None
            for l in last:
                if l.startswith("VIOLATION") and "replay=" in l:
                    try:
                        rep = json.load(open(l.split("replay=")[1].split()[0]))
                        how = {k: rep.get(k) for k in ("kind", "suite", "clause") if rep.get(k)}
                        if rep.get("broken_obligations"):
                            how["broken_obligations"] = [b[0] for b in rep["broken_obligations"]][:6]
                    except Exception:  # noqa: BLE001
                        pass
            if p == meta["property"] and tier == "quick":
                meta["detected_by"] = ({"check": f"./check {p} quick", "exit": rc, "how": how} if rc != 0
                                       else {"check": f"./check {p} quick", "exit": 0, "how": "MISSED"})
                json.dump(meta, open(os.path.join(d, "meta.json"), "w"), indent=1)
    finally:
        sh("git -C /repo reset -q --hard HEAD")
        # the generated files must describe the unchanged tree again
        sh("/venv/bin/python tools/gen_tables.py all; /venv/bin/python tools/py2coq.py all", cwd=VERIF)
        for ev, txt in saved.items():
            with open(ev, "w") as fh:
                fh.write(txt)
    return results


def main():
    cmd = sys.argv[1]
    if cmd == "import":
        for p in sys.argv[2:]:
            do_import(p)
    elif cmd == "run":
        args = [a for a in sys.argv[2:] if not a.startswith("--")]
        tier = "thorough" if "--thorough" in sys.argv else "quick"
        r = run(args[0], args[1:], tier)
        print(json.dumps(r, indent=1))
    elif cmd == "runall":
        only = [a for a in sys.argv[2:] if not a.startswith("--")]
        summary = {}
        for d in sorted(os.listdir(SEEDED)):
            meta = json.load(open(os.path.join(SEEDED, d, "meta.json")))
            if only and meta["property"] not in only:
                continue
            r = run(d, [])
            summary[d] = r
            print(d, r, flush=True)
        detected = sum(1 for r in summary.values() if r and all(rc != 0 for rc, _ in r.values()))
        print(f"detected {detected}/{len(summary)}")


if __name__ == "__main__":
    main()
