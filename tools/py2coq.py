#!/venv/bin/python
"""tools/py2coq.py [fm|ops|all] — translate the Python text of /repo's pure core into Gallina.

Second tie between model and code (DESIGN §10): the functions listed in UNITS are re-translated from
the *current* source on every run into coq/Gen/Src_<unit>.v; Proofs/Src*Facts.v prove each translated
definition equal to the hand-written model the property theorems are about, so a change to one of
these functions changes a Gallina definition and the equality proof is re-checked against it.

The translator is FAIL-CLOSED: a construct, name, type or call it does not know is an error (exit 1),
never a guess.  What a Python object / built-in means in Gallina is fixed in coq/Model/PyRt.v.
Type annotations of the source are trusted (a value annotated `Feature` is not None).

Shape of the output
  * a function whose body can raise, loop or recurse returns `result T` (Base/Result.v);
  * recursion and `while` take a `fuel : nat` (RuntimeError when it runs out: Python's RecursionError);
  * `for` is `foldM` over the state tuple of the variables the body assigns, `while` is `whileM`;
  * `x.append(e)` / `x.extend(e)` / `x.pop()` / `d[k] = v` on a LOCAL list / dict that was created in
    the function are assignments to that variable (no aliasing is possible for such a local);
  * `X is not None` tests become a `match` that binds the value (narrowing);
  * an attribute of an Optional value goes through `py_need` (AttributeError).
"""
import ast
import json
import os
import sys

VERIF = os.path.dirname(os.path.dirname(os.path.abspath(__file__)))
GEN = os.environ.get("VERIF_GEN_DIR") or os.path.join(VERIF, "coq", "Gen")
REPO_PKG = os.environ.get("VERIF_REPO_PKG", "/repo/flamapy/metamodels/fm_metamodel")


class Fail(Exception):
    pass


def fail(node, msg):
    line = getattr(node, "lineno", "?")
    try:
        src = ast.unparse(node)[:120]
    except Exception:  # noqa: BLE001
        src = "<?>"
    raise Fail(f"line {line}: {msg}: {src}")


# ------------------------------------------------------------------------------------------ types
INT, BOOL, STR, NONE = ("int",), ("bool",), ("str",), ("none",)
FEATURE, RELATION, FMODEL, CTC = ("Feature",), ("Relation",), ("FeatureModel",), ("Constraint",)
ASTT, NODE, NDATA, ASTOP, FTYPE, CARD = ("AST",), ("Node",), ("ndata",), ("astop",), ("ftype",), ("Cardinality",)
UNKNOWN = ("?",)
DOMAIN, RANGE = ("Domain",), ("Range",)
METRIC, HUND, RATIO, MEANT, HALF = ("metric",), ("hund",), ("ratio",), ("mean",), ("half",)
# a metrics entry; a float in hundredths; a ratio in ten-thousandths; statistics.mean as (sum, n); statistics.median doubled
PFEATURE, PRELATION = ("PFeature",), ("PRelation",)   # builder mode (readers): the pure tree values, no parent pointers
PURE = [False]
FSET = ("fset",)          # a set of features as a value (outside the functions that share and mutate sets)
SETREF, STORE = ("setref",), ("store",)
INTSTR = ("intstr",)     # Union[int, str] that is only ever printed or compared with integers: carried as its str()     # a set object lives in a store of sets (aliasing!); a value of type set is its index
FLOAT = ("float",)        # a Python float carried as its repr (the VFloat payload)
XML = ("Element",)        # xml.etree.ElementTree.Element as the tree value of Format/Xml.v (tag, attrib, text, children)
ANY, ATTRIBUTE = ("any",), ("Attribute",)      # Any / Dict[str, Any] is a JSON-like value (aval)


def Opt(t):
    return t if t[0] == "opt" else ("opt", t)


def List(t):
    return ("list", t)


def Tup(ts):
    return ("tuple", tuple(ts))


def Dict(k, v):
    return ("dict", k, v)


def coq_ty(t):
    k = t[0]
    simple = {"int": "Z", "bool": "bool", "str": "string", "Feature": "lfeat", "Relation": "lrel",
              "FeatureModel": "fm", "Constraint": "ctc", "AST": "node", "Node": "node", "ndata": "ndata", "Element": "xml",
              "astop": "astop", "ftype": "ftype", "any": "aval", "Attribute": "attr", "char": "ascii", "float": "string", "Domain": "domain", "Range": "range",
              "setref": "nat", "store": "py_store", "fset": "(list lfeat)", "PFeature": "feature", "PRelation": "relation",
              "metric": "py_metric", "hund": "Z", "ratio": "Z", "mean": "(Z * Z)", "half": "Z", "intstr": "string"}
    if k in simple:
        return simple[k]
    if k == "none":
        return "unit"
    if k == "obj":
        return f"py_{t[1]}_state"
    if k == "maybe":
        return f"(option {coq_ty(t[1])})"
    if k == "opt":
        return f"(option {coq_ty(t[1])})"
    if k == "list":
        return f"(list {coq_ty(t[1])})"
    if k == "tuple":
        return "(" + " * ".join(coq_ty(x) for x in t[1]) + ")%type"
    if k == "dict":
        return f"(list ({coq_ty(t[1])} * {coq_ty(t[2])}))"
    raise Fail(f"no Gallina type for {t}")


def join(a, b):
    if a == b:
        return a
    if INTSTR in (a, b) and {a, b} <= {INTSTR, INT, STR}:
        return INTSTR
    if {a, b} == {NDATA, STR}:
        return STR
    if ANY in (a, b) and (a in (BOOL, INT, STR, NONE) or b in (BOOL, INT, STR, NONE)):
        return ANY
    if a == UNKNOWN:
        return b
    if b == UNKNOWN:
        return a
    if a == NONE:
        return Opt(b)
    if b == NONE:
        return Opt(a)
    if a[0] == "opt" and b[0] != "opt":
        return Opt(join(a[1], b))
    if b[0] == "opt" and a[0] != "opt":
        return Opt(join(a, b[1]))
    if a[0] == b[0] == "opt":
        return Opt(join(a[1], b[1]))
    if a[0] == b[0] == "list":
        return List(join(a[1], b[1]))
    if {a, b} == {ASTT, NODE}:
        return NODE
    if a[0] == b[0] == "tuple" and len(a[1]) == len(b[1]):
        return Tup([join(x, y) for x, y in zip(a[1], b[1])])
    raise Fail(f"cannot join types {a} and {b}")


def coq_str(s):
    """a Python str as a Gallina string of its UTF-8 bytes; bytes outside printable ASCII are spelled "ddd"%char"""
    parts, cur = [], []
    for b in s.encode("utf-8"):
        if b == 0x22:
            cur.append('""')
        elif 0x20 <= b <= 0x7E:
            cur.append(chr(b))
        else:
            if cur:
                parts.append('"' + "".join(cur) + '"')
                cur = []
            parts.append(f'(String "{b:03d}"%char "")')
    if cur or not parts:
        parts.append('"' + "".join(cur) + '"')
    return parts[0] if len(parts) == 1 else "(" + " ++ ".join(parts) + ")%string"


class Val:
    def __init__(self, code, ty, eff=False):
        self.code, self.ty, self.eff = code, ty, eff


FTYPE_MEMBERS = {"BOOLEAN": "TBoolean", "INTEGER": "TInteger", "REAL": "TReal", "STRING": "TString"}
ASTOPS = ["REQUIRES", "EXCLUDES", "AND", "OR", "XOR", "IMPLIES", "NOT", "EQUIVALENCE", "EQUALS", "LOWER",
          "GREATER", "LOWER_EQUALS", "GREATER_EQUALS", "NOT_EQUALS", "ADD", "SUB", "MUL", "DIV", "SUM", "AVG",
          "LEN", "FLOOR", "CEIL"]
def _ftype_values():
    tree = ast.parse(open(os.path.join(REPO_PKG, "models/feature_model.py"), encoding="utf-8").read())
    for n in tree.body:
        if isinstance(n, ast.ClassDef) and n.name == "FeatureType":
            vals = {t.id: st.value.value for st in n.body if isinstance(st, ast.Assign) for t in st.targets
                    if isinstance(t, ast.Name) and isinstance(st.value, ast.Constant)}
            if set(vals) == set(FTYPE_MEMBERS):
                return vals
    raise Fail("FeatureType is not the enum of four members the model knows")
CORE_CONSTS = {"LOGICAL_OPERATORS": ("logical_ops", List(ASTOP)),
               "ARITHMETIC_OPERATORS": ("arithmetic_ops", List(ASTOP)),
               "AGGREGATION_OPERATORS": ("aggregation_ops", List(ASTOP))}

# attributes of the objects (PyRt.v / Model/FM.v / Model/Ast.v): (class, attribute) -> (code, type)
ATTRS = {
    ("Relation", "card_min"): ("(r_min (fst {0}))", INT),
    ("Relation", "card_max"): ("(r_max (fst {0}))", INT),
    ("Relation", "children"): ("(lr_children {0})", List(FEATURE)),
    ("Relation", "parent"): ("(lr_parent {0})", FEATURE),
    ("Feature", "name"): ("(name (fst {0}))", STR),
    ("Feature", "relations"): ("(lf_relations {0})", List(RELATION)),
    ("Feature", "parent"): ("(lf_parent {0})", Opt(FEATURE)),
    ("Feature", "feature_type"): ("(f_type (info (fst {0})))", FTYPE),
    ("Feature", "feature_cardinality"): ("{0}", CARD),
    ("Cardinality", "min"): ("(f_cmin (info (fst {0})))", INT),
    ("Cardinality", "max"): ("(f_cmax (info (fst {0})))", INT),
    ("FeatureModel", "root"): ("(fm_root_l {0})", FEATURE),
    ("FeatureModel", "ctcs"): ("(ctcs {0})", List(CTC)),
    ("Constraint", "ast"): ("(c_ast {0})", ASTT),
    ("Constraint", "_ast"): ("(c_ast {0})", ASTT),
    ("Constraint", "name"): ("(c_name {0})", STR),
    ("AST", "root"): ("{0}", NODE),
    ("Node", "left"): ("(n_left {0})", Opt(NODE)),
    ("Node", "right"): ("(n_right {0})", Opt(NODE)),
    ("Node", "data"): ("(n_data {0})", NDATA),
    ("Element", "tag"): ("(x_tag {0})", STR),
    ("Element", "text"): ("(x_text {0})", Opt(STR)),
    ("Element", "attrib"): ("(x_attrs {0})", Dict(STR, STR)),
    ("Feature", "is_abstract"): ("(f_abstract (info (fst {0})))", ANY),
    ("Feature", "attributes"): ("(f_attrs (info (fst {0})))", List(ATTRIBUTE)),
    ("Attribute", "name"): ("(a_name {0})", STR),
    ("Attribute", "default_value"): ("(a_default {0})", ANY),
    ("Attribute", "null_value"): ("(a_null {0})", ANY),
    ("Attribute", "domain"): ("(a_dom {0})", Opt(DOMAIN)),
    ("PFeature", "name"): ("(name {0})", STR),
    ("Domain", "range_list"): ("(dom_ranges {0})", List(RANGE)),
    ("Domain", "element_list"): ("(dom_elems {0})", List(ANY)),
    ("Range", "min_value"): ("(rg_min {0})", ANY),
    ("Range", "max_value"): ("(rg_max {0})", ANY),
}
# methods of the flamapy.core objects (hand model Model/Ast.v, as everywhere in this development)
EXT_METHODS = {
    ("Node", "is_term"): ("(is_term {0})", BOOL),
    ("Node", "is_op"): ("(is_op {0})", BOOL),
    ("Node", "is_unique_term"): ("(is_unique_term {0})", BOOL),
    ("Node", "is_unary_op"): ("(is_unary_op {0})", BOOL),
    ("Node", "is_binary_op"): ("(is_binary_op {0})", BOOL),
    ("AST", "get_operators"): ("(get_operators {0})", List(ASTOP)),
    ("AST", "pretty_str"): ("(pretty_str {0})", STR, True),
    ("AST", "get_clauses"): ("(get_clauses {0})", List(List(NDATA)), True),
}


# the source annotates the data of a term node as `str`; it is any term data (string, number, Boolean)
OVERRIDE_RET = {("Constraint", "get_features"): List(NDATA),
                (None, "left_right_features_from_simple_constraint"): Tup([NDATA, NDATA])}
OVERRIDE_VAR = {("Constraint", "get_features", "features"): Dict(NDATA, NONE)}
OVERRIDE_PARAM = {(None, "_double_literal", "value"): FLOAT}


# functions of flamapy.core.models.ast (hand model Model/Ast.v, as everywhere in this development)
EXT_FUNCS = {
    "simplify_formula": ([ASTT], "(simplify_fuel (default_fuel {0}) {0})", ASTT),
    "propagate_negation": ([NODE], "(propagate_negation {0} false)", ASTT),
    "to_cnf": ([ASTT], "(to_cnf_fuel (default_fuel {0}) {0})", ASTT),
}


# class-level dict tables, regenerated by tools/gen_tables*.py into Gen/Tables_*.v as functions to option
CLASS_TABLES = {"GlencoeWriter.CTC_TYPES": ("glencoe_ctc_type", ASTOP, STR),
                "FeatureIDEWriter.CTC_TYPES": ("fide_ctc_type", ASTOP, STR)}

STRING_CONSTS = {"ascii_letters": "abcdefghijklmnopqrstuvwxyzABCDEFGHIJKLMNOPQRSTUVWXYZ", "digits": "0123456789",
                 "ascii_lowercase": "abcdefghijklmnopqrstuvwxyz", "ascii_uppercase": "ABCDEFGHIJKLMNOPQRSTUVWXYZ"}
CHAR = ("char",)          # one element of a str iterated with `for`: a byte of the UTF-8 string (see PyRt.v)

OBJECTS = {}
CTOR_PARAMS = {}      # class name -> [(field, type, init ast)] for classes translated as state records


class FuncInfo:
    def __init__(self, cls, node, coqname):
        self.cls, self.node, self.coqname = cls, node, coqname
        self.params = []      # (name, type, default ast or None)
        self.ret = None
        self.eff = False
        self.fuel = False
        self.rec = False
        self.intrinsic_eff = False
        self.mutator = False
        self.failed = None        # why this function could not be translated
        self.kind = None          # "static" / "class" for methods without a receiver
        self.store = False        # works on set objects: takes and returns the store of sets
        self.inouts = []          # list parameters it mutates: their new values are returned as well
        self.pointer_params = set()   # builder mode: parameters used as parent pointers only
        self.export = False       # returned to the outside: set references in the result are replaced by the sets
        self.group = []
        self.has_while = False
        self.calls = set()


def parse_ann(a, ctx):
    if a is None:
        fail(ctx, "missing type annotation")
    if isinstance(a, ast.Constant) and isinstance(a.value, str):
        return parse_ann(ast.parse(a.value, mode="eval").body, ctx)
    if isinstance(a, ast.Constant) and a.value is None:
        return NONE
    if isinstance(a, ast.Name):
        m = {"int": INT, "bool": BOOL, "str": STR, "float": HUND, "Feature": FEATURE, "Relation": RELATION,
             "FeatureModel": FMODEL, "Constraint": CTC, "AST": ASTT, "Node": NODE, "Any": ANY, "Element": XML,
             "Attribute": ATTRIBUTE, "VariabilityModel": FMODEL, "Domain": DOMAIN, "Range": RANGE}      # execute(model) casts to FeatureModel
        if a.id in OBJECTS:
            return ("obj", a.id)
        if PURE[0] and a.id in ("Feature", "Relation"):
            return PFEATURE if a.id == "Feature" else PRELATION
        if a.id in m:
            return m[a.id]
        fail(a, "unknown annotation")
    if isinstance(a, ast.Subscript) and isinstance(a.value, ast.Name):
        if a.value.id == "Optional":
            return Opt(parse_ann(a.slice, ctx))
        if a.value.id in ("dict", "Dict") and ast.unparse(a.slice) in ("(str, Any)", "str, Any"):
            return ANY
        if a.value.id == "Union" and ast.unparse(a.slice) in ("(int, str)", "int, str"):
            return INTSTR
        if a.value.id in ("set", "Set") and parse_ann(a.slice, ctx) == FEATURE:
            return FSET
        if a.value.id in ("list", "List"):
            return List(parse_ann(a.slice, ctx))
        if a.value.id == "tuple":
            return Tup([parse_ann(x, ctx) for x in a.slice.elts])
        if a.value.id == "dict":
            k, v = a.slice.elts
            return Dict(parse_ann(k, ctx), parse_ann(v, ctx))
    fail(a, "unknown annotation")


class Env:
    def __init__(self, vars_=None, narrow=None, loop_k=None, leaked=None, escaped=None, fresh_nodes=None):
        self.vars = dict(vars_ or {})        # name -> (code, type)
        self.narrow = dict(narrow or {})     # unparse(expr) -> (code, type)
        self.loop_k = loop_k                 # continuation of `continue` / end of a loop body
        self.leaked = set(leaked or ())      # names first bound inside a loop that has ended
        self.escaped = set(escaped or ())    # builder mode: objects stored / passed on / returned on this path
        # (name, 'left'|'right', ...) paths that hold a Node object created on this path by a syntactic Node(...) call and
        # not read as a value since: a field of such an object may be assigned (no other reference to it exists)
        self.fresh_nodes = set(fresh_nodes or ())

    def copy(self):
        return Env(self.vars, self.narrow, self.loop_k, self.leaked, self.escaped, self.fresh_nodes)

    def bind(self, name, code, ty):
        e = self.copy()
        e.vars[name] = (code, ty)
        e.leaked.discard(name)
        e.fresh_nodes = {p for p in e.fresh_nodes if p[0] != name}
        for k in [k for k in e.narrow if k == name or k.startswith(name + ".")]:
            del e.narrow[k]
        return e


class Translator:
    def __init__(self, unit_name, funcs, externals):
        self.unit = unit_name
        self.funcs = funcs            # key -> FuncInfo ; key = (cls, name) or (None, name)
        self.externals = externals    # previously translated units: key -> FuncInfo
        self.counter = 0
        self.cur = None
        self.vartypes = {}
        self.probe = False
        self.enums = {}
        self.module_consts = {}
        self.ifexp_as_str = False
        self.pointer_use = False
        self.escaped = set()
        self.loop_mutations = []
        self.maybe_vars = {}
        self.written = None
        self.join_ifs = False
        self.module_tables = {}
        self.module_strlists = {}
        self.module_oplists = {}
        self.fresh_returning = set()

    def fresh(self, base="v"):
        self.counter += 1
        return f"{base}{self.counter}".replace("$", "the_")

    # ---------------------------------------------------------------- helpers
    def lookup(self, key):
        f = self.funcs.get(key) or self.externals.get(key)
        if f is not None and f.failed:
            raise Fail(f"calls {f.coqname}, which could not be translated")
        return f

    def lift(self, vals, build):
        binds, codes = [], []
        for v in vals:
            if v.eff:
                n = self.fresh()
                binds.append((n, v.code))
                codes.append(n)
            else:
                codes.append(v.code)
        r = build(codes)
        if not binds:
            return r
        inner = r.code if r.eff else f"(Ok {r.code})"
        for n, c in reversed(binds):
            inner = f"(bind {c} (fun {n} => {inner}))"
        self.cur.intrinsic_eff = True
        return Val(inner, r.ty, True)

    def coerce(self, v, ty, ctx):
        if v.ty == ty or ty == UNKNOWN:
            return v
        if v.ty == UNKNOWN:
            return Val(v.code, ty, v.eff)
        if {v.ty, ty} == {ASTT, NODE} or {v.ty, ty} == {HUND, INT}:
            return Val(v.code, ty, v.eff)
        if ty[0] == "opt":
            if v.ty == NONE:
                return Val(f"(@None {coq_ty(ty[1])})" if ty[1] != UNKNOWN else "None", ty, v.eff)
            if v.ty[0] != "opt":
                inner = self.coerce(v, ty[1], ctx)
                return self.lift([inner], lambda c: Val(f"(Some {c[0]})", ty))
            if v.ty[1] == UNKNOWN or ty[1] == UNKNOWN:
                return Val(v.code, ty, v.eff)
        if v.ty[0] == "opt" and ty[0] != "opt":
            self.cur.intrinsic_eff = True
            return self.coerce(self.deref(v), ty, ctx)
        if v.ty[0] == "list" and ty[0] == "list":
            if v.ty[1] == UNKNOWN:
                return Val(v.code, ty, v.eff)
            if ty[1][0] == "opt" and v.ty[1] == ty[1][1]:
                return self.lift([v], lambda c: Val(f"(map (fun x => Some x) {c[0]})", ty))
        if v.ty == BOOL and ty == INT:
            return self.lift([v], lambda c: Val(f"(if {c[0]} then 1%Z else 0%Z)", INT))
        if ty == INTSTR and v.ty == INT:
            return self.lift([v], lambda c: Val(f"(z_to_string {c[0]})", INTSTR))
        if ty == INTSTR and v.ty == STR:
            # a genuine string value must not look like a number (the representation would confuse it with the int)
            if not (v.code.startswith('"') and not v.code.strip('"').lstrip("-").isdigit() and not v.eff):
                fail(ctx, "Union[int, str]: a string value that is not a non-numeric constant")
            return Val(v.code, INTSTR)
        if ty == ANY and v.ty == INTSTR:
            fail(ctx, "Union[int, str] used as a value")
        if v.ty == ANY and ty == List(ANY):
            self.cur.intrinsic_eff = True
            return self.lift([v], lambda c: Val(f"(match {c[0]} with VList l => Ok l | _ => Err TypeError end)", List(ANY), True))
        if v.ty == ANY and ty == INT:
            self.cur.intrinsic_eff = True
            return self.lift([v], lambda c: Val(f"(match {c[0]} with VInt z => Ok z | _ => Err TypeError end)", INT, True))
        if v.ty == ANY and ty == STR:
            self.cur.intrinsic_eff = True
            return self.lift([v], lambda c: Val(f"(match {c[0]} with VStr s => Ok s | _ => Err TypeError end)", STR, True))
        if v.ty == ANY and ty == FLOAT:
            self.cur.intrinsic_eff = True
            return self.lift([v], lambda c: Val(f"(match {c[0]} with VFloat r => Ok r | _ => Err TypeError end)", FLOAT, True))
        if v.ty == NDATA and ty == STR:
            # a literal of a clause is used as text: data that is not a string has no str methods
            self.cur.intrinsic_eff = True
            return self.lift([v], lambda c: Val(f"(match {c[0]} with DStr s => Ok s | _ => Err AttributeError end)", STR, True))
        if ty == ANY:
            wrap = {STR: "(VStr {0})", INT: "(VInt {0})", BOOL: "(VBool {0})", NDATA: "(any_of_data {0})"}  # noqa
            if v.ty in wrap:
                return self.lift([v], lambda c: Val(wrap[v.ty].format(c[0]), ANY))
            if v.ty == NONE:
                return Val("VNone", ANY, v.eff)
            if v.ty[0] == "list":
                if v.ty[1] in (ANY, UNKNOWN):
                    return self.lift([v], lambda c: Val(f"(VList {c[0]})", ANY))
                x = self.fresh("a")
                inner = self.coerce(Val(x, v.ty[1]), ANY, ctx)
                if inner.eff:
                    fail(ctx, "effectful conversion to a JSON value")
                return self.lift([v], lambda c: Val(f"(VList (map (fun {x} => {inner.code}) {c[0]}))", ANY))
        fail(ctx, f"cannot use a value of type {v.ty} as {ty}")

    def deref(self, v):
        """Optional value used as an object: None has no attributes (AttributeError)"""
        assert v.ty[0] == "opt"
        self.cur.intrinsic_eff = True
        return self.lift([v], lambda c: Val(f"(py_need {c[0]})", v.ty[1], True))

    def obj(self, v):
        return self.deref(v) if v.ty[0] == "opt" else v

    # ---------------------------------------------------------------- expressions
    def tr(self, e, env):
        key = None
        if isinstance(e, (ast.Name, ast.Attribute)):
            key = ast.unparse(e)
            if key in env.narrow:
                code, ty = env.narrow[key]
                return Val(code, ty)
        m = getattr(self, "e_" + type(e).__name__, None)
        if m is None:
            fail(e, f"unsupported expression {type(e).__name__}")
        return m(e, env)

    def e_Constant(self, e, env):
        v = e.value
        if v is None:
            return Val("None", NONE)
        if isinstance(v, bool):
            return Val("true" if v else "false", BOOL)
        if isinstance(v, int):
            return Val(f"({v})%Z" if v < 0 else f"{v}%Z", INT)
        if isinstance(v, str):
            return Val(coq_str(v), STR)
        if isinstance(v, float) and v == 0.0:
            return Val("0%Z", HUND)      # `return 0.0`: zero in the units of py_round_div
        fail(e, "unsupported constant")

    def e_Name(self, e, env):
        if e.id in env.vars:
            code, ty = env.vars[e.id]
            if ty == NODE and env.fresh_nodes:
                for p_ in [p_ for p_ in env.fresh_nodes if p_[0] == e.id]:
                    env.fresh_nodes.discard(p_)      # the object (or a part of it) is read as a value: another reference may exist from now on
            if PURE[0] and not self.pointer_use and (ty in (PFEATURE, PRELATION, ATTRIBUTE) or (
                    ty[0] in ("opt", "maybe", "list") and ty[1] in (PFEATURE, PRELATION, ATTRIBUTE))):
                env.escaped.add(e.id)        # the object is stored, passed on or returned: it may not be mutated afterwards
            if ty[0] == "maybe":
                # a variable that is first bound inside a loop and read after it: bound or not is part of the state
                self.cur.intrinsic_eff = True
                return Val(f"(match {code} with Some v => Ok v | None => Err UnboundLocalError end)", ty[1], True)
            return Val(code, ty)
        if e.id in CORE_CONSTS:
            code, ty = CORE_CONSTS[e.id]
            return Val(code, ty)
        if e.id in self.module_consts:
            return Val(coq_str(self.module_consts[e.id]), STR)
        if e.id in self.module_tables:
            return Val(f"py_{e.id}", ("table", e.id))
        if e.id in self.module_oplists:
            return Val("[" + "; ".join(self.module_oplists[e.id]) + "]", List(ASTOP))
        if e.id in self.module_strlists:
            return Val("[" + "; ".join(coq_str(x) for x in self.module_strlists[e.id]) + "]", List(STR))
        if e.id in env.leaked:
            t = self.vartypes.get(e.id)
            if t is None or t == UNKNOWN or e.id in self.maybe_vars:
                fail(e, "a variable first bound inside a loop is read after the loop")
            self.maybe_vars[e.id] = t
            raise Retype()
        if e.id in self.vartypes or e.id in self.assigned_names:
            # a local that is not bound on this path
            self.cur.intrinsic_eff = True
            return Val("(Err UnboundLocalError)", self.vartypes.get(e.id, UNKNOWN), True)
        fail(e, "unknown name")

    def e_Attribute(self, e, env):
        if isinstance(e.value, ast.Name) and e.value.id == "FeatureIDEReader" and (
                e.attr.startswith("TAG_") or e.attr.startswith("ATTRIB_")):
            return Val(f"fide_{e.attr}", STR)
        if isinstance(e.value, ast.Name) and e.value.id == "string" and e.attr in STRING_CONSTS:
            return Val(coq_str(STRING_CONSTS[e.attr]), STR)
        if isinstance(e.value, ast.Name) and e.value.id == "ASTOperation":
            if e.attr in ASTOPS:
                return Val(e.attr, ASTOP)
            fail(e, "unknown ASTOperation member")
        if isinstance(e.value, ast.Name) and e.value.id == "FeatureType":
            if e.attr in FTYPE_MEMBERS:
                return Val(FTYPE_MEMBERS[e.attr], FTYPE)
            fail(e, "unknown FeatureType member")
        if (e.attr == "value" and isinstance(e.value, ast.Attribute) and isinstance(e.value.value, ast.Name)
                and e.value.value.id == "ASTOperation" and e.value.attr in ASTOPS):
            return Val(f"(astop_value {e.value.attr})", STR)
        if (e.attr == "value" and isinstance(e.value, ast.Attribute) and isinstance(e.value.value, ast.Name)
                and e.value.value.id in self.enums):
            members = self.enums[e.value.value.id]
            if e.value.attr not in members:
                fail(e, "unknown enum member")
            return Val(coq_str(members[e.value.attr]), STR)
        o = self.obj(self.tr(e.value, env))
        if o.ty == FTYPE and e.attr == "value":
            return self.lift([o], lambda c: Val(
                "(match " + c[0] + " with " + " | ".join(f"{FTYPE_MEMBERS[k]} => {coq_str(v)}" for k, v in _ftype_values().items()) + " end)", STR))
        if o.ty == NDATA and e.attr == "value":
            # the value of an ASTOperation member; any other data has no such attribute
            self.cur.intrinsic_eff = True
            return self.lift([o], lambda c: Val(
                f"(match {c[0]} with DOp o => Ok (astop_value o) | _ => Err AttributeError end)", STR, True))
        if o.ty[0] == "obj":
            fields = {f: t for f, t, _ in OBJECTS[o.ty[1]]}
            if e.attr not in fields:
                fail(e, f"unknown field of {o.ty[1]}")
            return self.lift([o], lambda c: Val(f"({o.ty[1]}_{e.attr} {c[0]})", fields[e.attr]))
        k = (o.ty[0], e.attr)
        if k not in ATTRS:
            fail(e, f"unknown attribute of {o.ty}")
        tmpl, ty = ATTRS[k]
        return self.lift([o], lambda c: Val(tmpl.format(c[0]), ty))

    def e_JoinedStr(self, e, env):
        parts = []
        for p in e.values:
            if isinstance(p, ast.Constant) and isinstance(p.value, str):
                parts.append(Val(coq_str(p.value), STR))
            elif isinstance(p, ast.FormattedValue) and p.conversion in (-1, 115) and p.format_spec is None:
                v = self.tr(p.value, env)
                if v.ty == STR:
                    parts.append(v)
                elif v.ty == INT:
                    parts.append(self.lift([v], lambda c: Val(f"(z_to_string {c[0]})", STR)))
                elif v.ty == ANY:
                    parts.append(self.lift([v], lambda c: Val(f"(aval_str {c[0]})", STR)))
                elif v.ty in (FLOAT, INTSTR):
                    parts.append(Val(v.code, STR, v.eff))
                elif v.ty in (ASTT, NODE):
                    parts.append(self.lift([v], lambda c: Val(f"(node_str {c[0]})", STR)))
                else:
                    fail(e, f"f-string over {v.ty}")
            else:
                fail(e, "unsupported f-string part")
        if not parts:
            return Val('""', STR)
        return self.lift(parts, lambda c: Val("(" + " ++ ".join(c) + ")%string", STR))

    def e_Tuple(self, e, env):
        vs = [self.tr(x, env) for x in e.elts]
        return self.lift(vs, lambda c: Val("(" + ", ".join(c) + ")", Tup([v.ty for v in vs])))

    def e_List(self, e, env):
        vs = [self.tr(x, env) for x in e.elts]
        t = UNKNOWN
        for v in vs:
            t = join(t, v.ty)
        vs = [self.coerce(v, t, e) for v in vs]
        return self.lift(vs, lambda c: Val("[" + "; ".join(c) + "]", List(t)))

    def e_Dict(self, e, env):
        if not e.keys:
            return Val("(VMap [])", ANY)
        keys = []
        for k in e.keys:
            if not (isinstance(k, ast.Constant) and isinstance(k.value, str)) or k.value in keys:
                fail(e, "dict literal with keys other than distinct string constants")
            keys.append(k.value)
        vals = [self.coerce(self.tr(v, env), ANY, e) for v in e.values]
        return self.lift(vals, lambda c: Val("(VMap [" + "; ".join(
            f"({coq_str(k)}, {x})" for k, x in zip(keys, c)) + "])", ANY))

    def e_UnaryOp(self, e, env):
        if isinstance(e.op, ast.Not):
            return self.tr_if(e.operand, env, lambda en: Val("false", BOOL), lambda en: Val("true", BOOL), e)
        if isinstance(e.op, ast.USub):
            v = self.coerce(self.tr(e.operand, env), INT, e)
            return self.lift([v], lambda c: Val(f"(- {c[0]})%Z", INT))
        fail(e, "unsupported unary operator")

    def e_BinOp(self, e, env):
        a, b = self.tr(e.left, env), self.tr(e.right, env)
        if isinstance(e.op, ast.Div):
            fail(e, "true division is only supported as round(a / b, n)")
        if a.ty[0] == "list" and b.ty[0] == "list" and isinstance(e.op, ast.Add):
            t = List(join(a.ty[1], b.ty[1]))
            a, b = self.coerce(a, t, e), self.coerce(b, t, e)
            return self.lift([a, b], lambda c: Val(f"({c[0]} ++ {c[1]})%list", t))
        if a.ty == INT and b.ty == STR and isinstance(e.op, ast.Mult):
            return self.lift([a, b], lambda c: Val(f"(py_str_repeat {c[1]} {c[0]})", STR))
        if a.ty == STR and b.ty == INT and isinstance(e.op, ast.Mult):
            return self.lift([a, b], lambda c: Val(f"(py_str_repeat {c[0]} {c[1]})", STR))
        if a.ty == STR and b.ty == STR and isinstance(e.op, ast.Add):
            return self.lift([a, b], lambda c: Val(f"({c[0]} ++ {c[1]})%string", STR))
        ops = {ast.Add: "+", ast.Sub: "-", ast.Mult: "*"}
        if type(e.op) in ops:
            a, b = self.coerce(a, INT, e), self.coerce(b, INT, e)
            o = ops[type(e.op)]
            return self.lift([a, b], lambda c: Val(f"({c[0]} {o} {c[1]})%Z", INT))
        fail(e, "unsupported binary operator")

    def e_BoolOp(self, e, env):
        vals = e.values

        def go(i, en):
            if i == len(vals) - 1:
                return self.truthy(self.tr(vals[i], en), vals[i])
            if isinstance(e.op, ast.And):
                return self.tr_if(vals[i], en, lambda e1: go(i + 1, e1), lambda e1: Val("false", BOOL), e)
            return self.tr_if(vals[i], en, lambda e1: Val("true", BOOL), lambda e1: go(i + 1, e1), e)
        return go(0, env)

    def e_IfExp(self, e, env):
        def branch(x):
            def f(en):
                v = self.tr(x, en)
                if self.ifexp_as_str and v.ty == INT:
                    return self.lift([v], lambda c: Val(f"(z_to_string {c[0]})", STR))
                return v
            return f
        # `'*' if m == -1 else m` (Union[int, str], only ever printed): both arms as text
        a = None
        try:
            a, b = self.tr(e.body, env), self.tr(e.orelse, env)
        except Fail:
            pass
        self.ifexp_as_str = a is not None and {a.ty, b.ty} == {STR, INT}
        try:
            return self.tr_if(e.test, env, branch(e.body), branch(e.orelse), e)
        finally:
            self.ifexp_as_str = False

    def eq_code(self, a, b, ctx):
        """a == b"""
        ta, tb = a.ty, b.ty
        if ta == INT and tb == BOOL:
            b, tb = self.coerce(b, INT, ctx), INT
        if ta == BOOL and tb == INT:
            a, ta = self.coerce(a, INT, ctx), INT
        if ta == ANY and tb == STR:
            return self.lift([a, b], lambda c: Val(f"(match {c[0]} with VStr s => String.eqb s {c[1]} | _ => false end)", BOOL))
        if ta == STR and tb == ANY:
            return self.lift([a, b], lambda c: Val(f"(match {c[1]} with VStr s => String.eqb {c[0]} s | _ => false end)", BOOL))
        if INTSTR in (ta, tb) and {ta, tb} <= {INTSTR, INT}:
            a, b = self.coerce(a, INTSTR, ctx), self.coerce(b, INTSTR, ctx)
            return self.lift([a, b], lambda c: Val(f"(String.eqb {c[0]} {c[1]})", BOOL))
        table = {INT: "(Z.eqb {0} {1})", STR: "(String.eqb {0} {1})", BOOL: "(Bool.eqb {0} {1})",
                 FTYPE: "(ftype_eqb {0} {1})", ASTOP: "(astop_eqb {0} {1})"}
        if ta == tb and ta in table:
            return self.lift([a, b], lambda c: Val(table[ta].format(*c), BOOL))
        if ta == NDATA and tb == ASTOP:
            return self.lift([a, b], lambda c: Val(f"(ndata_is_op {c[0]} {c[1]})", BOOL))
        if ta == ASTOP and tb == NDATA:
            return self.lift([a, b], lambda c: Val(f"(ndata_is_op {c[1]} {c[0]})", BOOL))
        if ta == FEATURE and tb == FEATURE:
            f = self.lookup(("Feature", "__eq__"))
            if f is None:
                fail(ctx, "Feature.__eq__ is not translated")
            return self.call_func(f, [a, b], ctx)
        if ta[0] == "tuple" and tb[0] == "tuple" and len(ta[1]) == len(tb[1]):
            xs = [self.fresh("a") for _ in ta[1]]
            ys = [self.fresh("b") for _ in tb[1]]
            eqs = [self.eq_code(Val(x, tx), Val(y, ty_), ctx) for x, y, tx, ty_ in zip(xs, ys, ta[1], tb[1])]
            if any(q.eff for q in eqs):
                fail(ctx, "tuple equality over elements whose == can raise")
            body = " && ".join(q.code for q in eqs)
            return self.lift([a, b], lambda c: Val(
                f"(let '({', '.join(xs)}) := {c[0]} in let '({', '.join(ys)}) := {c[1]} in ({body}))", BOOL))
        if ta[0] == "list" and tb[0] == "list" and b.code == "[]":
            return self.lift([a], lambda c: Val(f"(py_is_nil {c[0]})", BOOL))
        if ta[0] == "list" and tb[0] == "list":
            x, y = self.fresh("x"), self.fresh("y")
            eq = self.eq_code(Val(x, ta[1]), Val(y, tb[1]), ctx)
            if eq.eff:
                fail(ctx, "list equality over elements whose == can raise")
            return self.lift([a, b], lambda c: Val(f"(py_list_eqb (fun {x} {y} => {eq.code}) {c[0]} {c[1]})", BOOL))
        for cls, t in (("Relation", RELATION), ("Constraint", CTC), ("FeatureModel", FMODEL)):
            if ta == t and tb == t:
                f = self.lookup((cls, "__eq__"))
                if f is None:
                    fail(ctx, f"{cls}.__eq__ is not translated")
                return self.call_func(f, [a, b], ctx)
        fail(ctx, f"no equality for {ta} == {tb}")

    def lt_code(self, a, b, ctx):
        """a < b"""
        ta, tb = a.ty, b.ty
        if ta == INT and tb == INT:
            return self.lift([a, b], lambda c: Val(f"(Z.ltb {c[0]} {c[1]})", BOOL))
        if ta == STR and tb == STR:
            return self.lift([a, b], lambda c: Val(f"(str_ltb {c[0]} {c[1]})", BOOL))
        for cls, t in (("Feature", FEATURE), ("Relation", RELATION), ("Constraint", CTC)):
            if ta == t and tb == t:
                f = self.lookup((cls, "__lt__"))
                if f is None:
                    fail(ctx, f"{cls}.__lt__ is not translated")
                return self.call_func(f, [a, b], ctx)
        if ta[0] == "list" and tb[0] == "list":
            x, y = self.fresh("x"), self.fresh("y")
            lt = self.lt_code(Val(x, ta[1]), Val(y, tb[1]), ctx)
            eq = self.eq_code(Val(x, ta[1]), Val(y, tb[1]), ctx)
            if lt.eff or eq.eff:
                fail(ctx, "list order over elements whose comparison can raise")
            return self.lift([a, b], lambda c: Val(
                f"(py_list_ltb (fun {x} {y} => {lt.code}) (fun {x} {y} => {eq.code}) {c[0]} {c[1]})", BOOL))
        if ta[0] == "tuple" and tb[0] == "tuple" and len(ta[1]) == len(tb[1]):
            # first position where the two differ (by ==) decides with <; no such position: not less
            xs = [self.fresh("a") for _ in ta[1]]
            ys = [self.fresh("b") for _ in tb[1]]
            code = "false"
            for x, y, tx, ty_ in reversed(list(zip(xs, ys, ta[1], tb[1]))):
                eq = self.eq_code(Val(x, tx), Val(y, ty_), ctx)
                lt = self.lt_code(Val(x, tx), Val(y, ty_), ctx)
                if eq.eff or lt.eff:
                    fail(ctx, "tuple order over elements whose comparison can raise")
                code = f"(if {eq.code} then {code} else {lt.code})"
            return self.lift([a, b], lambda c: Val(
                f"(let '({', '.join(xs)}) := {c[0]} in let '({', '.join(ys)}) := {c[1]} in {code})", BOOL))
        fail(ctx, f"no order for {ta} < {tb}")

    def in_table(self, a, tname, ctx):
        fn = f"py_{tname}"
        if a.ty == NDATA:
            return self.lift([a], lambda c: Val(
                f"(match {c[0]} with DOp o => match {fn} o with Some _ => true | None => false end | _ => false end)", BOOL))
        fail(ctx, f"`in` on a table with a key of type {a.ty}")

    def in_code(self, a, l, ctx):
        if a.ty == ANY and l.ty[0] == "tuple" and set(l.ty[1]) == {STR} and not l.eff:
            l = Val("[" + l.code[1:-1].replace(", ", "; ") + "]", List(STR))
        if a.ty == ANY and l.ty == List(STR):
            return self.lift([a, l], lambda c: Val(
                f"(match {c[0]} with VStr s => existsb (String.eqb s) {c[1]} | _ => false end)", BOOL))
        if a.ty == NDATA and l.ty[0] == "dict" and l.ty[1] == STR:
            return self.lift([a, l], lambda c: Val(
                f"(match {c[0]} with DStr s => existsb (fun p => String.eqb (fst p) s) {c[1]} | _ => false end)", BOOL))
        if a.ty == STR and l.ty[0] == "dict" and l.ty[1] == STR:
            return self.lift([a, l], lambda c: Val(f"(existsb (fun p => String.eqb (fst p) {c[0]}) {c[1]})", BOOL))
        if a.ty == STR and l.ty == List(NDATA):
            return self.lift([a, l], lambda c: Val(
                f"(existsb (fun d => match d with DStr s => String.eqb s {c[0]} | _ => false end) {c[1]})", BOOL))
        if a.ty == STR and l.ty == ANY:
            return self.lift([a, l], lambda c: Val(f"(aval_has {c[1]} {c[0]})", BOOL))
        if a.ty == CHAR and l.ty == STR:
            return self.lift([a, l], lambda c: Val(f"(str_contains_char {c[0]} {c[1]})", BOOL))
        if a.ty == STR and l.ty == STR and a.code.startswith('"') and len(a.code) == 3:
            return self.lift([l], lambda c: Val(f"(str_contains_char {a.code}%char {c[0]})", BOOL))
        if l.ty[0] == "tuple" and len(set(l.ty[1])) == 1 and l.code.startswith("(") and not l.eff:
            l = Val("[" + l.code[1:-1].replace(", ", "; ") + "]", List(l.ty[1][0]))
        if l.ty[0] != "list":
            fail(ctx, f"`in` on {l.ty}")
        if a.ty == NDATA and l.ty[1] == ASTOP:
            return self.lift([a, l], lambda c: Val(f"(ndata_in_ops {c[0]} {c[1]})", BOOL))
        x = self.fresh("y")
        eq = self.eq_code(Val(x, l.ty[1]), Val("{A}", a.ty), ctx)     # item == a  (item.__eq__(a))
        if eq.eff:
            fail(ctx, "effectful equality inside `in`")
        return self.lift([a, l], lambda c: Val(f"(existsb (fun {x} => {eq.code.replace('{A}', c[0])}) {c[1]})", BOOL))

    def e_Compare(self, e, env):
        operands = [e.left] + list(e.comparators)
        if len(e.ops) == 1 and isinstance(e.ops[0], (ast.Is, ast.IsNot)):
            if not (isinstance(e.comparators[0], ast.Constant) and e.comparators[0].value is None):
                fail(e, "`is` / `is not` between values (object identity) is not supported")
            return self.tr_if(e, env, lambda en: Val("true", BOOL), lambda en: Val("false", BOOL), e)
        vals = [self.tr(x, env) for x in operands]
        if any(v.eff for v in vals) and len(vals) > 2:
            fail(e, "chained comparison with effects")
        parts = []
        for i, op in enumerate(e.ops):
            a, b = vals[i], vals[i + 1]
            if isinstance(op, ast.Eq):
                parts.append(self.eq_code(a, b, e))
            elif isinstance(op, ast.NotEq):
                r = self.eq_code(a, b, e)
                parts.append(self.lift([r], lambda c: Val(f"(negb {c[0]})", BOOL)))
            elif isinstance(op, (ast.In, ast.NotIn)) and b.ty[0] == "table":
                r = self.in_table(a, b.ty[1], e)
                parts.append(r if isinstance(op, ast.In) else self.lift([r], lambda c: Val(f"(negb {c[0]})", BOOL)))
            elif isinstance(op, ast.In):
                parts.append(self.in_code(a, b, e))
            elif isinstance(op, ast.NotIn):
                r = self.in_code(a, b, e)
                parts.append(self.lift([r], lambda c: Val(f"(negb {c[0]})", BOOL)))
            elif isinstance(op, ast.Lt) and not (a.ty in (INT, BOOL) and b.ty in (INT, BOOL)):
                parts.append(self.lt_code(a, b, e))
            elif isinstance(op, (ast.Lt, ast.Gt, ast.LtE, ast.GtE)):
                a, b = self.coerce(a, INT, e), self.coerce(b, INT, e)
                t = {ast.Lt: "(Z.ltb {0} {1})", ast.Gt: "(Z.ltb {1} {0})", ast.LtE: "(Z.leb {0} {1})",
                     ast.GtE: "(Z.leb {1} {0})"}[type(op)]
                parts.append(self.lift([a, b], lambda c, t=t: Val(t.format(*c), BOOL)))
            else:
                fail(e, "unsupported comparison")
        if len(parts) == 1:
            return parts[0]
        if any(p.eff for p in parts):
            fail(e, "chained comparison with effects")
        return Val("(" + " && ".join(p.code for p in parts) + ")", BOOL)

    def coll_len(self, a, env, ctx):
        """len() of a collection given to get_ratio: a list, the keys of a dict, the listing of another metric"""
        v = self.obj(self.tr(a, env))
        if v.ty[0] in ("list", "dict"):
            return self.lift([v], lambda c: Val(f"(py_len {c[0]})", INT))
        fail(ctx, f"get_ratio over {v.ty}")

    def construct_result(self, e, env):
        """Metrics.construct_result(name=…, doc=…, result=…, size=…, ratio=…, parent=…, level=…) of flamapy.core: the
        entry as a record (the documentation string is not represented)"""
        kw = {k.arg: k.value for k in e.keywords}
        if not set(kw) <= {"name", "doc", "result", "size", "ratio", "parent", "level"} or not {"name", "result"} <= set(kw):
            fail(e, "construct_result with unexpected arguments")
        if "doc" in kw and not (isinstance(kw["doc"], ast.Attribute) and kw["doc"].attr == "__doc__"):
            fail(e, "doc= other than a docstring")
        nm = self.coerce(self.tr(kw["name"], env), STR, e)
        r = self.tr(kw["result"], env)
        wrap = {List(STR): "(PMNames {0})", STR: "(PMStr {0})", INT: "(PMInt {0})", HUND: "(PMHund {0})",
                List(NDATA): "(PMNames (map data_str {0}))", List(UNKNOWN): "(PMNames {0})"}
        rt = r.ty
        if rt[0] == "dict" and rt[2] == NONE:          # list(dict.fromkeys(...)) handled by list(); a bare dict is not a listing
            fail(e, "result= a dict")
        if rt not in wrap:
            fail(e, f"result= of type {rt}")
        rv = self.lift([r], lambda c: Val(wrap[rt].format(c[0]), ("mres",)))

        def opt(key, ty):
            if key not in kw:
                return Val("None", NONE)
            v = self.coerce(self.tr(kw[key], env), ty, e)
            return self.lift([v], lambda c: Val(f"(Some {c[0]})", Opt(ty)))
        size, ratio, parent = opt("size", INT), opt("ratio", RATIO), opt("parent", STR)
        level = self.coerce(self.tr(kw["level"], env), INT, e) if "level" in kw else Val("0%Z", INT)
        return self.lift([nm, rv, size, ratio, parent, level], lambda c: Val(
            f"{{| pm_name := {c[0]}; pm_result := {c[1]}; pm_size := {c[2]}; pm_ratio := {c[3]}; pm_parent := {c[4]}; "
            f"pm_level := {c[5]} |}}", METRIC))

    def pointer(self, e, env):
        """an expression used only as a parent pointer (builder mode): evaluated for its effects, not a value use"""
        old, self.pointer_use = self.pointer_use, True
        try:
            return self.tr(e, env)
        finally:
            self.pointer_use = old

    def mutating(self, name, ctx, env):
        """builder mode: `name` is about to be changed in place — sound as a rebinding only while no other reference exists"""
        if PURE[0]:
            if name in env.escaped:
                fail(ctx, f"{name} is changed after it was stored, passed on or returned (aliasing is not representable)")
            for frame in self.loop_mutations:
                frame.add(name)

    def truthy(self, v, ctx):
        if v.ty == BOOL:
            return v
        if v.ty[0] == "list" or v.ty[0] == "dict":
            return self.lift([v], lambda c: Val(f"(negb (py_is_nil {c[0]}))", BOOL))
        if v.ty == ANY:
            return self.lift([v], lambda c: Val(f"(aval_truthy {c[0]})", BOOL))
        if v.ty in (FEATURE, RELATION, FMODEL, CTC, ASTT, NODE) and not v.eff:
            return Val("true", BOOL)          # an object without __bool__ / __len__ (and, by its annotation, not None)
        if v.ty == INT:
            return self.lift([v], lambda c: Val(f"(negb (Z.eqb {c[0]} 0%Z))", BOOL))
        fail(ctx, f"truth value of {v.ty}")

    def stable(self, e):
        """an expression whose value cannot change between a test and its use inside one expression /
        straight-line continuation: a name or an attribute chain on a name"""
        while isinstance(e, ast.Attribute):
            e = e.value
        return isinstance(e, ast.Name)

    def tr_if(self, cond, env, then_fn, else_fn, ctx, stmt=False):
        """code of `then if cond else else_`, with narrowing; then_fn / else_fn : Env -> Val.
        stmt: the branches are statement continuations (code of the enclosing block's type already)"""
        if isinstance(cond, ast.UnaryOp) and isinstance(cond.op, ast.Not):
            return self.tr_if(cond.operand, env, else_fn, then_fn, ctx, stmt)
        if isinstance(cond, ast.BoolOp):
            vals = cond.values

            def go(i, en):
                if i == len(vals) - 1:
                    return self.tr_if(vals[i], en, then_fn, else_fn, ctx, stmt)
                if isinstance(cond.op, ast.And):
                    return self.tr_if(vals[i], en, lambda e1: go(i + 1, e1), else_fn, ctx, stmt)
                return self.tr_if(vals[i], en, then_fn, lambda e1: go(i + 1, e1), ctx, stmt)
            return go(0, env)
        if (isinstance(cond, ast.Compare) and len(cond.ops) == 1 and isinstance(cond.ops[0], (ast.Is, ast.IsNot))
                and isinstance(cond.comparators[0], ast.Constant) and cond.comparators[0].value is None):
            x = self.tr(cond.left, env)
            some_fn, none_fn = (then_fn, else_fn) if isinstance(cond.ops[0], ast.IsNot) else (else_fn, then_fn)
            if x.ty == NONE:
                return none_fn(env)
            if x.ty == ANY:
                a, b = some_fn(env.copy()), none_fn(env.copy())
                return self.merge_branches(x, lambda c: (f"match {c} with VNone => ", " | _ => ", " end"), b, a, ctx, stmt)
            if x.ty[0] != "opt":
                return some_fn(env)         # annotated as never None
            v = self.fresh("s")
            en = env.copy()
            if self.stable(cond.left):
                en.narrow[ast.unparse(cond.left)] = (v, x.ty[1])
            a, b = some_fn(en), none_fn(env.copy())
            return self.merge_branches(x, lambda c: (f"match {c} with Some {v} => ", " | None => ", " end"), a, b, ctx, stmt)
        c = self.truthy(self.tr(cond, env), cond)
        a, b = then_fn(env.copy()), else_fn(env.copy())
        if not stmt and not c.eff and not a.eff and not b.eff and a.ty == BOOL and b.ty == BOOL:
            if b.code == "false":
                return Val(f"({c.code} && {a.code})", BOOL)
            if a.code == "true":
                return Val(f"({c.code} || {b.code})", BOOL)
            if a.code == "false" and b.code == "true":
                return Val(f"(negb {c.code})", BOOL)
        return self.merge_branches(c, lambda cc: (f"if {cc} then ", " else ", ""), a, b, ctx, stmt)

    def merge_branches(self, scrut, shape, a, b, ctx, stmt=False):
        if stmt:
            def build_s(c):
                p, m, s = shape(c[0])
                return Val(f"({p}{a.code}{m}{b.code}{s})", UNKNOWN, self.mode_eff)
            if scrut.eff and not self.mode_eff:
                raise Fail(f"{self.cur.coqname}: effectful condition in a function translated as pure")
            if scrut.eff:
                n = self.fresh()
                return Val(f"(bind {scrut.code} (fun {n} => {build_s([n]).code}))", UNKNOWN, True)
            return build_s([scrut.code])
        ty = join(a.ty, b.ty)
        a, b = self.coerce(a, ty, ctx), self.coerce(b, ty, ctx)
        eff = a.eff or b.eff
        ca = a.code if a.eff or not eff else f"(Ok {a.code})"
        cb = b.code if b.eff or not eff else f"(Ok {b.code})"

        def build(c):
            p, m, s = shape(c[0])
            return Val(f"({p}{ca}{m}{cb}{s})", ty, eff)
        return self.lift([scrut], build)

    # comprehensions --------------------------------------------------------------------------
    def comp(self, elt, gens, env, ctx):
        """[elt for .. in .. if ..] as nested flat_map; returns Val of list type"""
        g = gens[0]
        src = self.iterable(g.iter, env)
        en, pat = self.bind_target(g.target, src.ty[1], env)

        def inner(en2):
            if len(gens) > 1:
                return self.comp(elt, gens[1:], en2, ctx)
            v = self.tr(elt, en2)
            return self.lift([v], lambda c: Val(f"[{c[0]}]", List(v.ty)))

        def conds(i, en2):
            if i == len(g.ifs):
                return inner(en2)
            return self.tr_if(g.ifs[i], en2, lambda e3: conds(i + 1, e3), lambda e3: Val("[]", List(UNKNOWN)), ctx)
        body = conds(0, en)
        self.last_comp_body_eff = body.eff
        if body.eff:
            return self.lift([src], lambda c: Val(f"(py_flat_mapM (fun {pat} => {body.code}) {c[0]})", body.ty, True))
        return self.lift([src], lambda c: Val(f"(flat_map (fun {pat} => {body.code}) {c[0]})", body.ty))

    def e_DictComp(self, e, env):
        pair = ast.Tuple(elts=[e.key, e.value], ctx=ast.Load())
        ast.copy_location(pair, e)
        l = self.comp(pair, e.generators, env, e)
        kt, vt = l.ty[1][1]
        if kt != STR:
            fail(e, "dict comprehension with keys other than str")
        return self.lift([l], lambda c: Val(f"(py_dict_of_pairs String.eqb {c[0]})", Dict(kt, vt)))

    def e_ListComp(self, e, env):
        return self.comp(e.elt, e.generators, env, e)

    def e_GeneratorExp(self, e, env):
        return self.comp(e.elt, e.generators, env, e)

    def iterable(self, e, env):
        v = self.obj(self.tr(e, env))
        if v.ty[0] == "list":
            return v
        if v.ty == STR:
            return self.lift([v], lambda c: Val(f"(list_ascii_of_string {c[0]})", List(CHAR)))
        if v.ty == XML:
            return self.lift([v], lambda c: Val(f"(x_children {c[0]})", List(XML)))
        if v.ty == ANY:
            return self.coerce(v, List(ANY), e)
        if v.ty[0] == "tuple" and len(set(v.ty[1])) == 1 and v.code.startswith("(") and not v.eff:
            return Val("[" + v.code[1:-1].replace(", ", "; ") + "]", List(v.ty[1][0]))
        fail(e, f"cannot iterate over {v.ty}")

    def bind_target(self, target, ty, env):
        if isinstance(target, ast.Name):
            n = self.fresh(target.id + "_")
            return env.bind(target.id, n, ty), n
        if isinstance(target, ast.Tuple) and ty[0] == "tuple" and len(ty[1]) == len(target.elts) and all(
                isinstance(t, ast.Name) for t in target.elts):
            names = [self.fresh(t.id + "_") for t in target.elts]
            en = env
            for t, n, tt in zip(target.elts, names, ty[1]):
                en = en.bind(t.id, n, tt)
            return en, "'(" + ", ".join(names) + ")"
        fail(target, f"unsupported loop target for {ty}")

    # calls -----------------------------------------------------------------------------------
    def call_func(self, f, args, ctx):
        """args: Vals in parameter order (receiver first for methods)"""
        self.cur.calls.add(f.coqname)
        ps = f.params
        if len(args) > len(ps):
            fail(ctx, "too many arguments")
        args = list(args)
        for (pn, pt, pd) in ps[len(args):]:
            if pd is None:
                fail(ctx, f"missing argument {pn}")
            args.append(self.tr(pd, Env()))
        args = [self.coerce(a, pt, ctx) for a, (pn, pt, pd) in zip(args, ps)]
        fuel = " fuel" if f.fuel else ""

        def build(c):
            return Val(f"({f.coqname}{fuel} " + " ".join(c) + ")", f.ret, f.eff)
        return self.lift(args, build)

    def e_Call(self, e, env):
        fn = e.func
        if isinstance(fn, ast.Attribute) and isinstance(fn.value, ast.Name) and fn.value.id == "self" \
                and fn.attr == "construct_result":
            return self.construct_result(e, env)
        if e.keywords and not (isinstance(fn, ast.Name) and (fn.id in ("sorted", "min") or (
                PURE[0] and fn.id in ("Feature", "Relation", "Attribute", "FeatureModel")))):
            fail(e, "keyword arguments")
        if isinstance(fn, ast.Name):
            return self.call_name(fn.id, e, env)
        if isinstance(fn, ast.Attribute):
            if isinstance(fn.value, ast.Name) and fn.value.id == "itertools" and fn.attr == "combinations" and len(e.args) == 2:
                l = self.arg_list(e.args[0], env)
                k = self.coerce(self.tr(e.args[1], env), INT, e)
                # a combination (a tuple in Python) is a list here
                self.cur.intrinsic_eff = True
                return self.lift([l, k], lambda c: Val(f"(py_combinations {c[0]} {c[1]})", List(l.ty), True))
            if isinstance(fn.value, ast.Name) and fn.value.id == "statistics" and fn.attr in ("mean", "median") and len(e.args) == 1:
                l = self.arg_list(e.args[0], env, INT)
                self.cur.intrinsic_eff = True
                t = MEANT if fn.attr == "mean" else HALF
                return self.lift([l], lambda c: Val(f"(py_stat_{fn.attr} {c[0]})", t, True))
            if isinstance(fn.value, ast.Name) and fn.value.id == "dict" and fn.attr == "fromkeys" and len(e.args) == 1:
                l = self.arg_list(e.args[0], env)
                x, y = self.fresh("x"), self.fresh("y")
                eq = self.eq_code(Val(x, l.ty[1]), Val(y, l.ty[1]), e) if l.ty[1] != NDATA else Val(f"(ndata_key_eqb {x} {y})", BOOL)
                if eq.eff:
                    fail(e, "dict.fromkeys over keys whose == can raise")
                return self.lift([l], lambda c: Val(
                    f"(map (fun k => (k, tt)) (py_dedup (fun {x} {y} => {eq.code}) {c[0]}))", Dict(l.ty[1], NONE)))
            if isinstance(fn.value, ast.Name) and fn.value.id == "self" and fn.attr == "construct_result" and not e.args:
                return self.construct_result(e, env)
            if isinstance(fn.value, ast.Name) and fn.value.id == "self" and fn.attr == "get_ratio" and len(e.args) in (2, 3):
                a = self.coll_len(e.args[0], env, e)
                b = self.coll_len(e.args[1], env, e)
                pr = self.coerce(self.tr(e.args[2], env), INT, e) if len(e.args) == 3 else Val("4%Z", INT)
                return self.lift([a, b, pr], lambda c: Val(f"(py_get_ratio {c[0]} {c[1]} {c[2]})", RATIO))
            if isinstance(fn.value, ast.Name) and fn.value.id == "functools" and fn.attr == "reduce" and len(e.args) == 2 \
                    and isinstance(e.args[0], ast.Lambda) and len(e.args[0].args.args) == 2:
                lam = e.args[0]
                l = self.arg_list(e.args[1], env)
                a1, a2 = self.fresh(lam.args.args[0].arg + "_"), self.fresh(lam.args.args[1].arg + "_")
                body = self.tr(lam.body, env.bind(lam.args.args[0].arg, a1, l.ty[1]).bind(lam.args.args[1].arg, a2, l.ty[1]))
                if body.eff or body.ty != l.ty[1]:
                    fail(e, "reduce() with a function that can raise or changes the type")
                self.cur.intrinsic_eff = True
                return self.lift([l], lambda c: Val(f"(py_reduce (fun {a1} {a2} => {body.code}) {c[0]})", l.ty[1], True))
            if isinstance(fn.value, ast.Name) and fn.value.id == "re" and fn.attr == "fullmatch" and len(e.args) == 2 \
                    and isinstance(e.args[0], ast.Constant) and e.args[0].value == "[A-Za-z][A-Za-z0-9_]*":
                v = self.coerce(self.tr(e.args[1], env), STR, e)
                # the one pattern the writers use; a match object is truthy, None is not
                return self.lift([v], lambda c: Val(f"(py_is_identifier {c[0]})", BOOL))
            if isinstance(fn.value, ast.Name) and fn.value.id == "math" and fn.attr == "isfinite" and len(e.args) == 1:
                v = self.coerce(self.tr(e.args[0], env), FLOAT, e)
                return self.lift([v], lambda c: Val(f"(py_float_isfinite {c[0]})", BOOL))
            if isinstance(fn.value, ast.Name) and fn.value.id == "math" and fn.attr == "prod":
                l = self.arg_list(e.args[0], env, INT)
                return self.lift([l], lambda c: Val(f"(py_prod {c[0]})", INT))
            if isinstance(fn.value, ast.Name) and (fn.value.id == "cls" or (fn.value.id in OBJECTS and fn.value.id not in env.vars)):
                cname = self.cur.cls if fn.value.id == "cls" else fn.value.id
                f = self.lookup((cname, fn.attr))
                if f is None or f.kind not in ("static", "class"):
                    fail(e, f"{cname}.{fn.attr} is not a translated static / class method")
                return self.call_func(f, [self.tr(a, env) for a in e.args], e)
            recv = self.obj(self.tr(fn.value, env))
            k = (recv.ty[1] if recv.ty[0] == "obj" else recv.ty[0], fn.attr)
            f0 = self.lookup(k)
            if f0 is not None and f0.kind in ("static", "class"):
                return self.call_func(f0, [self.tr(a, env) for a in e.args], e)
            f = self.lookup(k)
            if f is not None:
                return self.call_func(f, [recv] + [
                    self.pointer(a, env) if i + 1 < len(f.params) and f.params[i + 1][0] in f.pointer_params
                    else self.tr(a, env) for i, a in enumerate(e.args)], e)
            if k in EXT_METHODS and not e.args:
                tmpl, ty = EXT_METHODS[k][:2]
                eff = len(EXT_METHODS[k]) > 2
                if eff:
                    self.cur.intrinsic_eff = True
                return self.lift([recv], lambda c: Val(tmpl.format(c[0]), ty, eff))
            if recv.ty == STR and fn.attr == "replace" and len(e.args) == 2 and all(
                    isinstance(a, ast.Constant) and isinstance(a.value, str) for a in e.args) and \
                    len(e.args[0].value) == 1 and e.args[1].value == "":
                ch = coq_str(e.args[0].value)
                return self.lift([recv], lambda c: Val(f"(str_remove_char {ch}%char {c[0]})", STR))
            if recv.ty == ANY and fn.attr == "get" and len(e.args) == 2:
                kk = self.coerce(self.tr(e.args[0], env), STR, e)
                dd = self.coerce(self.tr(e.args[1], env), ANY, e)
                return self.lift([recv, kk, dd], lambda c: Val(f"(aval_get_default {c[0]} {c[1]} {c[2]})", ANY))
            if recv.ty == ANY and fn.attr == "get" and len(e.args) == 1:
                kk = self.coerce(self.tr(e.args[0], env), STR, e)
                return self.lift([recv, kk], lambda c: Val(f"(aval_get_default {c[0]} {c[1]} VNone)", ANY))
            if recv.ty == ANY and fn.attr == "items" and not e.args:
                self.cur.intrinsic_eff = True
                return self.lift([recv], lambda c: Val(f"(match {c[0]} with VMap kv => Ok kv | _ => Err AttributeError end)",
                                                       List(Tup([STR, ANY])), True))
            if recv.ty[0] == "dict" and fn.attr == "items" and not e.args:
                return Val(recv.code, List(Tup([recv.ty[1], recv.ty[2]])), recv.eff)
            if recv.ty[0] == "dict" and fn.attr == "keys" and not e.args:
                return self.lift([recv], lambda c: Val(f"(map fst {c[0]})", List(recv.ty[1])))
            if recv.ty == STR and fn.attr == "startswith" and len(e.args) == 1 and isinstance(e.args[0], ast.Constant) \
                    and isinstance(e.args[0].value, str) and len(e.args[0].value) == 1:
                ch = coq_str(e.args[0].value)
                return self.lift([recv], lambda c: Val(f"(starts_with_char {ch}%char {c[0]})", BOOL))
            if recv.ty == STR and fn.attr == "split" and len(e.args) == 1 and isinstance(e.args[0], ast.Constant) \
                    and isinstance(e.args[0].value, str) and len(e.args[0].value) == 1:
                ch = coq_str(e.args[0].value)
                return self.lift([recv], lambda c: Val(f"(str_split {ch}%char {c[0]})", List(STR)))
            if recv.ty == STR and fn.attr == "endswith" and len(e.args) == 1 and isinstance(e.args[0], ast.Constant) \
                    and isinstance(e.args[0].value, str) and len(e.args[0].value) == 1:
                ch = coq_str(e.args[0].value)
                return self.lift([recv], lambda c: Val(f"(ends_with_char {ch}%char {c[0]})", BOOL))
            if recv.ty == STR and fn.attr == "join" and len(e.args) == 1:
                l = self.arg_list(e.args[0], env, STR)
                return self.lift([recv, l], lambda c: Val(f"(str_join {c[0]} {c[1]})", STR))
            if recv.ty == STR and fn.attr == "lower" and not e.args:
                # str.lower(): ASCII lowering (the assumption of C20: names and operators are compared after it)
                return self.lift([recv], lambda c: Val(f"(str_lower {c[0]})", STR))
            if recv.ty == NDATA and fn.attr == "startswith" and len(e.args) == 1:
                a = e.args[0]
                if isinstance(a, ast.Constant) and isinstance(a.value, str) and len(a.value) == 1:
                    ch = coq_str(a.value)
                    # data that is not a string has no startswith: the source tests isinstance first
                    self.cur.intrinsic_eff = True
                    return self.lift([recv], lambda c: Val(
                        f"(match {c[0]} with DStr s => Ok (starts_with_char {ch}%char s) | _ => Err AttributeError end)",
                        BOOL, True))
            fail(e, f"unknown method {fn.attr} of {recv.ty}")
        fail(e, "unsupported call")

    def arg_list(self, a, env, elem=None):
        v = self.obj(self.tr(a, env))
        if v.ty[0] != "list":
            fail(a, f"expected a list, got {v.ty}")
        if elem is not None:
            v = self.coerce(v, List(elem), a) if v.ty[1] != elem else v
        return v

    def call_name(self, name, e, env):
        args = e.args
        f = self.lookup((None, name))
        if f is not None:
            return self.call_func(f, [self.pointer(a, env) if i < len(f.params) and f.params[i][0] in f.pointer_params
                                      else self.tr(a, env) for i, a in enumerate(args)], e)
        if name in EXT_FUNCS and len(args) == len(EXT_FUNCS[name][0]):
            ptys, tmpl, rty = EXT_FUNCS[name]
            vs = [self.coerce(self.tr(a, env), t, e) for a, t in zip(args, ptys)]
            self.cur.intrinsic_eff = True
            return self.lift(vs, lambda c: Val(tmpl.format(*c), rty, True))
        if PURE[0] and name in ("Feature", "Relation", "Attribute", "FeatureModel"):
            order = {"Feature": ["name", "relations", "parent", "is_abstract", "feature_type", "feature_cardinality"],
                     "Relation": ["parent", "children", "card_min", "card_max"],
                     "Attribute": ["name", "domain", "default_value", "null_value"],
                     "FeatureModel": ["root", "constraints"]}[name]
            given = dict(zip(order, args))
            for kw in e.keywords:
                if kw.arg not in order or kw.arg in given:
                    fail(e, f"unknown or repeated argument {kw.arg} of {name}")
                given[kw.arg] = kw.value

            def is_none(k):
                return k not in given or (isinstance(given[k], ast.Constant) and given[k].value is None)
            if name == "Feature":
                if not is_none("relations") or "feature_type" in given or "feature_cardinality" in given or "name" not in given:
                    fail(e, "Feature(...) with other than name / parent / is_abstract")
                if "parent" in given:
                    self.pointer(given["parent"], env)     # evaluated, not represented (no parent pointers in a tree value)
                nm = self.coerce(self.tr(given["name"], env), STR, e)
                ab = self.coerce(self.tr(given["is_abstract"], env), ANY, e) if "is_abstract" in given else Val("(VBool false)", ANY)
                return self.lift([nm, ab], lambda c: Val(
                    f"(Feature {{| f_name := {c[0]}; f_abstract := {c[1]}; f_type := TBoolean; f_cmin := 1%Z; f_cmax := 1%Z; "
                    f"f_attrs := [] |}} [])", PFEATURE))
            if name == "Relation":
                if set(given) != set(order):
                    fail(e, "Relation(...) needs its four arguments")
                self.pointer(given["parent"], env)
                ch = self.coerce(self.tr(given["children"], env), List(PFEATURE), e)
                a = self.coerce(self.tr(given["card_min"], env), INT, e)
                b = self.coerce(self.tr(given["card_max"], env), INT, e)
                return self.lift([a, b, ch], lambda c: Val(f"(Relation {c[0]} {c[1]} {c[2]})", PRELATION))
            if name == "Attribute":
                if not is_none("domain") or "name" not in given:
                    fail(e, "Attribute(...) with a domain")
                nm = self.coerce(self.tr(given["name"], env), STR, e)
                dv = self.coerce(self.tr(given["default_value"], env), ANY, e) if "default_value" in given else Val("VNone", ANY)
                nv = self.coerce(self.tr(given["null_value"], env), ANY, e) if "null_value" in given else Val("VNone", ANY)
                return self.lift([nm, dv, nv], lambda c: Val(
                    f"{{| a_name := {c[0]}; a_dom := None; a_default := {c[1]}; a_null := {c[2]} |}}", ATTRIBUTE))
            if set(given) != {"root", "constraints"}:
                fail(e, "FeatureModel(...) needs root and constraints")
            r = self.coerce(self.tr(given["root"], env), PFEATURE, e)
            cs = self.coerce(self.tr(given["constraints"], env), List(CTC), e)
            return self.lift([r, cs], lambda c: Val(f"{{| root := {c[0]}; ctcs := {c[1]} |}}", FMODEL))
        if name in OBJECTS and not args and not e.keywords and not CTOR_PARAMS.get(name):
            return Val(f"py_{name}_new", ("obj", name))
        if name == "Node" and 1 <= len(args) <= 3:
            d = self.tr(args[0], env)
            if d.ty == ASTOP:
                dv = self.lift([d], lambda c: Val(f"(DOp {c[0]})", NDATA))
            elif d.ty == ANY:
                # Node(<a JSON value>): a string, a number or a Boolean as term data; anything else is rejected before
                self.cur.intrinsic_eff = True
                dv = self.lift([d], lambda c: Val(f"(py_ndata_of_any {c[0]})", NDATA, True))
            elif d.ty == STR:
                dv = self.lift([d], lambda c: Val(f"(DStr {c[0]})", NDATA))
            else:
                dv = self.coerce(d, NDATA, e)
            kids = [self.coerce(self.tr(a, env), NODE, e) for a in args[1:]]
            return self.lift([dv] + kids, lambda c: Val(
                f"(Node {c[0]} " + " ".join(f"(Some {x})" for x in c[1:]) + " None" * (2 - len(c[1:])) + ")", NODE))
        if name == "Constraint" and len(args) == 2:
            n = self.coerce(self.tr(args[0], env), STR, e)
            a = self.coerce(self.tr(args[1], env), NODE, e)
            return self.lift([n, a], lambda c: Val(f"{{| c_name := {c[0]}; c_ast := {c[1]} |}}", CTC))
        if name == "format" and len(args) == 2 and ast.unparse(args[1]) == "'f'" and isinstance(args[0], ast.Call) \
                and ast.unparse(args[0].func) == "Decimal" and len(args[0].args) == 1:
            inner = args[0].args[0]
            if isinstance(inner, ast.Call) and ast.unparse(inner.func) == "repr" and len(inner.args) == 1:
                v = self.coerce(self.tr(inner.args[0], env), FLOAT, e)
            else:
                v = self.coerce(self.tr(inner, env), STR, e)      # the repr of a float held in a str variable
            self.cur.intrinsic_eff = True
            # positional spelling of a finite float (Base/Str.v py_positional, validated by C06 / C11); Decimal raises for inf / nan
            return self.lift([v], lambda c: Val(f"(match py_positional {c[0]} with Some t => Ok t | None => Err ValueError end)", STR, True))
        if name == "escape" and len(args) in (1, 2):
            v = self.coerce(self.tr(args[0], env), STR, e)
            quot = "false"
            if len(args) == 2:
                if ast.unparse(args[1]).replace('"', "'") not in ("{'\\'': '&quot;'}", "{'\"': '&quot;'}".replace('"', "'")) and \
                        not (isinstance(args[1], ast.Dict) and len(args[1].keys) == 1 and args[1].keys[0].value == '"'
                             and args[1].values[0].value == "&quot;"):
                    fail(e, "escape() with entities other than the double quote")
                quot = "true"
            return self.lift([v], lambda c: Val(f"(py_xml_escape {quot} {c[0]})", STR))
        if name == "repr" and len(args) == 1:
            v = self.coerce(self.tr(args[0], env), FLOAT, e)
            return Val(v.code, STR, v.eff)
        if name == "len" and len(args) == 1:
            v = self.obj(self.tr(args[0], env))
            if v.ty == ANY:
                v = self.coerce(v, List(ANY), e)
            if v.ty[0] not in ("list", "dict"):
                fail(e, f"len of {v.ty}")
            return self.lift([v], lambda c: Val(f"(py_len {c[0]})", INT))
        if name in ("any", "all") and len(args) == 1 and isinstance(args[0], (ast.GeneratorExp, ast.ListComp)):
            return self.any_all(name, args[0], env, e)
        if name == "sum" and len(args) == 1:
            v = self.obj(self.tr(args[0], env))
            if v.ty == List(BOOL):
                return self.lift([v], lambda c: Val(f"(py_count {c[0]})", INT))
            if v.ty == List(INT):
                return self.lift([v], lambda c: Val(f"(py_sum {c[0]})", INT))
            fail(e, f"sum of {v.ty}")
        if name == "max" and len(args) == 1:
            v = self.arg_list(args[0], env, INT)
            self.cur.intrinsic_eff = True
            return self.lift([v], lambda c: Val(f"(py_max {c[0]})", INT, True))
        if name == "next" and len(args) == 2 and isinstance(args[0], ast.GeneratorExp):
            l = self.tr(args[0], env)
            d = self.tr(args[1], env)
            if self.last_comp_body_eff or d.eff or len(args[0].generators) != 1:
                fail(e, "next() over a generator whose elements can raise")     # laziness would matter
            t = join(l.ty[1], d.ty)
            lc = self.coerce(l, List(t), e)
            dc = self.coerce(d, t, e)
            return self.lift([lc], lambda c: Val(f"(match {c[0]} with x :: _ => x | [] => {dc.code} end)", t))
        if name == "sorted" and len(args) == 1 and not e.keywords:
            src = self.arg_list(args[0], env)
            x, y = self.fresh("x"), self.fresh("y")
            lt = self.lt_code(Val(x, src.ty[1]), Val(y, src.ty[1]), e)
            if lt.eff:
                fail(e, "sorted() with an order that can raise")
            return self.lift([src], lambda c: Val(f"(py_sorted_lt (fun {x} {y} => {lt.code}) {c[0]})", src.ty))
        if name == "sorted" and len(args) == 1:
            src = self.arg_list(args[0], env)
            kw = {k.arg: k.value for k in e.keywords}
            if set(kw) != {"key"} or not isinstance(kw["key"], ast.Lambda) or len(kw["key"].args.args) != 1:
                fail(e, "sorted() is supported with key=lambda x: <string> only")
            lam = kw["key"]
            v = self.fresh(lam.args.args[0].arg + "_")
            kv = self.tr(lam.body, env.bind(lam.args.args[0].arg, v, src.ty[1]))
            if kv.ty != STR or kv.eff:
                fail(e, "sort key must be a pure string expression")
            return self.lift([src], lambda c: Val(f"(py_sorted_str (fun {v} => {kv.code}) {c[0]})", src.ty))
        if name == "str" and len(args) == 1:
            v = self.tr(args[0], env)
            if v.ty == STR:
                return v
            if v.ty == INT:
                return self.lift([v], lambda c: Val(f"(z_to_string {c[0]})", STR))
            if v.ty == NDATA:
                return self.lift([v], lambda c: Val(f"(data_str {c[0]})", STR))
            if v.ty in (ASTT, NODE):
                return self.lift([v], lambda c: Val(f"(node_str {c[0]})", STR))      # AST.__str__ / Node.__str__ (core)
            if v.ty == ANY:
                return self.lift([v], lambda c: Val(f"(aval_str {c[0]})", STR))
            if v.ty == INTSTR:
                return Val(v.code, STR, v.eff)
            if v.ty == FLOAT:
                return v if False else self.lift([v], lambda c: Val(f"{c[0]}", STR))
            f = self.lookup((v.ty[0], "__str__"))
            if f is not None:
                return self.call_func(f, [v], e)
            fail(e, f"str() of {v.ty}")
        if name == "next" and len(args) == 1 and isinstance(args[0], ast.GeneratorExp):
            l = self.tr(args[0], env)
            if self.last_comp_body_eff or len(args[0].generators) != 1:
                fail(e, "next() over a generator whose elements can raise")
            self.cur.intrinsic_eff = True
            # StopIteration has no member in the exception enum: OtherExn
            return self.lift([l], lambda c: Val(f"(match {c[0]} with x :: _ => Ok x | [] => Err OtherExn end)", l.ty[1], True))
        if name == "range" and len(args) in (1, 2):
            vs = [self.coerce(self.tr(a, env), INT, e) for a in args]
            if len(vs) == 1:
                vs = [Val("0%Z", INT)] + vs
            return self.lift(vs, lambda c: Val(f"(py_range {c[0]} {c[1]})", List(INT)))
        if name == "zip" and len(args) == 2:
            a, b = self.arg_list(args[0], env), self.arg_list(args[1], env)
            return self.lift([a, b], lambda c: Val(f"(combine {c[0]} {c[1]})", List(Tup([a.ty[1], b.ty[1]]))))
        if name == "enumerate" and len(args) == 1:
            a = self.arg_list(args[0], env)
            return self.lift([a], lambda c: Val(f"(py_enumerate_from 0%Z {c[0]})", List(Tup([INT, a.ty[1]]))))
        if name == "list" and len(args) == 1:
            v = self.obj(self.tr(args[0], env))
            if v.ty[0] == "list":
                return v
            if v.ty[0] == "dict":
                return self.lift([v], lambda c: Val(f"(map fst {c[0]})", List(v.ty[1])))
            fail(e, f"list() of {v.ty}")
        if name == "cast" and len(args) == 2:
            return self.tr(args[1], env)
        if name == "AST" and len(args) == 1:
            v = self.tr(args[0], env)
            return self.coerce(v, NODE, e)      # AST(None) fails here (AttributeError) instead of at first use
        if name == "round" and len(args) == 2 and isinstance(args[0], ast.BinOp) and isinstance(args[0].op, ast.Div):
            a = self.coerce(self.tr(args[0].left, env), INT, e)
            b = self.coerce(self.tr(args[0].right, env), INT, e)
            n = self.coerce(self.tr(args[1], env), INT, e)
            self.cur.intrinsic_eff = True
            return self.lift([a, b, n], lambda c: Val(f"(py_round_div {c[0]} {c[1]} {c[2]})", HUND, True))
        if name == "round" and len(args) == 2 and isinstance(args[1], ast.Constant) and args[1].value == 2:
            v = self.tr(args[0], env)
            if v.ty == MEANT:
                return self.lift([v], lambda c: Val(f"(py_round_mean {c[0]})", HUND))
            if v.ty == HALF:
                return self.lift([v], lambda c: Val(f"(50 * {c[0]})%Z", HUND))
            fail(e, f"round(x, 2) of {v.ty}")
        if name == "min" and len(args) == 1:
            v = self.arg_list(args[0], env, INT)
            kw = {k.arg: k.value for k in e.keywords}
            if set(kw) == {"default"}:
                d = self.coerce(self.tr(kw["default"], env), INT, e)
                return self.lift([v, d], lambda c: Val(f"(py_min_default {c[0]} {c[1]})", INT))
            if kw:
                fail(e, "min() with keywords other than default")
            self.cur.intrinsic_eff = True
            return self.lift([v], lambda c: Val(f"(py_min {c[0]})", INT, True))
        if name == "isinstance" and len(args) == 2:
            v = self.tr(args[0], env)
            t = args[1]
            if isinstance(t, ast.Name) and (t.id,) == v.ty and not v.eff:
                return Val("true", BOOL)
            if v.ty == ANY and ast.unparse(t) in ("(list, tuple)", "list"):
                return self.lift([v], lambda c: Val(f"(match {c[0]} with VList _ => true | _ => false end)", BOOL))
            if v.ty == ANY and ast.unparse(t) == "(list, dict)":
                return self.lift([v], lambda c: Val(f"(match {c[0]} with VList _ | VMap _ => true | _ => false end)", BOOL))
            if v.ty == ANY and ast.unparse(t) == "dict":
                return self.lift([v], lambda c: Val(f"(match {c[0]} with VMap _ => true | _ => false end)", BOOL))
            if v.ty == NDATA and isinstance(t, ast.Name) and t.id == "str":
                return self.lift([v], lambda c: Val(f"(match {c[0]} with DStr _ => true | _ => false end)", BOOL))
            if v.ty == ANY and isinstance(t, ast.Name) and t.id in ("str", "bool", "int", "float"):
                pat = {"str": "VStr _", "bool": "VBool _", "int": "VInt _ | VBool _", "float": "VFloat _"}[t.id]
                return self.lift([v], lambda c: Val(f"(match {c[0]} with {pat} => true | _ => false end)", BOOL))
            if (v.ty == NDATA and isinstance(t, ast.Tuple) and [ast.unparse(x) for x in t.elts] == ["int", "float"]):
                return self.lift([v], lambda c: Val(f"(ndata_is_number {c[0]})", BOOL))
            fail(e, "unsupported isinstance")
        fail(e, f"unknown function {name}")

    def any_all(self, name, g, env, ctx):
        if len(g.generators) != 1:
            fail(ctx, "any/all over nested generators")
        gen = g.generators[0]
        src = self.iterable(gen.iter, env)
        en, pat = self.bind_target(gen.target, src.ty[1], env)
        neutral = "false" if name == "any" else "true"

        def conds(i, en2):
            if i == len(gen.ifs):
                return self.truthy(self.tr(g.elt, en2), g.elt)
            return self.tr_if(gen.ifs[i], en2, lambda e3: conds(i + 1, e3), lambda e3: Val(neutral, BOOL), ctx)
        body = conds(0, en)
        if body.eff:
            fn = "py_existsM" if name == "any" else "py_forallM"
            return self.lift([src], lambda c: Val(f"({fn} (fun {pat} => {body.code}) {c[0]})", BOOL, True))
        fn = "existsb" if name == "any" else "forallb"
        return self.lift([src], lambda c: Val(f"({fn} (fun {pat} => {body.code}) {c[0]})", BOOL))

    def e_Subscript(self, e, env):
        if isinstance(e.value, ast.Attribute) and ast.unparse(e.value) in CLASS_TABLES:
            fn, kty, vty = CLASS_TABLES[ast.unparse(e.value)]
            k = self.tr(e.slice, env)
            self.cur.intrinsic_eff = True
            if k.ty == NDATA and kty == ASTOP:
                return self.lift([k], lambda c: Val(
                    f"(match {c[0]} with DOp o => match {fn} o with Some v => Ok v | None => Err KeyError end "
                    f"| _ => Err KeyError end)", vty, True))
            fail(e, f"table lookup with a key of type {k.ty}")
        if isinstance(e.value, ast.Name) and e.value.id in self.module_tables and e.value.id not in env.vars:
            k = self.tr(e.slice, env)
            self.cur.intrinsic_eff = True
            fn = f"py_{e.value.id}"
            if k.ty == NDATA:
                return self.lift([k], lambda c: Val(
                    f"(match {c[0]} with DOp o => match {fn} o with Some v => Ok v | None => Err KeyError end "
                    f"| _ => Err KeyError end)", STR, True))
            if k.ty == ASTOP:
                return self.lift([k], lambda c: Val(f"(match {fn} {c[0]} with Some v => Ok v | None => Err KeyError end)", STR, True))
            fail(e, f"table lookup with a key of type {k.ty}")
        v = self.obj(self.tr(e.value, env))
        if v.ty == METRIC and isinstance(e.slice, ast.Constant) and e.slice.value == "result":
            return self.lift([v], lambda c: Val(f"(py_metric_names {c[0]})", List(STR)))
        if v.ty[0] == "dict" and not isinstance(e.slice, ast.Slice):
            kk = self.coerce(self.tr(e.slice, env), v.ty[1], e)
            if v.ty[1] != STR:
                fail(e, "dict lookup with keys other than str")
            self.cur.intrinsic_eff = True
            return self.lift([v, kk], lambda c: Val(f"(py_dict_get String.eqb {c[0]} {c[1]})", v.ty[2], True))
        if v.ty == NDATA and isinstance(e.slice, ast.Slice):
            v = self.coerce(v, STR, e)
        if v.ty == STR and isinstance(e.slice, ast.Slice) and e.slice.step is None and e.slice.lower is None \
                and e.slice.upper is not None and ast.unparse(e.slice.upper) == "-1":
            return self.lift([v], lambda c: Val(f"(py_str_drop_last {c[0]})", STR))      # s[:-1] (one ASCII character)
        if v.ty == STR and isinstance(e.slice, ast.Slice) and e.slice.step is None and e.slice.upper is None \
                and isinstance(e.slice.lower, ast.Constant) and isinstance(e.slice.lower.value, int) and e.slice.lower.value >= 0:
            n = e.slice.lower.value
            return self.lift([v], lambda c: Val(f"(str_drop {n} {c[0]})", STR))       # s[n:] on bytes: n ASCII characters
        if v.ty == ANY and not isinstance(e.slice, ast.Slice) and self.tr(e.slice, env).ty == INT:
            v = self.coerce(v, List(ANY), e)
        if v.ty == ANY and not isinstance(e.slice, ast.Slice) and self.tr(e.slice, env).ty == ANY:
            k = self.tr(e.slice, env)
            self.cur.intrinsic_eff = True
            return self.lift([v, k], lambda c: Val(f"(aval_get_any {c[0]} {c[1]})", ANY, True))
        if v.ty == ANY and not isinstance(e.slice, ast.Slice):
            k = self.coerce(self.tr(e.slice, env), STR, e)
            self.cur.intrinsic_eff = True
            return self.lift([v, k], lambda c: Val(f"(aval_get {c[0]} {c[1]})", ANY, True))
        if v.ty == XML:
            v = self.lift([v], lambda c: Val(f"(x_children {c[0]})", List(XML)))      # element[i], element[a:]: its children
        if v.ty[0] != "list":
            fail(e, f"subscript of {v.ty}")
        if isinstance(e.slice, ast.Slice) and e.slice.step is None and e.slice.upper is None \
                and isinstance(e.slice.lower, ast.Constant) and isinstance(e.slice.lower.value, int) and e.slice.lower.value >= 0:
            n = e.slice.lower.value
            return self.lift([v], lambda c: Val(f"(skipn {n} {c[0]})", v.ty))           # l[n:]
        if isinstance(e.slice, ast.Slice):
            if e.slice.step is not None or e.slice.lower is None or e.slice.upper is None:
                fail(e, "unsupported slice")
            a = self.coerce(self.tr(e.slice.lower, env), INT, e)
            b = self.coerce(self.tr(e.slice.upper, env), INT, e)
            return self.lift([v, a, b], lambda c: Val(f"(py_slice {c[0]} {c[1]} {c[2]})", v.ty))
        i = self.coerce(self.tr(e.slice, env), INT, e)
        self.cur.intrinsic_eff = True
        return self.lift([v, i], lambda c: Val(f"(py_index {c[0]} {c[1]})", v.ty[1], True))

    # ---------------------------------------------------------------- statements (CPS)
    def block(self, stmts, env, k):
        """code (type: the function's / loop's result) of running stmts then k(env)"""
        if not stmts:
            return k(env)
        s, rest = stmts[0], stmts[1:]
        m = getattr(self, "s_" + type(s).__name__, None)
        if m is None:
            fail(s, f"unsupported statement {type(s).__name__}")
        return m(s, rest, env, k)

    def final_store(self, v, env):
        """result of a store function: the store, the new values of the lists it mutates, the value"""
        f = self.cur
        st = env.vars["$store"][0] if f.store else None
        if f.export:
            if v is None or v.ty not in (List(SETREF), List(UNKNOWN)) or v.eff:
                fail(f.node, "an exported store function must return a list of sets")
            return f"(Ok (map (py_store_get {st}) {v.code}))"
        parts = ([st] if f.store else []) + [env.vars[n][0] for n in f.inouts]
        if v is not None:
            v = self.coerce(v, f.ret, f.node)
            if v.eff:
                n = self.fresh()
                return f"(bind {v.code} (fun {n} => (Ok ({', '.join(parts + [n])}))))"
            parts.append(v.code)
        return "(Ok (" + ", ".join(parts) + "))" if len(parts) > 1 else f"(Ok {parts[0]})"

    def final(self, v):
        """a value as the function result (always in the monad when the function is effectful)"""
        v = self.coerce(v, self.cur.ret, self.cur.node)
        if self.mode_eff:
            return v.code if v.eff else f"(Ok {v.code})"
        if v.eff:
            raise Fail(f"{self.cur.coqname}: effect in a function translated as pure")
        return v.code

    def wrap(self, v, cont):
        """bind v (if effectful) and continue with its code"""
        if v.eff:
            n = self.fresh()
            return f"(bind {v.code} (fun {n} => {cont(n)}))"
        return cont(v.code)

    def s_Return(self, s, rest, env, k):
        if env.loop_k is not None:
            fail(s, "return inside a loop")
        if s.value is None:
            fail(s, "bare return")
        if self.cur.store or self.cur.inouts:
            return self.final_store(self.tr(s.value, env), env)
        if self.written is not None:
            v = self.tr(s.value, env)
            if not (isinstance(s.value, ast.Name) and s.value.id == self.written[0] and v.code == self.written[1]):
                fail(s, "the function returns something else than the text it wrote to the file")
            return self.final(v)
        return self.final(self.tr(s.value, env))

    def s_Raise(self, s, rest, env, k):
        if isinstance(s.exc, ast.Call) and isinstance(s.exc.func, ast.Name) and s.exc.func.id in (
                "FlamaException", "TypeError", "ValueError", "ParsingException"):
            self.cur.intrinsic_eff = True
            return f"(Err {s.exc.func.id})"
        fail(s, "unsupported raise")

    def store_call(self, call, target, rest, env, k, ctx):
        """f(args) for a store function f: the store and the mutated list arguments come back and are rebound"""
        f = self.lookup((None, call.func.id))
        self.cur.calls.add(f.coqname)
        if call.keywords or len(call.args) != len(f.params):
            fail(ctx, "call of a store function with other than its positional parameters")
        args, rebind = [], []
        for a, (pn, pt, pd) in zip(call.args, f.params):
            if pn in f.inouts and isinstance(a, ast.Name) and a.id in env.vars:
                self.mutating(a.id, ctx, env)
                v = Val(env.vars[a.id][0], env.vars[a.id][1])
            elif pn in f.pointer_params:
                v = self.coerce(self.pointer(a, env), pt, ctx)
            else:
                v = self.coerce(self.tr(a, env), pt, ctx)
            if v.eff:
                fail(ctx, "effectful argument of a store function")
            if pn in f.inouts:
                if not (isinstance(a, ast.Name) and a.id in env.vars and (a.id in self.local_containers or pt == PFEATURE)):
                    fail(ctx, "an object that the callee mutates must be a local variable (or such a parameter) of the caller")
                rebind.append(a.id)
            args.append(v.code)
        en, pats = env, []
        if f.store:
            st = self.fresh("st_")
            en = env.bind("$store", st, STORE)
            pats = [st]
        for n in rebind:
            fn = self.fresh(n + "_")
            pats.append(fn)
            en = en.bind(n, fn, env.vars[n][1])
        if f.ret != NONE:
            if target is None:
                pats.append("_")
            else:
                fn = self.fresh(target + "_")
                pats.append(fn)
                en = en.bind(target, fn, self.note_type(target, f.ret, ctx))
        pat = "'(" + ", ".join(pats) + ")" if len(pats) > 1 else pats[0]
        head = f"{f.coqname}" + (" fuel" if f.fuel else "") + (f" {env.vars['$store'][0]}" if f.store else "")
        if not pats:
            pat = "_"
        return (f"(bind ({head} " + " ".join(args) + f") (fun {pat} => " + self.block(rest, en, k) + "))")

    def is_store_call(self, v):
        if isinstance(v, ast.Call) and isinstance(v.func, ast.Name):
            f = self.funcs.get((None, v.func.id))
            return f is not None and (f.store or bool(f.inouts))
        return False

    def s_Expr(self, s, rest, env, k):
        v = s.value
        if isinstance(v, ast.Constant) and isinstance(v.value, str):
            return self.block(rest, env, k)          # docstring
        if self.is_store_call(v):
            return self.store_call(v, None, rest, env, k, s)
        if (PURE[0] and isinstance(v, ast.Call) and isinstance(v.func, ast.Attribute) and isinstance(v.func.value, ast.Name)
                and v.func.value.id in env.vars and len(v.args) == 1):
            recv_name, meth = v.func.value.id, v.func.attr
            rty = env.vars[recv_name][1]
            if rty == PFEATURE and meth in ("add_relation", "add_attribute"):
                self.mutating(recv_name, s, env)
                want = PRELATION if meth == "add_relation" else ATTRIBUTE
                a = self.coerce(self.tr(v.args[0], env), want, s)
                new = self.lift([a], lambda c: Val(f"(py_{meth} {env.vars[recv_name][0]} {c[0]})", PFEATURE))
                return self.assign(recv_name, new, rest, env, k, s)
            if rty == ATTRIBUTE and meth == "set_parent":
                self.pointer(v.args[0], env)  # a parent pointer: not represented in a tree value
                return self.block(rest, env, k)
        if (self.cur.store and isinstance(v, ast.Call) and isinstance(v.func, ast.Attribute) and v.func.attr == "add"
                and len(v.args) == 1 and isinstance(v.func.value, ast.Name) and v.func.value.id in env.vars
                and env.vars[v.func.value.id][1] == SETREF):
            ref = env.vars[v.func.value.id][0]
            x = self.coerce(self.tr(v.args[0], env), FEATURE, s)
            if x.eff:
                fail(s, "effectful element")
            eqf = self.lookup(("Feature", "__eq__"))
            st = self.fresh("st_")
            return (f"(let {st} := (py_store_add {eqf.coqname} {env.vars['$store'][0]} {ref} {x.code}) in "
                    + self.block(rest, env.bind("$store", st, STORE), k) + ")")
        if isinstance(v, ast.Call) and isinstance(v.func, ast.Attribute) and isinstance(v.func.value, ast.Name):
            name, meth = v.func.value.id, v.func.attr
            if name in env.vars and name in self.local_containers and meth in ("append", "extend") and len(v.args) == 1:
                cur = self.tr(v.func.value, env)
                arg = self.tr(v.args[0], env)
                if cur.ty[0] != "list":
                    fail(s, f"{meth} on {cur.ty}")
                if meth == "append":
                    t = List(join(cur.ty[1], arg.ty))
                    arg2 = self.coerce(arg, t[1], s)
                    new = self.lift([arg2], lambda c: Val(f"({cur.code} ++ [{c[0]}])%list", t))
                else:
                    arg = self.obj(arg)
                    if arg.ty[0] != "list":
                        fail(s, f"extend with {arg.ty}")
                    t = List(join(cur.ty[1], arg.ty[1]))
                    arg2 = self.coerce(arg, t, s)
                    new = self.lift([arg2], lambda c: Val(f"({cur.code} ++ {c[0]})%list", t))
                return self.assign(name, new, rest, env, k, s)
        fail(s, "unsupported expression statement")

    def note_type(self, name, ty, ctx):
        if name == "self":
            return ty
        old = self.vartypes.get(name, UNKNOWN)
        new = join(old, ty)
        if new != old:
            self.vartypes[name] = new
            if old != UNKNOWN and not (old[0] == "list" and old[1] == UNKNOWN):
                raise Retype()
            if old[0] == "list" and old[1] == UNKNOWN and name in self.seen_decl:
                raise Retype()
        self.seen_decl.add(name)
        return new

    def assign(self, name, v, rest, env, k, ctx, fresh_paths=()):
        if name in self.maybe_vars:
            ty = self.note_type(name, v.ty, ctx)
            v = self.coerce(v, ty, ctx)
            v = self.lift([v], lambda c: Val(f"(Some {c[0]})", ("maybe", ty)))
            n = self.fresh(name + "_")

            def cont_m(code):
                return f"(let {n} := {code} in {self.block(rest, env.bind(name, n, ('maybe', ty)), k)})"
            return self.wrap(v, cont_m)
        ty = self.note_type(name, v.ty, ctx)
        v = self.coerce(v, ty, ctx)
        n = self.fresh(name + "_")

        def cont(code):
            en = env.bind(name, n, ty)
            if ty == NODE:
                en.fresh_nodes.update(fresh_paths)
            return f"(let {n} := {code} in {self.block(rest, en, k)})"
        return self.wrap(v, cont)

    @staticmethod
    def is_node_ctor(e):
        return isinstance(e, ast.Call) and isinstance(e.func, ast.Name) and e.func.id == "Node" and not e.keywords

    def node_fresh_paths(self, name, e):
        """the paths under `name` that hold objects created by the syntactic Node(...) call e itself"""
        if not self.is_node_ctor(e):
            return ()
        out = [(name,)]
        for fld, a in zip(("left", "right"), e.args[1:3]):
            out += [(name, fld) + p_[1:] for p_ in self.node_fresh_paths(name, a)]
        return tuple(out)

    def assign_node_field(self, name, path, value, rest, env, k, ctx):
        """X.left = e / X.left.right = e on a Node object that this path created and has not handed on: a rebinding of X"""
        if self.loop_mutations:
            fail(ctx, "field assignment on a node inside a loop")
        v = self.coerce(self.tr(value, env), NODE, ctx)
        if (name,) + tuple(path[:-1]) not in env.fresh_nodes:
            fail(ctx, f"assignment to a field of {ast.unparse(ctx.targets[0].value)}, which may be shared (not created here by Node(...), or read since)")
        code0 = env.vars[name][0]
        if len(path) == 1:
            new = self.lift([v], lambda c: Val(f"(py_set_{path[0]} {code0} {c[0]})", NODE))
        else:
            self.cur.intrinsic_eff = True
            new = self.lift([v], lambda c: Val(f"(py_set_in_{path[0]} {code0} (fun n_ => py_set_{path[1]} n_ {c[0]}))", NODE, True))
        full = (name,) + tuple(path)
        keep = {p_ for p_ in env.fresh_nodes if p_[0] == name and p_[:len(full)] != full}
        keep.update(full + p_[1:] for p_ in self.node_fresh_paths(name, value))
        n = self.fresh(name + "_")

        def cont(code):
            en = env.bind(name, n, NODE)
            en.fresh_nodes.update(keep)
            return f"(let {n} := {code} in {self.block(rest, en, k)})"
        return self.wrap(new, cont)

    def s_Assign(self, s, rest, env, k):
        if len(s.targets) != 1:
            fail(s, "multiple assignment targets")
        t = s.targets[0]
        if isinstance(t, ast.Name) and self.is_store_call(s.value):
            return self.store_call(s.value, t.id, rest, env, k, s)
        if isinstance(t, ast.Name) and self.cur.store and isinstance(s.value, ast.Set):
            # {e1, ...}: a new set object in the store; the variable holds its index
            xs = [self.coerce(self.tr(x, env), FEATURE, s) for x in s.value.elts]
            if any(x.eff for x in xs):
                fail(s, "effectful element")
            eqf = self.lookup(("Feature", "__eq__"))
            cur = env.vars["$store"][0]
            ref, st = self.fresh(t.id + "_"), self.fresh("st_")
            self.note_type(t.id, SETREF, s)
            en = env.bind(t.id, ref, SETREF).bind("$store", st, STORE)
            return (f"(let {ref} := (List.length {cur}) in (let {st} := ({cur} ++ [py_set_of {eqf.coqname} ["
                    + "; ".join(x.code for x in xs) + f"]])%list in " + self.block(rest, en, k) + "))")
        if isinstance(t, ast.Name):
            if (isinstance(s.value, ast.Call) and isinstance(s.value.func, ast.Attribute)
                    and s.value.func.attr == "pop" and not s.value.args
                    and isinstance(s.value.func.value, ast.Name) and s.value.func.value.id in self.local_containers):
                lst = s.value.func.value.id
                cur = self.tr(s.value.func.value, env)
                if cur.ty[0] != "list":
                    fail(s, "pop on a non-list")
                self.cur.intrinsic_eff = True
                n1, n2 = self.fresh(t.id + "_"), self.fresh(lst + "_")
                ty = self.note_type(t.id, cur.ty[1], s)
                en = env.bind(t.id, n1, ty).bind(lst, n2, cur.ty)
                return f"(bind (py_pop {cur.code}) (fun '({n1}, {n2}) => {self.block(rest, en, k)}))"
            if isinstance(s.value, (ast.List, ast.ListComp, ast.Dict)) or (
                    isinstance(s.value, ast.BinOp) and isinstance(s.value.op, ast.Add)):
                pass
            return self.assign(t.id, self.tr_value(s.value, env, t.id), rest, env, k, s, self.node_fresh_paths(t.id, s.value))
        if isinstance(t, ast.Attribute) and t.attr in ("left", "right"):
            path, b = [], t
            while isinstance(b, ast.Attribute) and b.attr in ("left", "right"):
                path.append(b.attr)
                b = b.value
            path.reverse()
            if isinstance(b, ast.Name) and b.id in env.vars and env.vars[b.id][1] == NODE and len(path) <= 2:
                return self.assign_node_field(b.id, path, s.value, rest, env, k, s)
        if (isinstance(t, ast.Subscript) and isinstance(t.value, ast.Name) and t.value.id in self.local_containers
                and t.value.id in env.vars):
            d = self.tr(t.value, env)
            if d.ty == ANY:
                kk = self.coerce(self.tr(t.slice, env), STR, s)
                vv = self.coerce(self.tr(s.value, env), ANY, s)
                new = self.lift([kk, vv], lambda c: Val(f"(aval_set {d.code} {c[0]} {c[1]})", ANY))
                return self.assign(t.value.id, new, rest, env, k, s)
            if d.ty[0] != "dict":
                fail(s, "item assignment on a non-dict")
            kk = self.coerce(self.tr(t.slice, env), d.ty[1], s)
            vv = self.coerce(self.tr(s.value, env), d.ty[2], s)
            if d.ty[2] == NONE:
                vv = Val("tt", NONE)
            if d.ty[1] == FEATURE:
                f = self.lookup(("Feature", "__eq__"))
                if f is None or f.eff:
                    fail(s, "Feature.__eq__ is not translated")
                self.cur.calls.add(f.coqname)
                eqf = f.coqname
            elif d.ty[1] == NDATA:
                eqf = "ndata_key_eqb"
            elif d.ty[1] == STR:
                eqf = "String.eqb"
            else:
                fail(s, f"dict keys of type {d.ty[1]}")
            new = self.lift([kk, vv], lambda c: Val(f"(py_dict_set {eqf} {d.code} {c[0]} {c[1]})", d.ty))
            return self.assign(t.value.id, new, rest, env, k, s)
        if (isinstance(t, ast.Attribute) and isinstance(t.value, ast.Name) and t.value.id == "self"
                and "self" in env.vars and env.vars["self"][1][0] == "obj"):
            return self.assign_field(t.attr, self.tr(s.value, env), rest, env, k, s)
        if (isinstance(t, ast.Subscript) and isinstance(t.value, ast.Subscript) and isinstance(t.value.value, ast.Name)
                and t.value.value.id in self.local_containers and t.value.value.id in env.vars
                and env.vars[t.value.value.id][1] == ANY):
            # d[k1][k2] = v : the inner dict is reachable through d only (d was created in this function and
            # its entries are values built here), so the update is d[k1] = (d[k1] with k2 := v)
            d = self.tr(t.value.value, env)
            k1 = self.coerce(self.tr(t.value.slice, env), STR, s)
            k2 = self.coerce(self.tr(t.slice, env), STR, s)
            vv = self.coerce(self.tr(s.value, env), ANY, s)
            self.cur.intrinsic_eff = True
            new = self.lift([k1, k2, vv], lambda c: Val(
                f"(bind (aval_get {d.code} {c[0]}) (fun inner => Ok (aval_set {d.code} {c[0]} (aval_set inner {c[1]} {c[2]}))))",
                ANY, True))
            return self.assign(t.value.value.id, new, rest, env, k, s)
        fail(s, "unsupported assignment target")

    def assign_field(self, field, v, rest, env, k, ctx):
        code, ty = env.vars["self"]
        cls = ty[1]
        fields = OBJECTS[cls]
        ft = {f: t for f, t, _ in fields}
        if field not in ft:
            fail(ctx, f"assignment to an undeclared field of {cls}")
        v = self.coerce(v, ft[field], ctx)
        new = self.lift([v], lambda c: Val("{| " + "; ".join(
            f"{cls}_{f} := " + (c[0] if f == field else f"({cls}_{f} {code})") for f, _, _ in fields) + " |}", ty))
        return self.assign("self", new, rest, env, k, ctx)

    def tr_value(self, e, env, name):
        if isinstance(e, ast.Dict) and not e.keys:
            t = self.vartypes.get(name)
            if t is None and self.cur.ret[0] == "dict":
                t = self.cur.ret
                self.vartypes[name] = t
            if t == ANY or t is None:
                return Val("(VMap [])", ANY)        # an unannotated {} is a JSON-like dict
            if t[0] != "dict":
                fail(e, "an empty dict needs an annotation")
            return Val("[]", t)
        return self.tr(e, env)

    def s_AnnAssign(self, s, rest, env, k):
        t = s.target
        if (isinstance(t, ast.Attribute) and isinstance(t.value, ast.Name) and t.value.id == "self"
                and s.value is not None and "self" in env.vars and env.vars["self"][1][0] == "obj"):
            return self.assign_field(t.attr, self.tr(s.value, env), rest, env, k, s)
        if not isinstance(s.target, ast.Name) or s.value is None:
            fail(s, "unsupported annotated assignment")
        ty = OVERRIDE_VAR.get((self.cur.cls, self.cur.node.name, s.target.id)) or parse_ann(s.annotation, s)
        self.vartypes.setdefault(s.target.id, ty)
        v = self.tr_value(s.value, env, s.target.id)
        if v.ty[0] == "list" and v.ty[1] == UNKNOWN:
            v = Val(v.code, ty, v.eff)
        return self.assign(s.target.id, v, rest, env, k, s)

    def s_AugAssign(self, s, rest, env, k):
        if not isinstance(s.target, ast.Name):
            fail(s, "unsupported augmented assignment")
        e = ast.BinOp(left=ast.Name(id=s.target.id, ctx=ast.Load()), op=s.op, right=s.value)
        ast.copy_location(e, s)
        ast.fix_missing_locations(e)
        return self.assign(s.target.id, self.tr(e, env), rest, env, k, s)

    def simple_assign_block(self, stmts):
        for st in stmts:
            if isinstance(st, ast.Assign) and len(st.targets) == 1 and isinstance(st.targets[0], ast.Name):
                continue
            if isinstance(st, ast.Assign) and len(st.targets) == 1 and isinstance(st.targets[0], ast.Subscript) \
                    and isinstance(st.targets[0].value, ast.Name) and st.targets[0].value.id in self.local_containers:
                continue
            if isinstance(st, (ast.AugAssign, ast.AnnAssign)) and isinstance(st.target, ast.Name) and getattr(st, "value", 1) is not None:
                continue
            if isinstance(st, ast.If) and self.simple_assign_block(st.body) and self.simple_assign_block(st.orelse):
                continue
            return False
        return True

    def s_If_joined(self, s, rest, env, k):
        """an `if` whose branches only assign locals that are already bound: the branches yield the tuple of
        those variables and the continuation is written once"""
        names = self.assigned(s.body + s.orelse)
        fresh = [self.fresh(n + "_") for n in names]

        def k_tuple(en):
            t = self.state_tuple(names, en)
            return f"(Ok {t})" if self.mode_eff else t

        def then_fn(en):
            return Val(self.block(s.body, en, k_tuple), UNKNOWN, self.mode_eff)

        def else_fn(en):
            return Val(self.block(s.orelse, en, k_tuple), UNKNOWN, self.mode_eff)
        code = self.tr_if_code(s.test, env, then_fn, else_fn, s)
        en_after = env
        for n, f in zip(names, fresh):
            en_after = en_after.bind(n, f, self.vartypes.get(n, env.vars[n][1]))
        pat = "'(" + ", ".join(fresh) + ")" if len(fresh) > 1 else fresh[0]
        after = self.block(rest, en_after, k)
        if self.mode_eff:
            return f"(bind {code} (fun {pat} => {after}))"
        return f"(let {pat} := {code} in {after})"

    def s_If(self, s, rest, env, k):
        if self.join_ifs and rest and self.simple_assign_block(s.body) and self.simple_assign_block(s.orelse):
            names = self.assigned(s.body + s.orelse)
            if names and all(n in env.vars for n in names):
                return self.s_If_joined(s, rest, env, k)
        # the continuation is duplicated into both branches: every path is translated with exactly the
        # variables bound on it (an unbound local read is an UnboundLocalError on that path only)
        def then_fn(en):
            return Val(self.block(s.body + rest, en, k), UNKNOWN, self.mode_eff)

        def else_fn(en):
            return Val(self.block(s.orelse + rest, en, k), UNKNOWN, self.mode_eff)
        r = self.tr_if_code(s.test, env, then_fn, else_fn, s)
        return r

    def tr_if_code(self, cond, env, then_fn, else_fn, ctx):
        """tr_if for statement continuations: branches are code of the block type already"""
        return self.tr_if(cond, env, then_fn, else_fn, ctx, stmt=True).code

    def assigned(self, stmts):
        out = []

        def add(n):
            if n not in out:
                out.append(n)
        for s in stmts:
            for node in ast.walk(s):
                if isinstance(node, (ast.Assign, ast.AnnAssign, ast.AugAssign)):
                    tg = node.targets if isinstance(node, ast.Assign) else [node.target]
                    for t in tg:
                        if isinstance(t, ast.Name):
                            add(t.id)
                        elif isinstance(t, ast.Subscript) and isinstance(t.value, ast.Name):
                            add(t.value.id)
                elif isinstance(node, ast.Call) and isinstance(node.func, ast.Attribute) and isinstance(
                        node.func.value, ast.Name) and node.func.attr in ("append", "extend", "pop") and \
                        node.func.value.id in self.local_containers:
                    add(node.func.value.id)
                elif isinstance(node, (ast.For, ast.comprehension)):
                    pass
                if self.cur is not None and PURE[0]:
                    if isinstance(node, ast.Call) and isinstance(node.func, ast.Name):
                        g = self.funcs.get((None, node.func.id))
                        if g is not None and g.inouts:
                            for a, (pn, pt, pd) in zip(node.args, g.params):
                                if pn in g.inouts and isinstance(a, ast.Name):
                                    add(a.id)
                    if isinstance(node, ast.Call) and isinstance(node.func, ast.Attribute) and isinstance(node.func.value, ast.Name) \
                            and node.func.attr in ("add_relation", "add_attribute"):
                        add(node.func.value.id)
                if self.cur is not None and self.cur.store:
                    if isinstance(node, ast.Set) or (isinstance(node, ast.Call) and isinstance(node.func, ast.Attribute)
                                                     and node.func.attr == "add"):
                        add("$store")
                    if isinstance(node, ast.Call) and isinstance(node.func, ast.Name):
                        g = self.funcs.get((None, node.func.id))
                        if g is not None and g.store:
                            add("$store")
                            for a, (pn, pt, pd) in zip(node.args, g.params):
                                if pn in g.inouts and isinstance(a, ast.Name):
                                    add(a.id)
        return out

    def loop_state(self, body, env, ctx):
        return [n for n in self.assigned(body) if n in env.vars]

    def state_tuple(self, names, env):
        if not names:
            return "tt"
        return "(" + ", ".join(env.vars[n][0] for n in names) + ")" if len(names) > 1 else env.vars[names[0]][0]

    def state_pat(self, names, env):
        fresh = [self.fresh(n + "_") for n in names]
        en = env
        for n, f in zip(names, fresh):
            en = en.bind(n, f, env.vars[n][1])
        pat = "'(" + ", ".join(fresh) + ")" if len(names) > 1 else (fresh[0] if fresh else "_")
        return en, pat

    def check_loop_body(self, body):
        for node in body:
            for x in ast.walk(node):
                if isinstance(x, (ast.Return, ast.Break)):
                    fail(x, "return / break inside a loop")

    def leaks(self, loop, names, env):
        out = {n for n in self.assigned(loop.body) if n not in names}
        for x in ast.walk(loop):
            if isinstance(x, ast.Name) and isinstance(x.ctx, ast.Store) and x.id not in names:
                out.add(x.id)
        return {n for n in out if n not in env.vars}

    def check_loop_aliasing(self, mutated, escaped, ctx):
        both = sorted(mutated & escaped)
        if PURE[0] and both:
            fail(ctx, f"{', '.join(both)} is stored or passed on and also changed inside this loop (aliasing across iterations)")

    def s_For(self, s, rest, env, k):
        if s.orelse:
            fail(s, "for-else")
        if not self.mode_eff:
            raise NeedEff()
        self.check_loop_body(s.body)
        src = self.iterable(s.iter, env)
        names = self.loop_state(s.body, env, s)
        # types of the state variables must be stable over the loop: translate the body once to let
        # note_type widen them (a Retype restarts the function)
        en0, spat = self.state_pat(names, env)
        en1, xpat = self.bind_target(s.target, src.ty[1], en0)

        body_escaped = set()

        def k_body(en):
            body_escaped.update(en.escaped)
            return f"(Ok {self.state_tuple(names, en)})"
        en1.loop_k = k_body
        self.loop_mutations.append(set())
        body = self.block(s.body, en1, k_body)
        self.check_loop_aliasing(self.loop_mutations.pop(), body_escaped, s)
        en_after, apat = self.state_pat(names, env)
        en_after.loop_k = env.loop_k
        en_after.leaked |= self.leaks(s, names, env)
        after = self.block(rest, en_after, k)
        loop = f"(foldM (fun {spat} {xpat} => {body}) @@SRC@@ {self.state_tuple(names, env)})"
        return self.wrap(src, lambda c: "(bind " + loop.replace("@@SRC@@", c) + f" (fun {apat} => {after}))")

    def s_While(self, s, rest, env, k):
        if s.orelse:
            fail(s, "while-else")
        if not self.mode_eff:
            raise NeedEff()
        self.cur.has_while = True
        self.check_loop_body(s.body)
        names = self.loop_state(s.body, env, s)
        en0, spat = self.state_pat(names, env)

        body_escaped = set()

        def k_body(en):
            body_escaped.update(en.escaped)
            return f"(Ok (Some {self.state_tuple(names, en)}))"
        en0.loop_k = k_body
        saved = self.mode_eff

        def then_fn(en):
            return Val(self.block(s.body, en, k_body), UNKNOWN, True)

        def else_fn(en):
            return Val("(Ok None)", UNKNOWN, True)
        self.loop_mutations.append(set())
        step = self.tr_if_code(s.test, en0, then_fn, else_fn, s)
        self.check_loop_aliasing(self.loop_mutations.pop(), body_escaped, s)
        self.mode_eff = saved
        en_after, apat = self.state_pat(names, env)
        en_after.loop_k = env.loop_k
        en_after.leaked |= self.leaks(s, names, env)
        # after the loop the condition is false: `while x is not None` leaves x = None (no narrowing needed)
        after = self.block(rest, en_after, k)
        return (f"(bind (whileM fuel (fun {spat} => {step}) {self.state_tuple(names, env)}) "
                f"(fun {apat} => {after}))")

    def s_With(self, s, rest, env, k):
        """`with open(<path>, 'w', encoding='utf8') as file: file.write(<name>)` — the only I/O the writers do.
        Nothing changes at the level of values; the text written must be the local that is returned afterwards
        (checked at the `return`), which is the "returns what it wrote" clause of C12 read off the source."""
        if is_json_load_with(s):
            # `with open(path, 'r', encoding='utf-8') as file: data = json.load(file); …`: the loaded document is an INPUT of
            # the translated function (its extra parameter `loaded`); reading and decoding the file is outside
            self.tr(s.items[0].context_expr.args[0], env)
            tgt = s.body[0].targets[0].id
            self.note_type(tgt, ANY, s)
            return self.block(s.body[1:] + rest, env.bind(tgt, pname("loaded"), ANY), k)
        ok = (len(s.items) == 1 and isinstance(s.items[0].context_expr, ast.Call)
              and ast.unparse(s.items[0].context_expr.func) == "open"
              and len(s.items[0].context_expr.args) == 2 and ast.unparse(s.items[0].context_expr.args[1]) == "'w'"
              and [(kw.arg, ast.unparse(kw.value)) for kw in s.items[0].context_expr.keywords] == [("encoding", "'utf8'")]
              and isinstance(s.items[0].optional_vars, ast.Name) and len(s.body) == 1
              and isinstance(s.body[0], ast.Expr) and isinstance(s.body[0].value, ast.Call)
              and ast.unparse(s.body[0].value.func) == s.items[0].optional_vars.id + ".write"
              and len(s.body[0].value.args) == 1 and isinstance(s.body[0].value.args[0], ast.Name))
        if not ok:
            fail(s, "unsupported with-statement")
        name = s.body[0].value.args[0].id
        if name not in env.vars or env.vars[name][1] != STR:
            fail(s, "the text written is not a bound string variable")
        self.tr(s.items[0].context_expr.args[0], env)        # the path expression must be translatable (and pure)
        self.written = (name, env.vars[name][0])
        return self.block(rest, env, k)

    def s_Continue(self, s, rest, env, k):
        if env.loop_k is None:
            fail(s, "continue outside a loop")
        return env.loop_k(env)

    def s_Pass(self, s, rest, env, k):
        return self.block(rest, env, k)

    # ---------------------------------------------------------------- functions
    def find_local_containers(self, fnode):
        """locals that are created in the function as a fresh list / dict and never escape before being
        returned: mutation through them is an assignment"""
        created, other = set(), set()
        params = {a.arg for a in fnode.args.args}
        for node in ast.walk(fnode):
            if isinstance(node, (ast.Assign, ast.AnnAssign)):
                tg = node.targets if isinstance(node, ast.Assign) else [node.target]
                val = node.value
                for t in tg:
                    if isinstance(t, ast.Name):
                        fresh = isinstance(val, (ast.List, ast.ListComp, ast.Dict)) or (
                            isinstance(val, ast.BinOp) and isinstance(val.op, ast.Add)) or (
                            isinstance(val, ast.Call) and isinstance(val.func, ast.Name)
                            and val.func.id in self.fresh_returning)
                        (created if fresh else other).add(t.id)
        return {n for n in created if n not in other and n not in params}

    def translate_function(self, f, mode_eff):
        self.cur = f
        self.mode_eff = mode_eff
        fnode = f.node
        self.local_containers = self.find_local_containers(fnode)
        self.assigned_names = set()
        for node in ast.walk(fnode):
            if isinstance(node, ast.Name) and isinstance(node.ctx, ast.Store):
                self.assigned_names.add(node.id)
        self.vartypes = {}
        self.written = None
        self.maybe_vars = {}
        for _ in range(8):
            self.escaped = set()
            self.loop_mutations = []
            self.seen_decl = set()
            env = Env()
            if f.store:
                env = env.bind("$store", "(@nil (list lfeat))" if f.export else "st_0", STORE)
                self.local_containers |= set(f.inouts)
            for (pn, pt, pd) in f.params:
                env = env.bind(pn, pname(pn), pt)
            for mn, mt in self.maybe_vars.items():
                env = env.bind(mn, f"(@None {coq_ty(mt)})", ("maybe", mt))
            try:
                def k_end(en):
                    if (f.store or f.inouts) and f.ret == NONE:
                        return self.final_store(None, en)
                    if f.mutator:
                        return self.final(Val(en.vars["self"][0], en.vars["self"][1]))
                    fail(fnode, "control reaches the end of the function without return")
                return self.block(fnode.body, env, k_end)
            except Retype:
                continue
        fail(fnode, "local variable types do not stabilise")


def pname(n):
    return n if n == "self" else n + "_0"


def is_json_load_with(s):
    return (isinstance(s, ast.With) and len(s.items) == 1 and isinstance(s.items[0].context_expr, ast.Call)
            and ast.unparse(s.items[0].context_expr.func) == "open" and len(s.items[0].context_expr.args) == 2
            and ast.unparse(s.items[0].context_expr.args[1]) in ("'r'", '"r"')
            and [(kw.arg, ast.unparse(kw.value).replace('"', "'")) for kw in s.items[0].context_expr.keywords] in (
                [("encoding", "'utf-8'")], [("encoding", "'utf8'")])
            and isinstance(s.items[0].optional_vars, ast.Name) and s.body
            and isinstance(s.body[0], ast.Assign) and len(s.body[0].targets) == 1 and isinstance(s.body[0].targets[0], ast.Name)
            and ast.unparse(s.body[0].value) == f"json.load({s.items[0].optional_vars.id})")


class Retype(Exception):
    pass


class NeedEff(Exception):
    pass


def collect(unit):
    """parse the unit's files and build the FuncInfo table"""
    PURE[0] = bool(unit.get("pure_features"))
    funcs = {}
    enums = {}
    consts = {}
    tables = {}
    strlists = {}
    oplists = {}
    for path, cls_methods, functions in unit["files"]:
        full = os.path.join(REPO_PKG, path)
        tree = ast.parse(open(full, encoding="utf-8").read(), full)
        classes = {n.name: n for n in tree.body if isinstance(n, ast.ClassDef)}
        for cn, cnode in classes.items():
            if any(isinstance(b, ast.Name) and b.id == "Enum" for b in cnode.bases):
                enums[cn] = {t.id: st.value.value for st in cnode.body if isinstance(st, ast.Assign)
                             and isinstance(st.value, ast.Constant) and isinstance(st.value.value, str)
                             for t in st.targets if isinstance(t, ast.Name)}
        topfuncs = {n.name: n for n in tree.body if isinstance(n, ast.FunctionDef)}
        # enums nested in a class (PLWriter.LogicConnective) and module constants bound to their values
        for cn, cnode in classes.items():
            for sub in cnode.body:
                if isinstance(sub, ast.ClassDef) and any(isinstance(b, ast.Name) and b.id == "Enum" for b in sub.bases):
                    enums[f"{cn}.{sub.name}"] = {t.id: st.value.value for st in sub.body if isinstance(st, ast.Assign)
                                                 and isinstance(st.value, ast.Constant) and isinstance(st.value.value, str)
                                                 for t in st.targets if isinstance(t, ast.Name)}
        for st in tree.body:
            tgt = st.targets[0] if isinstance(st, ast.Assign) and len(st.targets) == 1 else (
                st.target if isinstance(st, ast.AnnAssign) else None)
            if isinstance(tgt, ast.Name) and isinstance(getattr(st, "value", None), ast.Dict) and st.value.keys and all(
                    isinstance(k, ast.Attribute) and isinstance(k.value, ast.Name) and k.value.id == "ASTOperation"
                    and k.attr in ASTOPS for k in st.value.keys):
                rows = []
                for k, v in zip(st.value.keys, st.value.values):
                    if isinstance(v, ast.Constant) and isinstance(v.value, str):
                        rows.append((k.attr, v.value))
                    elif ast.unparse(v) == f"ASTOperation.{k.attr}.value":
                        rows.append((k.attr, k.attr))
                    else:
                        rows = None
                        break
                if rows is not None and len({r[0] for r in rows}) == len(rows):
                    tables[tgt.id] = rows
            val0 = getattr(st, "value", None)
            if isinstance(tgt, ast.Name) and isinstance(val0, (ast.Tuple, ast.List)) and val0.elts and all(
                    isinstance(x, ast.Attribute) and isinstance(x.value, ast.Name) and x.value.id == "ASTOperation"
                    and x.attr in ASTOPS for x in val0.elts):
                oplists[tgt.id] = [x.attr for x in val0.elts]
            if isinstance(tgt, ast.Name) and isinstance(val0, ast.Call) and ast.unparse(val0.func) == "frozenset" \
                    and len(val0.args) == 1 and isinstance(val0.args[0], (ast.Set, ast.List, ast.Tuple)) and all(
                    isinstance(x, ast.Constant) and isinstance(x.value, str) for x in val0.args[0].elts):
                strlists[tgt.id] = sorted({x.value for x in val0.args[0].elts})
            if isinstance(tgt, ast.Name) and isinstance(getattr(st, "value", None), (ast.Tuple, ast.List)) and st.value.elts and all(
                    isinstance(x, ast.Constant) and isinstance(x.value, str) for x in st.value.elts):
                strlists[tgt.id] = [x.value for x in st.value.elts]
        for st in tree.body:
            if isinstance(st, ast.Assign) and len(st.targets) == 1 and isinstance(st.targets[0], ast.Name):
                v = st.value
                if isinstance(v, ast.Constant) and isinstance(v.value, str):
                    consts[st.targets[0].id] = v.value
                elif isinstance(v, ast.Attribute) and v.attr == "value" and isinstance(v.value, ast.Attribute):
                    en = ast.unparse(v.value.value)
                    if en in enums and v.value.attr in enums[en]:
                        consts[st.targets[0].id] = enums[en][v.value.attr]
        for cls, methods in cls_methods.items():
            if cls not in classes:
                raise Fail(f"{path}: class {cls} not found")
            ms = {n.name: n for n in classes[cls].body if isinstance(n, ast.FunctionDef)}
            for m in methods:
                if m not in ms:
                    raise Fail(f"{path}: method {cls}.{m} not found")
                funcs[(cls, m)] = FuncInfo(cls, ms[m], f"py_{cls}_{m}")
        for cls, methods in (unit.get("objects", {}).get(path, {})).items():
            if cls not in classes:
                raise Fail(f"{path}: class {cls} not found")
            ms = {n.name: n for n in classes[cls].body if isinstance(n, ast.FunctionDef)}
            if "__init__" not in ms:
                raise Fail(f"{path}: {cls}.__init__ not found")
            init = ms["__init__"]
            ctor_params = [(a.arg, parse_ann(a.annotation, a)) for a in init.args.args[1:]]
            CTOR_PARAMS[cls] = ctor_params
            fields = []
            for st in init.body:
                if isinstance(st, ast.Expr) and isinstance(st.value, ast.Constant):
                    continue
                if isinstance(st, ast.Expr) and ast.unparse(st.value) == "super().__init__()":
                    continue          # the fields of the core base class this unit needs are listed under "extra_fields"
                tg = st.target if isinstance(st, ast.AnnAssign) else (st.targets[0] if isinstance(st, ast.Assign) and len(st.targets) == 1 else None)
                if not (isinstance(tg, ast.Attribute) and isinstance(tg.value, ast.Name) and tg.value.id == "self"):
                    fail(st, "constructor statement other than self.<field> = <value>")
                if isinstance(st, ast.AnnAssign):
                    ty = parse_ann(st.annotation, st)
                elif isinstance(st.value, ast.Constant) and isinstance(st.value.value, int) and not isinstance(st.value.value, bool):
                    ty = INT
                elif isinstance(st.value, ast.Name) and st.value.id in dict(ctor_params):
                    ty = dict(ctor_params)[st.value.id]
                elif isinstance(st.value, ast.Constant) and isinstance(st.value.value, str):
                    ty = STR
                else:
                    fail(st, "field without a type annotation")
                fields.append((tg.attr, ty, st.value))
            for fn_, ft_ in unit.get("extra_fields", {}).get(cls, []):
                fields.append((fn_, ft_, ast.Constant(value=None)))
            OBJECTS[cls] = fields
            if methods == "ALL_METRICS":
                # every method decorated with @metric_method, the helpers they use, and the first part of
                # calculate_metamodel_metrics (up to the reflection idiom, which is replaced by a dispatch table below)
                decorated = sorted(n for n, fn_ in ms.items()
                                   if [ast.unparse(d) for d in fn_.decorator_list] == ["metric_method"])
                calc = ms.get("calculate_metamodel_metrics")
                if calc is None:
                    raise Fail(f"{path}: {cls}.calculate_metamodel_metrics not found")
                cut = next((i for i, st in enumerate(calc.body) if isinstance(st, ast.Assign) and len(st.targets) == 1
                            and isinstance(st.targets[0], ast.Name) and st.targets[0].id == "metric_methods"), None)
                expected = [
                    "metric_methods = [getattr(self, method_name) for method_name in dir(self) if callable(getattr(self, method_name)) "
                    "and hasattr(getattr(self, method_name), '_is_metric_method')]",
                    "if self.filter is not None:\n    metric_methods = [method for method in metric_methods if method.__name__ in self.filter]",
                    "return [method() for method in metric_methods]"]
                if cut is None or [ast.unparse(st) for st in calc.body[cut:]] != expected:
                    raise Fail(f"{path}: the reflection idiom at the end of calculate_metamodel_metrics is not the known one")
                prep = ast.FunctionDef(name="_prepare", args=calc.args, body=calc.body[:cut] or [ast.Pass()],
                                       decorator_list=[], returns=ast.Constant(value=None), type_comment=None)
                ast.copy_location(prep, calc)
                ast.fix_missing_locations(prep)
                ms["_prepare"] = prep
                unit["_metrics"] = {"cls": cls, "decorated": decorated}
                methods = decorated + ["_prepare", "constraints_per_features", "_is_group_feature", "_is_grouped",
                                       "get_feature_ancestors"]
            for m in methods:
                if m not in ms:
                    raise Fail(f"{path}: method {cls}.{m} not found")
                fi = FuncInfo(cls, ms[m], f"py_{cls}_{m}")
                fi.is_obj = True
                decos = [ast.unparse(d) for d in ms[m].decorator_list]
                if decos == ["staticmethod"]:
                    fi.kind = "static"
                elif decos == ["classmethod"]:
                    fi.kind = "class"
                elif decos == ["metric_method"]:
                    fi.is_metric = True
                elif decos:
                    fail(ms[m], "decorated method")
                ms[m].decorator_list = []
                funcs[(cls, m)] = fi
        for fn in functions:
            if fn not in topfuncs:
                raise Fail(f"{path}: function {fn} not found")
            funcs[(None, fn)] = FuncInfo(None, topfuncs[fn], f"py_{fn}")
    for key, f in funcs.items():
        a = f.node.args
        if a.vararg or a.kwarg or a.kwonlyargs or a.posonlyargs:
            fail(f.node, "unsupported parameter kinds")
        if f.node.decorator_list:
            fail(f.node, "decorated function")
        defaults = [None] * (len(a.args) - len(a.defaults)) + list(a.defaults)
        for arg, d in zip(a.args, defaults):
            if arg.arg == "cls" and f.kind == "class":
                continue
            if arg.arg == "self":
                f.params.append(("self", ("obj", f.cls) if getattr(f, "is_obj", False) else (f.cls,), None))
            elif arg.arg == "other" and f.node.name in ("__eq__", "__lt__"):
                f.params.append(("other", (f.cls,), None))     # compared only with objects of its own class here
            else:
                f.params.append((arg.arg, OVERRIDE_PARAM.get((f.cls, f.node.name, arg.arg)) or parse_ann(arg.annotation, arg), d))
        f.ret = OVERRIDE_RET.get(key) or parse_ann(f.node.returns, f.node)
        if getattr(f, "is_metric", False):
            f.ret = METRIC
        if any(is_json_load_with(x) for x in f.node.body):
            f.params.append(("loaded", ANY, None))
        if key[0] is None and key[1] in unit.get("store_funcs", []):
            f.store = True
            f.export = key[1] in unit.get("store_exports", [])

            def to_ref(t):
                if t == FSET:
                    return SETREF
                if t[0] in ("list", "opt"):
                    return (t[0], to_ref(t[1]))
                return t
            f.params = [(pn, to_ref(pt), pd) for pn, pt, pd in f.params]
            if not f.export:
                f.ret = to_ref(f.ret)
            pnames = {pn: pt for pn, pt, _ in f.params}
            for x in ast.walk(f.node):
                if isinstance(x, ast.Call) and isinstance(x.func, ast.Attribute) and x.func.attr in ("append", "extend") \
                        and isinstance(x.func.value, ast.Name) and pnames.get(x.func.value.id, ("?",))[0] == "list" \
                        and x.func.value.id not in f.inouts:
                    f.inouts.append(x.func.value.id)
        if PURE[0]:
            # parameters whose every use is the `parent` argument of a constructor (or of set_parent)
            for pn, pt, _ in f.params:
                if pt not in (PFEATURE, Opt(PFEATURE)):
                    continue
                loads = [x for x in ast.walk(f.node) if isinstance(x, ast.Name) and x.id == pn and isinstance(x.ctx, ast.Load)]
                ok_ids = set()
                for c in ast.walk(f.node):
                    if isinstance(c, ast.Call) and isinstance(c.func, ast.Name) and c.func.id in ("Feature", "Relation"):
                        for kw in c.keywords:
                            if kw.arg == "parent" and isinstance(kw.value, ast.Name):
                                ok_ids.add(id(kw.value))
                        pos = {"Feature": 2, "Relation": 0}[c.func.id]
                        if len(c.args) > pos and isinstance(c.args[pos], ast.Name):
                            ok_ids.add(id(c.args[pos]))
                    if isinstance(c, ast.Call) and isinstance(c.func, ast.Attribute) and c.func.attr == "set_parent" and c.args \
                            and isinstance(c.args[0], ast.Name):
                        ok_ids.add(id(c.args[0]))
                if loads and all(id(x) in ok_ids for x in loads):
                    f.pointer_params.add(pn)
        if PURE[0] and key[0] is None:
            pn_ty = {pn: pt for pn, pt, _ in f.params}
            for x in ast.walk(f.node):
                if isinstance(x, ast.Call) and isinstance(x.func, ast.Attribute) and x.func.attr in ("add_relation", "add_attribute") \
                        and isinstance(x.func.value, ast.Name) and pn_ty.get(x.func.value.id) == PFEATURE \
                        and x.func.value.id not in f.inouts:
                    f.inouts.append(x.func.value.id)
        if getattr(f, "is_obj", False) and f.ret == NONE:
            f.ret, f.mutator = ("obj", f.cls), True       # a method that only changes the object: the new state
    return funcs, enums, consts, tables, strlists, oplists


def translate_unit(unit, externals):
    funcs, enums, consts, tables, strlists, oplists = collect(unit)
    PURE[0] = bool(unit.get("pure_features"))
    fresh = set()
    tr = Translator(unit["name"], funcs, externals)
    tr.enums = enums
    tr.module_consts = consts
    tr.join_ifs = bool(unit.get("join_ifs"))
    tr.module_tables = tables
    tr.module_strlists = strlists
    tr.module_oplists = oplists
    # top-level functions that return a list they created themselves (so the caller may mutate it)
    for (cls, name), f in funcs.items():
        if cls is None:
            tr.cur = f
            tr.fresh_returning = set()
            loc = tr.find_local_containers(f.node)
            rets = [n for n in ast.walk(f.node) if isinstance(n, ast.Return)]
            if rets and all(isinstance(r.value, (ast.List, ast.ListComp)) or (
                    isinstance(r.value, ast.Name) and r.value.id in loc) for r in rets):
                fresh.add(name)
    tr.fresh_returning = fresh
    # pass 1: probe (everything in the monad) to learn call edges and intrinsic effects
    # a function that cannot be translated fails ALONE (and with it every function that calls it):
    # the others are still emitted, so that a change the translator does not understand breaks the
    # obligations of the properties that rest on that function and no others
    progress = True
    while progress:
        progress = False
        for f in funcs.values():
            if f.failed:
                continue
            try:
                f.calls = set()
                tr.translate_function(f, True)
            except Fail as e:
                f.failed, progress = str(e), True
            except (RecursionError, KeyError, IndexError, AttributeError, TypeError, ValueError, AssertionError) as e:
                # a construct that trips the translator itself: this function is not translated, the others are
                f.failed, progress = f"translator error: {type(e).__name__}: {e}"[:200], True
    by_name = {f.coqname: f for f in list(externals.values()) + list(funcs.values())}
    # recursion: only self-recursion is supported
    for f in funcs.values():
        f.rec = f.coqname in f.calls

    def reach(f, seen):
        for c in f.calls:
            g = by_name[c]
            if g.coqname not in seen:
                seen.add(g.coqname)
                reach(g, seen)
        return seen
    # mutual recursion: the functions of one cycle are emitted as one `Fixpoint … with …`, all on the fuel
    mine = {g.coqname for g in funcs.values()}
    for f in funcs.values():
        r = reach(f, set())
        f.group = sorted({f.coqname} | {c for c in r if c in mine and f.coqname in reach(by_name[c], set())})
        if len(f.group) > 1:
            f.rec = True
    for f in funcs.values():
        if not f.failed and any(by_name[c].failed for c in reach(f, set())):
            f.failed = "calls a function that could not be translated"
    changed = True
    while changed:
        changed = False
        for f in funcs.values():
            if f.failed:
                continue
            fuel = f.rec or f.has_while or f.store or any(by_name[c].fuel for c in f.calls)
            eff = f.intrinsic_eff or fuel or bool(f.inouts) or any(by_name[c].eff for c in f.calls) or contains_loop(f.node)
            if fuel != f.fuel or eff != f.eff:
                f.fuel, f.eff, changed = fuel, eff, True
    # pass 2: emit in dependency order
    order, done = [], set()

    def visit(f):
        if f.coqname in done:
            return
        done.add(f.coqname)
        for c in sorted(f.calls):
            g = by_name[c]
            if g is not f and g.coqname in {h.coqname for h in funcs.values()}:
                visit(g)
        order.append(f)
    for f in funcs.values():
        visit(f)
    out = []
    for tname, rows in tables.items():
        out.append(f"(* {tname}: a module-level dict from ASTOperation to text *)\nDefinition py_{tname} (o : astop) : option string :=\n  match o with\n"
                   + "".join(f"  | {k} => Some {coq_str(v)}\n" for k, v in rows)
                   + ("  | _ => None\n" if len(rows) < len(ASTOPS) else "") + "  end.\n")
    pending = {}
    for cls in [c for objs in unit.get("objects", {}).values() for c in objs]:
        fields = OBJECTS[cls]
        out.append(f"(* the state of a {cls} object *)\nRecord py_{cls}_state := {{ "
                   + "; ".join(f"{cls}_{fn} : {coq_ty(ft)}" for fn, ft, _ in fields) + " }.\n")
        tr.cur = FuncInfo(cls, None, f"py_{cls}_new")
        tr.mode_eff = False
        tr.assigned_names = set()
        inits = []
        cenv = Env()
        for pn, pt in CTOR_PARAMS.get(cls, []):
            cenv = cenv.bind(pn, pname(pn), pt)
        for fn, ft, fv in fields:
            if isinstance(fv, ast.Dict) and not fv.keys:
                v = Val("(VMap [])", ANY) if ft == ANY else Val("[]", ft)
            else:
                v = tr.coerce(tr.tr(fv, cenv), ft, fv)
            if v.eff:
                raise Fail(f"{cls}.__init__: effectful field initialiser")
            inits.append(f"{cls}_{fn} := {v.code}")
        cps = "".join(f" ({pname(pn)} : {coq_ty(pt)})" for pn, pt in CTOR_PARAMS.get(cls, []))
        out.append(f"(* {cls}.__init__ *)\nDefinition py_{cls}_new{cps} : py_{cls}_state :=\n  {{| " + "; ".join(inits) + " |}.\n")
    for f in order:
        src = f"{f.cls + '.' if f.cls else ''}{f.node.name}"
        if not f.failed:
            tr.counter = 0
            try:
                body = tr.translate_function(f, f.eff)
            except Fail as e:
                f.failed = str(e)
            except (RecursionError, KeyError, IndexError, AttributeError, TypeError, ValueError, AssertionError) as e:
                f.failed = f"translator error: {type(e).__name__}: {e}"[:200]
        if f.failed:
            out.append(f"(* {src}: NOT TRANSLATED — {f.failed.replace('*)', '* )')} *)\n")
            continue
        params = " ".join(f"({pname(pn)} : {coq_ty(pt)})" for pn, pt, pd in f.params)
        rty = coq_ty(f.ret)
        if f.inouts and not f.store:
            comps = [coq_ty(pt) for pn, pt, pd in f.params if pn in f.inouts] + ([rty] if f.ret != NONE else [])
            rty = "(" + " * ".join(comps) + ")%type" if len(comps) > 1 else comps[0]
        if f.store:
            if f.export:
                rty = "(list (list lfeat))"
            else:
                params = "(st_0 : py_store) " + params
            if f.export:
                pass
            else:
                comps = ["py_store"] + [coq_ty(pt) for pn, pt, pd in f.params if pn in f.inouts] + ([rty] if f.ret != NONE else [])
                rty = "(" + " * ".join(comps) + ")%type"
        if f.rec and len(f.group) > 1:
            key = tuple(f.group)
            pending.setdefault(key, []).append(
                f"{f.coqname} (fuel : nat) {params} {{struct fuel}} : result {rty} :=\n"
                f"  match fuel with\n  | O => Err RuntimeError\n  | S fuel =>\n    {body}\n  end")
            if len(pending[key]) == len(key):
                out.append(f"(* {', '.join(key)}: mutually recursive *)\nFixpoint " + "\nwith ".join(pending[key]) + ".\n")
        elif f.rec:
            out.append(f"(* {src} *)\nFixpoint {f.coqname} (fuel : nat) {params} {{struct fuel}} : result {rty} :=\n"
                       f"  match fuel with\n  | O => Err RuntimeError\n  | S fuel =>\n    {body}\n  end.\n")
        elif f.fuel:
            out.append(f"(* {src} *)\nDefinition {f.coqname} (fuel : nat) {params} : result {rty} :=\n  {body}.\n")
        elif f.eff:
            out.append(f"(* {src} *)\nDefinition {f.coqname} {params} : result {rty} :=\n  {body}.\n")
        else:
            out.append(f"(* {src} *)\nDefinition {f.coqname} {params} : {rty} :=\n  {body}.\n")
    if unit.get("_metrics"):
        cls, decorated = unit["_metrics"]["cls"], unit["_metrics"]["decorated"]
        fis = [funcs[(cls, n)] for n in decorated]
        prep = funcs[(cls, "_prepare")]
        calc = FuncInfo(cls, prep.node, f"py_{cls}_calculate_metamodel_metrics")
        bad = [g.coqname for g in fis + [prep] if g.failed]
        if bad:
            calc.failed = "needs " + ", ".join(bad[:5])
            out.append(f"(* {cls}.calculate_metamodel_metrics: NOT TRANSLATED — {calc.failed} *)\n")
        else:
            st = f"py_{cls}_state"
            out.append(f"(* the methods decorated with @metric_method, in the order dir() lists them *)\n"
                       f"Definition py_{cls}_metric_methods : list string :=\n  [" + "; ".join(coq_str(n) for n in decorated) + "].\n")
            body = "Err AttributeError"
            for g, n in reversed(list(zip(fis, decorated))):
                call = f"{g.coqname}{' fuel' if g.fuel else ''} self"
                call = call if g.eff else f"Ok ({call})"
                body = f"if String.eqb name {coq_str(n)} then {call}\n  else {body}"
            out.append(f"(* getattr(self, name)() for a metric method *)\nDefinition py_{cls}_metric (fuel : nat) (self : {st}) "
                       f"(name : string) : result py_metric :=\n  {body}.\n")
            pcall = f"{prep.coqname}{' fuel' if prep.fuel else ''} self model_0"
            pcall = pcall if prep.eff else f"Ok ({pcall})"
            out.append(
                f"(* {cls}.calculate_metamodel_metrics: the preparation translated above, then the reflection idiom\n"
                f"   [getattr(self, n) for n in dir(self) if … _is_metric_method], the filter, and the calls *)\n"
                f"Definition py_{cls}_calculate_metamodel_metrics (fuel : nat) (self : {st}) (model_0 : fm) : result (list py_metric) :=\n"
                f"  bind ({pcall}) (fun self1 =>\n"
                f"    let methods := match {cls}_filter self1 with\n"
                f"                   | None => py_{cls}_metric_methods\n"
                f"                   | Some fl => filter (fun n => existsb (fun y => String.eqb y n) fl) py_{cls}_metric_methods\n"
                f"                   end in\n"
                f"    mapM (py_{cls}_metric fuel self1) methods).\n")
        funcs[(cls, "calculate_metamodel_metrics")] = calc
    return funcs, "\n".join(out)


def contains_loop(fnode):
    return any(isinstance(n, (ast.For, ast.While)) for n in ast.walk(fnode))


HEADER = """(* GENERATED by tools/py2coq.py from the current text of /repo — do not edit.
   Each definition is the translation of one Python function; Proofs/Src*Facts.v prove it equal to
   the hand-written model. *)
From Coq Require Import List Bool Ascii String ZArith.
From FM Require Import Base.Result Base.Str Base.AstOp Gen.Tables_core Model.Ast Model.FM Model.PyRt{extra}.
Import ListNotations.
Local Open Scope list_scope.

"""

UNITS = [
    {"name": "fm", "imports": "",
     "files": [("models/feature_model.py", {
         "Relation": ["is_mandatory", "is_optional", "is_or", "is_alternative", "is_mutex", "is_cardinal", "is_group",
                      "__eq__", "_sort_key", "__lt__", "__str__"],
         "Feature": ["__eq__", "__str__", "__lt__", "is_empty", "get_attributes", "get_relations", "get_parent", "get_children", "is_root", "is_mandatory",
                     "is_optional", "is_or_group", "is_alternative_group", "is_mutex_group", "is_cardinality_group",
                     "is_group", "is_multiple_group_decomposition", "is_leaf", "is_boolean", "is_numerical",
                     "is_string", "is_multifeature"],
         "Attribute": ["get_name", "get_default_value", "get_null_value", "get_domain"],
         "Domain": ["get_range_list", "get_element_list"],
         "Constraint": ["get_features", "is_logical_constraint", "is_arithmetic_constraint",
                        "is_aggregation_constraint", "is_single_feature_constraint", "is_simple_constraint",
                        "is_complex_constraint", "is_requires_constraint", "is_excludes_constraint",
                        "is_pseudocomplex_constraint", "is_strictcomplex_constraint", "__eq__", "__lt__", "__str__"],
         "FeatureModel": ["get_relations", "get_features", "get_boolean_features", "get_numerical_features",
                          "get_string_features", "get_constraints", "get_mandatory_features",
                          "get_optional_features", "get_alternative_group_features", "get_or_group_features",
                          "get_feature_by_name", "get_logical_constraints", "get_arithmetic_constraints",
                          "get_aggregations_constraints", "get_complex_constraints", "get_simple_constraints",
                          "get_excludes_constraints", "get_requires_constraints",
                          "get_pseudocomplex_constraints", "get_strictcomplex_constraints", "__eq__"],
     }, ["left_right_features_from_simple_constraint", "split_formula", "split_constraint", "get_new_ctc_name"])]},
    {"name": "ops", "imports": " Gen.Src_fm",
     "files": [
         ("operations/fm_estimated_configurations_number.py", {}, ["count_configurations", "count_configurations_rec"]),
         ("operations/fm_core_features.py", {}, ["get_core_features"]),
         ("operations/fm_count_leafs.py", {}, ["count_leaf_features"]),
         ("operations/fm_leaf_features.py", {}, ["get_leaf_features"]),
         ("operations/fm_feature_ancestors.py", {}, ["get_feature_ancestors"]),
         ("operations/fm_max_depth_tree.py", {}, ["max_depth_tree"]),
         ("operations/fm_average_branching_factor.py", {}, ["average_branching_factor"]),
         ("operations/fm_variation_points.py", {}, ["variation_points"]),
     ]},
    {"name": "atomic", "imports": " Gen.Src_fm",
     "files": [("operations/fm_atomic_sets.py", {}, ["get_atomic_sets", "compute_atomic_sets"])],
     "store_funcs": ["get_atomic_sets", "compute_atomic_sets"], "store_exports": ["get_atomic_sets"]},
    {"name": "opobj", "imports": " Gen.Src_fm Gen.Src_ops Gen.Src_atomic",
     "files": [(p, {}, []) for p in (
         "operations/fm_estimated_configurations_number.py", "operations/fm_core_features.py",
         "operations/fm_count_leafs.py", "operations/fm_leaf_features.py", "operations/fm_feature_ancestors.py",
         "operations/fm_max_depth_tree.py", "operations/fm_average_branching_factor.py",
         "operations/fm_variation_points.py", "operations/fm_atomic_sets.py")],
     "objects": {
         "operations/fm_estimated_configurations_number.py":
             {"FMEstimatedConfigurationsNumber": ["execute", "get_result", "get_configurations_number"]},
         "operations/fm_core_features.py": {"FMCoreFeatures": ["execute", "get_result", "get_core_features"]},
         "operations/fm_atomic_sets.py": {"FMAtomicSets": ["execute", "get_result", "atomic_sets"]},
         "operations/fm_count_leafs.py": {"FMCountLeafs": ["execute", "get_result", "get_number_of_leafs"]},
         "operations/fm_leaf_features.py": {"FMLeafFeatures": ["execute", "get_result"]},
         "operations/fm_feature_ancestors.py": {"FMFeatureAncestors": ["set_feature", "execute", "get_result"]},
         "operations/fm_max_depth_tree.py": {"FMMaxDepthTree": ["execute", "get_result"]},
         "operations/fm_average_branching_factor.py":
             {"FMAverageBranchingFactor": ["execute", "get_result", "get_average_branching_factor"]},
         "operations/fm_variation_points.py": {"FMVariationPoints": ["execute", "get_result", "variation_points"]},
     }},
    {"name": "fide", "imports": " Gen.Src_fm Gen.Tables_fide", "join_ifs": True,
     "files": [("transformations/featureide_writer.py", {},
                ["_get_attributes", "_tag_element", "_get_constraints_info", "_get_ctc_info"])]},
    {"name": "uvl", "imports": " Gen.Src_fm", "join_ifs": True,
     "files": [("transformations/uvl_writer.py", {}, ["safename", "safe_simple_name"])],
     "objects": {"transformations/uvl_writer.py": {"UVLWriter": [
         "transform", "read_features", "read_attributes", "serialize_value", "serialize_relation", "read_constraints",
         "serialize_constraint", "_serialize_operand", "_serialize_node"]}}},
    {"name": "afm", "imports": " Gen.Src_fm", "join_ifs": True,
     "files": [("transformations/afm_writer.py", {}, [])],
     "objects": {"transformations/afm_writer.py": {"AFMWriter": [
         "transform", "serialize_relationships", "recursive_relationship_read", "read_relation", "serialize_attributes",
         "read_attribute", "value_text", "serialize_constraints", "recursive_constraint_read", "_constraint_operand"]}}},
    {"name": "clafer", "imports": " Gen.Src_fm", "join_ifs": True,
     "files": [("transformations/clafer_writer.py", {},
                ["fm_to_clafer", "read_features", "_in_any_number_group", "read_feature_attributes", "_double_literal",
                 "parse_group_type", "read_constraints", "serialize_constraint", "_serialize_operand", "_serialize_node",
                 "attributes_definition", "parse_type_value", "safename", "safecharacters"])],
     "objects": {"transformations/clafer_writer.py": {"ClaferWriter": ["transform"]}}},
    {"name": "splot", "imports": " Gen.Src_fm",
     "files": [("transformations/splot_writer.py", {},
                ["fm_to_splot", "add_features", "add_constraints", "safename", "safecharacters"])],
     "objects": {"transformations/splot_writer.py": {"SPLOTWriter": ["transform"]}}},
    {"name": "pl", "imports": " Gen.Src_fm",
     "files": [("transformations/pl_writer.py", {},
                ["to_exp", "get_relation_formula", "get_mandatory_formula", "get_optional_formula", "get_or_formula",
                 "get_alternative_formula", "get_mutex_formula", "get_cardinality_formula", "get_constraint_formula",
                 "_operand_formula", "_node_formula"])],
     "objects": {"transformations/pl_writer.py": {"PLWriter": ["transform"]}}},
    {"name": "glencoe", "imports": " Gen.Src_fm Gen.Tables_glencoe",
     "files": [("transformations/glencoe_writer.py", {},
                ["_to_json", "_get_features_info", "_get_tree_info", "_get_constraints_info", "_get_ctc_info"])]},
    {"name": "glencoer", "imports": " Gen.Src_fm", "pure_features": True,
     "files": [("transformations/glencoe_reader.py", {}, [])],
     "objects": {"transformations/glencoe_reader.py": {"GlencoeReader": ["_parse_ast_constraint", "_parse_tree",
                                                                          "_parse_constraints", "transform"]}}},
    {"name": "fider", "imports": " Gen.Src_fm Format.Xml Gen.Tables_fide",
     "files": [("transformations/featureide_reader.py", {}, [])],
     "objects": {"transformations/featureide_reader.py": {"FeatureIDEReader": ["_parse_rule", "_read_constraints"]}}},
    {"name": "jsonr", "imports": " Gen.Src_fm", "pure_features": True,
     "files": [("transformations/json_writer.py", {}, []),
               ("transformations/json_reader.py", {}, ["parse_constraints", "parse_ast_constraint", "parse_tree",
                                                       "parse_attributes", "parse_relations"])],
     "objects": {"transformations/json_reader.py": {"JSONReader": ["parse_json", "transform"]}}},
    {"name": "metrics", "imports": " Gen.Src_fm Gen.Src_ops Gen.Src_opobj",
     "files": [("operations/fm_metrics.py", {}, [])],
     "extra_fields": {"FMMetrics": [("filter", Opt(List(STR)))]},
     "objects": {"operations/fm_metrics.py": {"FMMetrics": "ALL_METRICS"}}},
    {"name": "json", "imports": " Gen.Src_fm",
     "files": [("transformations/json_writer.py", {},
                ["to_json", "get_tree_info", "get_attributes_info", "get_constraints_info", "get_ctc_info"])]},
]


def write(name, text):
    path = os.path.join(GEN, f"Src_{name}.v")
    old = open(path).read() if os.path.exists(path) else None
    if old != text:
        with open(path, "w") as fh:
            fh.write(text)
        print(f"py2coq: wrote {path}")


def main():
    want = sys.argv[1:] or ["all"]
    externals = {}
    rc = 0
    report = {}
    per_unit = {}
    for unit in UNITS:
        externals = {}
        for u in unit["imports"].split():
            externals.update(per_unit.get(u.replace("Gen.Src_", ""), {}))
        try:
            funcs, body = translate_unit(unit, externals)
        except Fail as e:
            print(f"py2coq: unit {unit['name']}: CANNOT TRANSLATE: {e}")
            # an untranslatable source must not leave a stale translation behind
            write(unit["name"], HEADER.format(extra=unit["imports"])
                  + f"(* translation failed: {str(e).replace('*)', '* )')} *)\n"
                  + "Definition py2coq_translation_failed : True := I.\n")
            rc = 1
            report[unit["name"]] = {"unit": str(e)}
            continue
        per_unit[unit["name"]] = funcs
        bad = {f.coqname: f.failed for f in funcs.values() if f.failed}
        report[unit["name"]] = bad
        for n, why in bad.items():
            print(f"py2coq: unit {unit['name']}: CANNOT TRANSLATE {n}: {why}")
            rc = 1
        if "all" in want or unit["name"] in want:
            write(unit["name"], HEADER.format(extra=unit["imports"]) + body)
    with open(os.path.join(GEN, "src_report.json"), "w") as fh:
        json.dump(report, fh, indent=1, sort_keys=True)
    sys.exit(rc)


if __name__ == "__main__":
    try:
        main()
    except SystemExit:
        raise
    except BaseException as exc:  # noqa: BLE001 — a crash of the translator must not leave a report that says "all fine"
        import traceback
        traceback.print_exc()
        with open(os.path.join(GEN, "src_report.json"), "w") as fh:
            json.dump({"translator": {"unit": f"translator crashed: {type(exc).__name__}: {exc}"}}, fh, indent=1)
        sys.exit(2)
