#!/venv/bin/python
"""prints the prompt given to a mutation sub-agent for one property (nothing from /verif but the
property text goes in)"""
import json
import sys

pid = sys.argv[1]
n = int(sys.argv[2]) if len(sys.argv) > 2 else 2
start = int(sys.argv[3]) if len(sys.argv) > 3 else 1
ks = list(range(start, start + n))
p = next(json.loads(l) for l in open('/verif/properties.jsonl') if json.loads(l)['id'] == pid)
wt = f"/tmp/wt_{pid}"
print(f"""You are helping to test a verification effort by writing realistic *bug-introducing* changes (mutants) for a Python library.

The library is flamapy's feature-model metamodel plugin (package `flamapy.metamodels.fm_metamodel`). You have your own scratch git worktree of it at `{wt}` (a detached checkout; work ONLY inside that directory; never touch /repo or /verif, and do not read anything under /verif). Run its code with `cd {wt} && PYTHONPATH={wt} /venv/bin/python ...` (the PYTHONPATH makes the worktree's copy win over the installed one; verify with `python -c "import flamapy.metamodels.fm_metamodel as m; print(m.__file__)"`). The existing test-suite is run with `cd {wt} && PYTHONPATH={wt} /venv/bin/python -m pytest -q -p no:cacheprovider` (144 tests, all pass now). There is no network.

The semantic property under test:

  Title: {p['title']}
  Statement: {p['statement']}
  Quantified over: {p['quantifier']['text']}
  Code involved: {', '.join(p['anchors']['files'])}

Your task: produce {n} DIFFERENT changes to the library source (each as a separate patch against the worktree's HEAD) such that, for each change:
  1. the library still imports and the existing 144 tests still pass with the change applied;
  2. the change BREAKS the property above (on the library's current behaviour the property holds for the demonstration input; with the change it does not);
  3. the breakage needs something specific to manifest — an unusual input, a particular combination (e.g. two relations under one parent, a certain cardinality, a name with special characters, a deep/nested structure, a particular operator, a sequence of several calls on one object), or two cooperating edits that each look harmless alone — i.e. NOT something any ordinary use would expose at once, and not something trivial like raising an exception unconditionally;
  4. it looks like a plausible maintenance edit (refactoring slip, off-by-one, wrong operand order, swapped branch, over-eager optimisation, caching, wrong default), not sabotage.
Keep each patch small (a few lines). The changes must be to files under `flamapy/metamodels/fm_metamodel/` only (not tests, not site-packages).

For each change also write a demonstration: a small stand-alone Python script that exits 0 and prints PASS when the property holds for its input and exits 1 printing FAIL when it does not. It must PASS on the unmodified worktree and FAIL with the patch applied. Build inputs through the public constructors (Feature, Relation, FeatureModel, Constraint, AST/Node, Attribute, Domain, Range) or by writing small files and reading them with the library's readers, whichever the property needs.

Deliverables — write them into `{wt}/mutants/` (create it):
  - {', '.join(f'`m{k}.diff`' for k in ks)} : output of `git diff` for each change alone (relative to HEAD, so that `git apply m1.diff` works on a clean checkout);
  - {', '.join(f'`m{k}_demo.py`' for k in ks)} : the demonstrations;
  - {', '.join(f'`m{k}.json`' for k in ks)} : {{"property": "{pid}", "summary": "...what was changed...", "needs": "...what specific condition is needed for the breakage to manifest...", "checked": "...commands you ran and what they printed..."}}
Before finishing, for every mutant: start from a clean tree (`git checkout -- . && git status --short` shows only mutants/), run the demo (must PASS), `git apply mutants/mK.diff`, run the 144 tests (must all pass), run the demo (must FAIL), then `git checkout -- flamapy` to restore. Leave the worktree clean (apart from `mutants/`) at the end.

{'This is a FOURTH round. Everything obvious has been tried: slips in the main functions, caches keyed by name-only equality, letter case, multi-digit numbers compared as text, missing parentheses, attribute value types, reserved words, control characters in names, deep nesting. Aim for changes whose effect is COMPENSATED somewhere else so that simple checks agree: a writer and its reader changed together so that the round trip still works but the file no longer means the same under the format definition; a value that is wrong in a way the library itself cannot notice (e.g. an off-by-one that only shows in the total, not in any listing; an ordering that differs only between processes; a copy that should have been deep); a change that only matters for the SECOND of two different objects handled by one function call (loop-carried state); Python truthiness of 0 / empty string / empty list; integer versus float results (2 vs 2.0, 1e3 vs 1000); mutable default arguments; exceptions swallowed by a broad except and replaced by a default; a guard that returns early for one rare shape (single child, single feature, exactly two constraints, a relation whose min equals its max). ' if start > 8 else ''}{'This is a THIRD round: slips in the obvious functions, caches keyed by name-only equality, letter-case confusions, multi-digit numbers compared as strings and missing parentheses around nested operators have all been tried already. Look elsewhere: attributes (values None / bool / int / float / string / nested lists and maps; True == 1 and 1 == 1.0 confusions), feature types and feature cardinalities, error paths (what is raised and when, errors swallowed and a partial model returned), off-by-one in indices or paths, things only visible with three or more relations under one parent or three or more levels of nesting, mixed single children and groups under one parent in a particular order, escaping of special characters (quotes, backslashes, XML entities, newlines inside names), empty or one-element collections, models with zero constraints or a single feature, abstract flags, and the order of dictionary / list traversal. ' if 6 < start <= 8 else ''}{'This is a SECOND round: simple slips in the most obvious function (a flipped comparison, a dropped element, a missing quote) have been tried already. Look for the less obvious places: helper functions, rarely taken branches, interactions between two functions or two calls, state kept between calls, behaviour that depends on ordering, letter case, numeric width (multi-digit numbers), empty / single-element collections, or on Python data-model methods (__eq__, __hash__, __lt__, __str__). ' if 1 < start <= 6 else ''}IMPORTANT: before designing a mutant, read the relevant code and actually check, with a quick experiment, that the unmodified library satisfies the property on your demonstration input; the library has some pre-existing defects, so pick inputs where the current behaviour is right. Report at the end a short list: for each mutant, one line with the file changed, the idea, and the confirmed PASS→FAIL result.""")
